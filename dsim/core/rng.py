"""Seed derivation: one integer decides everything.

run_seed = H(VERIF_SEED / property / tier / index); named sub-streams are
derived from the run seed the same way so that shrinking one dimension never
shifts the draws of another.  Nothing here reads a clock or the global RNG.
"""
import hashlib
import random


def h64(*parts):
  m = hashlib.blake2b(digest_size=8)
  m.update("/".join(str(p) for p in parts).encode())
  return int.from_bytes(m.digest(), "big")


def run_seed(verif_seed, prop, tier, index):
  # tier is deliberately NOT part of the seed derivation of a run: run i of a
  # property is the same run in quick and thorough, thorough just goes further.
  return h64("run", verif_seed, prop, index)


class Streams:
  """Named, independent PRNG sub-streams of one run seed."""

  def __init__(self, seed):
    self.seed = seed
    self._cache = {}

  def __call__(self, name):
    r = self._cache.get(name)
    if r is None:
      r = self._cache[name] = random.Random(h64("sub", self.seed, name))
    return r

  def sub_seed(self, name):
    return h64("sub", self.seed, name)


def digest(obj):
  """Stable digest of a JSON-able object."""
  import json
  m = hashlib.blake2b(digest_size=12)
  m.update(json.dumps(obj, sort_keys=True, separators=(",", ":"), default=str).encode())
  return m.hexdigest()


class Digest:
  """Incremental event-log digest (never draws randomness, never reads a clock)."""

  def __init__(self):
    self._m = hashlib.blake2b(digest_size=12)
    self.n = 0

  def add(self, *items):
    self._m.update(repr(items).encode())
    self.n += 1

  def hex(self):
    return self._m.hexdigest()
