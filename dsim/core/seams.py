"""Harness-side seams (DESIGN.md 2.2).  Everything here is a monkeypatch of a
module-level / class-level name in pymtl3; nothing in /repo is edited.

S2  OrderedSet            order-preserving set subclass for pass metadata
S3  seeded_object_hash    NamedObject / Const hash from a seeded stream
S5  stall randomness      seeded random.Random factory for StallCL / stream memory
S6  fake files            in-memory open() for VcdGenerationPass / translation
S9  dump_dag stub         no files in /tmp, no viewer process
"""
import io
import os
import random
import sys
from contextlib import contextmanager

# ---------------------------------------------------------------------------
# S3: seeded object hash
# ---------------------------------------------------------------------------

_hash_state = {"rng": None, "enabled": False, "installed": False}


def install_object_hash():
  """Install (once) the patched __new__/__hash__.  While no stream is active
  the hash is a running counter: still ASLR-independent."""
  if _hash_state["installed"]:
    return
  from pymtl3.dsl.NamedObject import NamedObject
  from pymtl3.dsl.Connectable import Const

  _hash_state["counter"] = 0
  orig_new = NamedObject.__new__

  def _next_hash():
    rng = _hash_state["rng"]
    if rng is not None:
      return rng.getrandbits(60)
    _hash_state["counter"] += 1
    # Knuth multiplicative scramble so that consecutive objects do not land
    # in consecutive buckets (which would make set order == creation order
    # in every run and hide order dependence).
    return (_hash_state["counter"] * 0x9E3779B97F4A7C15) & ((1 << 60) - 1)

  def __new__(cls, *args, **kwargs):
    inst = orig_new(cls, *args, **kwargs)
    inst.__dict__["_verif_hash"] = _next_hash()
    return inst

  def __hash__(self):
    try:
      return self.__dict__["_verif_hash"]
    except KeyError:
      h = self.__dict__["_verif_hash"] = _next_hash()
      return h

  NamedObject.__new__ = __new__
  NamedObject.__hash__ = __hash__
  Const.__hash__ = __hash__
  _hash_state["installed"] = True


def set_hash_stream(seed):
  """Start a fresh hash stream (one per run)."""
  install_object_hash()
  _hash_state["rng"] = random.Random(seed) if seed is not None else None
  _hash_state["counter"] = 0


# ---------------------------------------------------------------------------
# S2: order-preserving set
# ---------------------------------------------------------------------------

class OrderedSet(set):
  """A set whose iteration order is the insertion order of a given list.
  Used to present top._dag.final_upblks / all_constraints / all_update_ff to
  the real scheduling passes in a seeded order.  Operators used by the passes
  (-, |, &, copy, iteration, membership, len) are order preserving."""

  def __init__(self, items=()):
    items = list(dict.fromkeys(items))
    super().__init__(items)
    self._order = items

  def __iter__(self):
    return iter(self._order)

  def copy(self):
    return OrderedSet(self._order)

  def __sub__(self, other):
    return OrderedSet([x for x in self._order if x not in other])

  def __or__(self, other):
    return OrderedSet(list(self._order) + [x for x in other if not set.__contains__(self, x)])

  def __and__(self, other):
    return OrderedSet([x for x in self._order if x in other])

  def add(self, x):
    if not set.__contains__(self, x):
      super().add(x)
      self._order.append(x)

  def update(self, *others):
    for o in others:
      for x in o:
        self.add(x)

  def discard(self, x):
    if set.__contains__(self, x):
      super().discard(x)
      self._order.remove(x)

  def remove(self, x):
    super().remove(x)
    self._order.remove(x)

  def pop(self):
    x = self._order.pop()
    super().discard(x)
    return x

  def __reduce__(self):
    return (OrderedSet, (self._order,))


def blk_sort_key(top):
  """A stable, address-free sort key for update-block functions: host
  component name + block name.  Generated net blocks have unique names."""
  hosts = {}
  try:
    for blk in top.get_all_update_blocks():
      hosts[blk] = repr(top.get_update_block_host_component(blk))
  except Exception:
    pass

  def key(blk):
    return (hosts.get(blk, ""), getattr(blk, "__name__", repr(blk)))
  return key


def seed_dag_order(top, rng):
  """S2: present the DAG metadata to the scheduling pass in a seeded order."""
  key = blk_sort_key(top)
  blks = sorted(top._dag.final_upblks, key=key)
  rng.shuffle(blks)
  top._dag.final_upblks = OrderedSet(blks)
  cons = sorted(top._dag.all_constraints, key=lambda e: (key(e[0]), key(e[1])))
  rng.shuffle(cons)
  top._dag.all_constraints = OrderedSet(cons)
  ffs = sorted(top._dsl.all_update_ff, key=key)
  rng.shuffle(ffs)
  top._dsl.all_update_ff = OrderedSet(ffs)
  # constraints that involve top-level callee methods (OpenLoopCLPass): pairs of functions / bound methods,
  # hashed by address - present them in a name order as well
  tl = getattr(top._dag, "top_level_callee_constraints", None)
  if tl:
    # methods / guards are named after the method port that holds them (two guard wrappers have the same
    # __qualname__: their names alone would leave their relative order to the input order)
    from pymtl3.dsl.Connectable import MethodPort
    port_of = {}
    for mp in top.get_all_object_filter(lambda x: isinstance(x, MethodPort)):
      m = getattr(mp, "method", None)
      if m is not None:
        port_of.setdefault(id(m), repr(mp))

    def mkey(f):
      owner = getattr(f, "__self__", None)
      return (port_of.get(id(f), ""), repr(key(f)) if owner is None else repr(owner), getattr(f, "__name__", ""),
              getattr(f, "__qualname__", ""))
    pairs = sorted(tl, key=lambda e: (mkey(e[0]), mkey(e[1])))
    rng.shuffle(pairs)
    top._dag.top_level_callee_constraints = OrderedSet(pairs)


# ---------------------------------------------------------------------------
# S9: dump_dag stub
# ---------------------------------------------------------------------------

dump_dag_calls = []


def install_dump_dag_stub():
  os.environ.pop("MAMBA_DAG", None)
  import pymtl3.passes.sim.SimpleSchedulePass  # noqa
  import pymtl3.passes.sim.DynamicSchedulePass  # noqa
  import pymtl3.passes.mamba.HeuristicTopoPass  # noqa
  import pymtl3.passes.mamba.Mamba2020Pass  # noqa

  def dump_dag(top, V, E):
    dump_dag_calls.append((len(V), len(E)))

  for name in ("pymtl3.passes.sim.SimpleSchedulePass",
               "pymtl3.passes.sim.DynamicSchedulePass",
               "pymtl3.passes.mamba.HeuristicTopoPass",
               "pymtl3.passes.mamba.Mamba2020Pass"):
    mod = sys.modules[name]
    if hasattr(mod, "dump_dag"):
      setattr(mod, "dump_dag", dump_dag)


# ---------------------------------------------------------------------------
# S6: in-memory files
# ---------------------------------------------------------------------------

class FakeFile(io.StringIO):
  """Records every write/flush; close() keeps the content readable."""

  def __init__(self, fs, name):
    super().__init__()
    self._fs = fs
    self._name = name
    self.n_write = 0
    self.n_flush = 0

  def write(self, s):
    self.n_write += 1
    return super().write(s)

  def flush(self):
    self.n_flush += 1
    self._fs.files[self._name] = self.getvalue()

  def close(self):
    self._fs.files[self._name] = self.getvalue()

  def __exit__(self, *a):
    self.close()
    return False

  def fileno(self):
    return -1


class FakeFS:
  """Dict-backed directory.  Only the calls the pymtl3 passes make."""

  def __init__(self):
    self.files = {}
    self.handles = {}

  def open(self, name, mode="r", *a, **k):
    name = str(name)
    if "w" in mode:
      f = FakeFile(self, name)
      self.files[name] = ""
      self.handles[name] = f
      return f
    if "a" in mode:
      f = FakeFile(self, name)
      f.write(self.files.get(name, ""))
      self.handles[name] = f
      return f
    if name in self.files:
      h = self.handles.get(name)
      if h is not None and not h.closed:
        self.files[name] = h.getvalue()
      return io.StringIO(self.files[name])
    # reads of real files (e.g. verilog sources for placeholders) fall through
    return open(name, mode, *a, **k)

  def exists(self, name):
    return str(name) in self.files or os.path.exists(name)

  def rename(self, a, b):
    self.files[str(b)] = self.files.pop(str(a))

  def remove(self, a):
    self.files.pop(str(a), None)

  def current(self, name):
    h = self.handles.get(name)
    if h is not None and not h.closed:
      return h.getvalue()
    return self.files.get(name)


@contextmanager
def patched(module_name, **names):
  """Temporarily bind names in a module's namespace (fetch via sys.modules:
  package __init__ files rebind the attribute to the class)."""
  __import__(module_name)
  mod = sys.modules[module_name]
  missing = object()
  old = {k: mod.__dict__.get(k, missing) for k in names}
  mod.__dict__.update(names)
  try:
    yield mod
  finally:
    for k, v in old.items():
      if v is missing:
        mod.__dict__.pop(k, None)
      else:
        mod.__dict__[k] = v
