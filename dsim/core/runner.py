"""Master/worker runner shared by all engines.

An engine module provides

  ID            property id, e.g. "C19"
  LEVEL         evidence level
  RULE          text: how cases are generated and what makes one non-trivial
  TIERS         {"quick": {"runs": n, "budget_s": s}, "thorough": {...}}
  gen_case(R, tier)      R: rng.Streams -> JSON-able case (all decisions in it)
  run_case(case)         -> {"violations": [ {check, sig, detail} ],
                              "digest": str, "stats": {...}}
  shrink(case)           optional: iterator of smaller candidate cases
  sample(case)           optional: compact form of the case for evidence
  REAL / STUB            lists of strings for the evidence file

run_case must be a pure function of (case, code under test).
"""
import faulthandler
import json
import multiprocessing
import os
import subprocess
import sys
import time
import traceback
from collections import Counter
from concurrent.futures import ProcessPoolExecutor, TimeoutError as FutTimeout

from . import rng as _rng

VERIF = os.path.dirname(os.path.dirname(os.path.dirname(os.path.abspath(__file__))))


# mutant / seeded-change runs must not overwrite the evidence or replays of /repo
OUT = os.environ.get("VERIF_OUT_DIR") or VERIF


class HarnessError(Exception):
  pass


def _merge_stats(agg, st):
  for k, v in st.items():
    if isinstance(v, dict):
      d = agg.setdefault(k, Counter())
      for kk, vv in v.items():
        d[kk] += vv
    elif isinstance(v, (int, float)) and not isinstance(v, bool):
      agg[k] = agg.get(k, 0) + v
    elif isinstance(v, (list, set, tuple)):
      s = agg.setdefault(k, set())
      if len(s) < 200000:
        s.update(v)
    elif isinstance(v, bool):
      agg[k] = agg.get(k, 0) + int(v)


def _worker_chunk(engine_name, verif_seed, tier, indices, deadline):
  """Runs in a forked worker.  Returns a list of per-run records."""
  faulthandler.dump_traceback_later(600, exit=True)
  eng = load_engine(engine_name)
  out = []
  for i in indices:
    if time.time() > deadline:
      break
    seed = _rng.run_seed(verif_seed, eng.ID, tier, i)
    R = _rng.Streams(seed)
    try:
      case = eng.gen_case(R, tier)
      res = eng.run_case(case)
    except Exception:
      out.append({"i": i, "harness_error": traceback.format_exc(),
                  "case": locals().get("case")})
      break
    rec = {"i": i, "seed": seed, "digest": res["digest"],
           "case_digest": _rng.digest(case),
           "stats": res.get("stats", {}),
           "nontrivial": bool(res.get("nontrivial", True))}
    if res["violations"]:
      rec["violations"] = res["violations"]
      rec["case"] = case
    if i % 97 == 0 or i < 3:
      rec["sample"] = eng.sample(case) if hasattr(eng, "sample") else case
    out.append(rec)
  faulthandler.cancel_dump_traceback_later()
  return out


def load_engine(name):
  import importlib
  return importlib.import_module("dsim.engines." + name)


# ---------------------------------------------------------------------------
# known findings
# ---------------------------------------------------------------------------

def load_known():
  p = os.path.join(VERIF, "known_findings.json")
  if not os.path.exists(p):
    return []
  with open(p) as f:
    data = json.load(f)
  return [e for e in data.get("findings", []) if e.get("status", "open") == "open"]


def match_known(prop, v, known):
  for e in known:
    if e["property"] != prop or e["check"] != v["check"]:
      continue
    sig = v.get("sig", {})
    if all(sig.get(k) == val for k, val in e.get("match", {}).items()):
      return e
  return None


# ---------------------------------------------------------------------------
# shrinking + replay
# ---------------------------------------------------------------------------

def _same_violation(res, target):
  for v in res["violations"]:
    if v["check"] == target["check"] and v.get("sig", {}) == target.get("sig", {}):
      return v
  return None


def _run_case_subproc(engine_name, case, timeout=120):
  """Run one case in a fresh interpreter (replay path).  Returns result dict."""
  p = subprocess.run([sys.executable, os.path.join(VERIF, "bin", "check"), engine_name,
                      "--run-case", "-"], input=json.dumps(case), capture_output=True,
                     text=True, timeout=timeout,
                     env=dict(os.environ, PYTHONHASHSEED="0", VERIF_NO_REEXEC="1"))
  for line in p.stdout.splitlines():
    if line.startswith("RESULT "):
      return json.loads(line[7:])
  raise HarnessError("replay subprocess produced no result:\n" + p.stdout[-2000:] + p.stderr[-2000:])


def _shrink_worker(engine_name, cand, target):
  eng = load_engine(engine_name)
  try:
    res = eng.run_case(cand)
  except Exception:
    return None
  v = _same_violation(res, target)
  return v


def shrink_case(eng, engine_name, case, target, budget_s=60, max_exec=800):
  """Greedy delta-debugging over engine-supplied candidates.  Candidates are
  evaluated in a forked child each so that a crash/hang in a candidate does not
  take the master down."""
  if not hasattr(eng, "shrink"):
    return case, 0
  t0 = time.time()
  n = 0
  ctx = multiprocessing.get_context("fork")
  improved = True
  with ProcessPoolExecutor(max_workers=1, mp_context=ctx) as ex:
    while improved and time.time() - t0 < budget_s and n < max_exec:
      improved = False
      for cand in eng.shrink(case):
        if time.time() - t0 > budget_s or n >= max_exec:
          break
        n += 1
        try:
          v = ex.submit(_shrink_worker, engine_name, cand, target).result(timeout=30)
        except Exception:
          return case, n
        if v is not None:
          case = cand
          improved = True
          break
  return case, n


# ---------------------------------------------------------------------------
# main entry
# ---------------------------------------------------------------------------

def run_check(engine_name, tier, verif_seed, budget_override=None, runs_override=None,
              workers=None, write_evidence=True, quiet=False):
  eng = load_engine(engine_name)
  cfg = dict(eng.TIERS[tier])
  if runs_override:
    cfg["runs"] = runs_override
  if budget_override:
    cfg["budget_s"] = budget_override
  nruns = cfg["runs"]
  budget = cfg["budget_s"]
  workers = workers or min(16, os.cpu_count() or 1)
  t0 = time.time()
  deadline = t0 + budget
  chunk = max(1, min(cfg.get("chunk", 16), nruns // (workers * 2) or 1))
  chunks = [list(range(a, min(a + chunk, nruns))) for a in range(0, nruns, chunk)]

  agg = {}
  records = 0
  digests = {}
  case_digests_nt = set()
  all_case_digests = set()
  samples = []
  viol = []          # (record)
  harness_errors = []

  ctx = multiprocessing.get_context("fork")
  with ProcessPoolExecutor(max_workers=workers, mp_context=ctx) as ex:
    futs = [ex.submit(_worker_chunk, engine_name, verif_seed, tier, c, deadline) for c in chunks]
    for f in futs:
      try:
        recs = f.result(timeout=max(60, budget + 300 - (time.time() - t0)))
      except FutTimeout:
        harness_errors.append("worker timeout")
        break
      except Exception as e:
        harness_errors.append("worker died: %r" % (e,))
        break
      for r in recs:
        if "harness_error" in r:
          harness_errors.append("run %d: %s" % (r["i"], r["harness_error"]))
          continue
        records += 1
        digests[r["i"]] = r["digest"]
        all_case_digests.add(r["case_digest"])
        if r["nontrivial"]:
          case_digests_nt.add(r["case_digest"])
        _merge_stats(agg, r["stats"])
        if "sample" in r and len(samples) < 4:
          samples.append(r["sample"])
        if "violations" in r:
          viol.append(r)
    if harness_errors:
      for f in futs:
        f.cancel()

  wall_runs = time.time() - t0

  # ---- determinism sample: re-run ~1% of the indices in a fresh interpreter
  det = {"resampled": 0, "mismatch": 0}
  if records and not harness_errors and not os.environ.get("VERIF_NO_DETSAMPLE"):
    idx = sorted(digests)[:: max(1, len(digests) // max(3, len(digests) // 100))][:12]
    try:
      p = subprocess.run([sys.executable, os.path.join(VERIF, "bin", "check"), engine_name,
                          "--tier", tier, "--digest-of", ",".join(map(str, idx))],
                         capture_output=True, text=True, timeout=600,
                         env=dict(os.environ, PYTHONHASHSEED="1", VERIF_NO_REEXEC="1",
                                  VERIF_SEED=str(verif_seed)))
      got = {}
      for line in p.stdout.splitlines():
        if line.startswith("DIGEST "):
          _, i, d = line.split()
          got[int(i)] = d
      for i in idx:
        det["resampled"] += 1
        if got.get(i) != digests[i]:
          det["mismatch"] += 1
          harness_errors.append("nondeterminism: run %d digest %s vs %s (fresh interpreter)\n%s"
                                % (i, digests[i], got.get(i), p.stderr[-1500:]))
    except subprocess.TimeoutExpired:
      harness_errors.append("determinism resample timed out")

  # ---- violations: classify against known findings, shrink, write replay
  known = load_known()
  known_hits = {}
  new_violations = []
  seen_sigs = set()
  for r in viol:
    for v in r["violations"]:
      e = match_known(eng.ID, v, known)
      if e is not None:
        known_hits.setdefault(e["id"], (e, r, v))
        continue
      key = (v["check"], json.dumps(v.get("sig", {}), sort_keys=True))
      if key in seen_sigs:
        continue
      seen_sigs.add(key)
      new_violations.append((r, v))

  replay_paths = []
  for (r, v) in new_violations[:5]:
    case = r["case"]
    small, nexec = shrink_case(eng, engine_name, case, v,
                               budget_s=90 if tier == "quick" else 240)
    rp = os.path.join(OUT, "replays", "%s-%d-%d-%s.json" % (eng.ID, verif_seed, r["i"], v["check"]))
    os.makedirs(os.path.dirname(rp), exist_ok=True)
    doc = {"property": eng.ID, "engine": engine_name, "verif_seed": verif_seed,
           "run_index": r["i"], "run_seed": r["seed"], "case": small,
           "violation": v, "shrink_executions": nexec,
           "original_case_digest": r["case_digest"]}
    # verify by replay in a fresh interpreter
    try:
      res = _run_case_subproc(engine_name, small)
      vv = _same_violation(res, v)
      doc["replay_verified"] = vv is not None
      if vv is not None:
        doc["violation"] = vv
      else:
        # fall back to the unshrunk case
        res = _run_case_subproc(engine_name, case)
        if _same_violation(res, v) is not None:
          doc["case"] = case
          doc["replay_verified"] = True
    except Exception as e:
      doc["replay_verified"] = False
      doc["replay_error"] = repr(e)
    with open(rp, "w") as f:
      json.dump(doc, f, indent=1, sort_keys=True)
    replay_paths.append((rp, v, doc["replay_verified"]))

  wall = time.time() - t0

  # ---- evidence
  if write_evidence:
    cov = {
      "evaluations": records,
      "distinct_nontrivial": len(case_digests_nt),
      "distinct_cases": len(all_case_digests),
      "rule": eng.RULE,
      "samples": samples[:3],
      "runs_per_hour": int(records / max(wall_runs, 1e-6) * 3600),
      "seeds": {"verif_seed": verif_seed, "run_indices": [0, nruns - 1],
                "derivation": "blake2b('run/<VERIF_SEED>/<property>/<index>')"},
      "determinism_sample": det,
      "real_vs_stub": {"real": getattr(eng, "REAL", []), "stub": getattr(eng, "STUB", [])},
      "faults_not_injected": ("message loss/duplication, partitions, clock skew, torn writes, "
                              "allocation failure: pymtl3 has no surface for them in this property"),
    }
    for k, v in agg.items():
      if isinstance(v, Counter):
        cov[k] = dict(sorted(v.items()))
      elif isinstance(v, set):
        cov["distinct_" + k] = len(v)
      else:
        cov[k] = v
    if "sim_cycles" in cov:
      cov["simulated_time"] = {"unit": "simulated clock cycles (sim_tick calls; there is no other clock in pymtl3)",
                               "total": cov["sim_cycles"]}
    for key, text in (("distinct_schedules", "distinct digests of the block-invocation / schedule order observed"),
                      ("distinct_ff_orders", "distinct orders of the update_ff blocks")):
      if key in cov:
        cov.setdefault("interleavings_measure", {})[key] = text
    zero = [k for k, v in cov.get("probes", {}).items() if v == 0]
    if zero:
      cov["probe_warnings"] = zero
    if known_hits:
      cov["known_findings_hit"] = sorted(known_hits)
    ev = {
      "property_id": eng.ID, "tier": tier, "seed": int(verif_seed), "level": eng.LEVEL,
      "coverage": cov, "assumptions": getattr(eng, "ASSUMPTIONS", []),
      "wall_s": round(wall, 2), "violations": len(new_violations),
    }
    if hasattr(eng, "evidence_extra"):
      eng.evidence_extra(ev, agg)
    os.makedirs(os.path.join(OUT, "evidence"), exist_ok=True)
    with open(os.path.join(OUT, "evidence", eng.ID + ".json"), "w") as f:
      json.dump(ev, f, indent=1, sort_keys=True, default=str)

  # ---- report
  for kid, (e, r, v) in sorted(known_hits.items()):
    print("KNOWN-FINDING: property=%s %s [%s] (e.g. run %d)" % (eng.ID, e["what"], kid, r["i"]))
  if harness_errors:
    for h in harness_errors[:5]:
      print("HARNESS-ERROR %s" % h)
    return 2
  if new_violations:
    for rp, v, ok in replay_paths:
      print("VIOLATION property=%s replay=%s check=%s replay_verified=%s detail=%s"
            % (eng.ID, rp, v["check"], ok, json.dumps(v.get("detail", ""))[:300]))
    return 1
  if not quiet:
    print("OK property=%s tier=%s runs=%d distinct_nontrivial=%d wall=%.1fs"
          % (eng.ID, tier, records, len(case_digests_nt), wall))
  if records == 0:
    print("HARNESS-ERROR no runs completed")
    return 2
  return 0


def main(argv):
  import argparse
  ap = argparse.ArgumentParser()
  ap.add_argument("engine")
  ap.add_argument("--tier", default=os.environ.get("VERIF_TIER", "quick"))
  ap.add_argument("--replay")
  ap.add_argument("--run-case")
  ap.add_argument("--digest-of")
  ap.add_argument("--runs", type=int)
  ap.add_argument("--workers", type=int)
  ap.add_argument("--one", type=int, help="run a single index verbosely")
  a = ap.parse_args(argv)
  tier = a.tier if a.tier in ("quick", "thorough") else "quick"
  seed = int(os.environ.get("VERIF_SEED", "0") or 0)
  budget = os.environ.get("VERIF_BUDGET_S")
  budget = float(budget) if budget else None
  name = ALIASES.get(a.engine, a.engine).lower()

  if a.run_case:
    eng = load_engine(name)
    case = json.load(sys.stdin if a.run_case == "-" else open(a.run_case))
    res = eng.run_case(case)
    print("RESULT " + json.dumps(res, default=str))
    return 0
  if a.replay:
    eng = load_engine(name)
    doc = json.load(open(a.replay))
    res = eng.run_case(doc["case"])
    v = _same_violation(res, doc["violation"])
    if v is not None:
      print("VIOLATION property=%s replay=%s check=%s detail=%s"
            % (eng.ID, a.replay, v["check"], json.dumps(v.get("detail", ""))[:2000]))
      return 1
    print("replay did not reproduce; violations now: %s" % json.dumps(res["violations"])[:2000])
    return 0
  if a.digest_of:
    eng = load_engine(name)
    for i in map(int, a.digest_of.split(",")):
      R = _rng.Streams(_rng.run_seed(seed, eng.ID, tier, i))
      res = eng.run_case(eng.gen_case(R, tier))
      print("DIGEST %d %s" % (i, res["digest"]))
    return 0
  if a.one is not None:
    eng = load_engine(name)
    R = _rng.Streams(_rng.run_seed(seed, eng.ID, tier, a.one))
    case = eng.gen_case(R, tier)
    print(json.dumps(case)[:6000])
    res = eng.run_case(case)
    print(json.dumps(res, default=str)[:6000])
    return 0
  return run_check(name, tier, seed, budget_override=budget, runs_override=a.runs,
                   workers=a.workers)


ALIASES = {}
