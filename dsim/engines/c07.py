"""C07 - flip-flop updates are atomic at the clock edge.

Workload: ff_heavy generated designs and the ff_ring template family (swap
rings, reversed shift chains, holds, overwritten assignments, struct and list
registers, registers forwarded through nets).
Space: every scheduler x seeded permutation of the flip-flop blocks x mid-run
resets x inputs.
Oracle: (1) state after each tick equals the reference F(pre-edge state,
inputs); (2) a monitor that fires when the generated flip function is entered
(after all update_ff blocks, before any _next is committed) sees every signal
still at its pre-edge value.
"""
import sys

from ..core import rng as _rng
from ..gen import cosim, designgen, templates
from . import common_rtl as C

ID = "C07"
LEVEL = "exploration"
RULE = ("case = (ff_ring template | ff_heavy generated design) x 10..30 cycles x 3 schedulers of 13 x seeded "
        "permutation of the update_ff blocks x resets/glitches (6%: one class instantiated with two parameter sets, "
        "closure-indexed register banks); non-trivial = >=2 update_ff blocks, >=1 register "
        "changed value at some edge and the flip monitor fired every cycle; distinct = case digest")
TIERS = {"quick": {"runs": 1600, "budget_s": 100, "chunk": 4},
         "thorough": {"runs": 300000, "budget_s": 1800, "chunk": 8}}
REAL = ["Bits.__ilshift__/_flip", "bitstruct <<=", "SimpleSchedulePass.schedule_ff/schedule_posedge_flip",
        "Mamba2020Pass.schedule_ff", "PrepareSimPass (lock_in_simulation priming of _next, sim_tick)"]
STUB = ["design generator / templates", "integer reference evaluator", "flip-entry monitor (sys.setprofile)"]
ASSUMPTIONS = ["the flip function is the generated 'double_buffer' closure (or no_double_buffer)"]


def gen_case(R, tier):
  c = R("case")
  uid = "f%x" % (R.seed & 0xffffff)
  if R("fam").random() < 0.06:
    # registers indexed through constructor-dependent closure variables, several instances of one class
    from ..gen import paramcls
    sx = R("sched")
    d = paramcls.gen(R("fam"), "p" + uid)
    d.update(family="paramcls", hash_seed=R.sub_seed("hash"),
             scheds=[[x, sx.getrandbits(32), sx.getrandbits(32)] for x in sx.sample(C.ALL_SCHEDS, 3)])
    return d
  if c.random() < 0.5:
    spec = templates.ff_ring(c, uid)
  else:
    spec = designgen.DesignGen(c, "ff_heavy", uid=uid).gen()
  inp = R("input")
  flt = R("fault")
  seq = designgen.gen_inputs(spec, inp, inp.randint(10, 30))
  kinds = {k for k in ("glitch.input", "restart.reset") if flt.random() < 0.5}
  C.gen_faults(seq, flt, kinds, C.input_widths(spec))
  s = R("sched")
  scheds = s.sample(C.ALL_SCHEDS, 3)
  if not any(x in ("forced", "adversarial", "forced_unroll") for x in scheds):
    scheds[0] = "forced"
  return {"spec": spec, "inputs": seq,
          "scheds": [[x, s.getrandbits(32), s.getrandbits(32)] for x in scheds],
          "hash_seed": R.sub_seed("hash")}


class FlipMonitor:
  def __init__(self, acc):
    self.acc = acc
    self.seen = None
    self.fired = 0

  def prof(self, frame, event, arg):
    if event == "call" and frame.f_code.co_name in ("double_buffer", "no_double_buffer"):
      self.seen = self.acc.snapshot()
      self.fired += 1


def run_one(case, sched, sseed, fseed, D, stats):
  spec = case["spec"]
  faults = stats["fault_counts"]
  try:
    sim = C.Sim(spec, sched, sseed, case["hash_seed"] ^ sseed, ff_perm_seed=fseed)
  except Exception as e:
    return [C.exc_violation(e, "build/%s" % sched)]
  faults["sched." + sched] = faults.get("sched." + sched, 0) + 1
  if sim.info.get("ff_permutable"):
    faults["sched.ff_perm"] = faults.get("sched.ff_perm", 0) + 1
  top, ref, acc = sim.top, sim.ref, sim.acc
  try:
    stats["ff_orders"].append(_rng.digest([b.__name__ for b in top._sched.schedule_ff]))
  except Exception:
    pass
  mon = FlipMonitor(acc)
  regs = [k for k in ref.state]
  try:
    sim.reset()
    cosim.compare(acc, ref, "after sim_reset")
    for t, st in enumerate(case["inputs"]):
      sim.set_inputs(st, faults)
      top.sim_eval_combinational()
      ref.eval_comb()
      pre = cosim.compare(acc, ref, "eval@%d" % t)
      mon.seen = None
      sys.setprofile(mon.prof)
      try:
        top.sim_tick()
      finally:
        sys.setprofile(None)
      if mon.seen is None:
        return [C.viol("flip_monitor_never_fired", {"sched": sched, "cycle": t})]
      if mon.seen != pre:
        k = [k for k in pre if pre[k] != mon.seen[k]][0]
        return [C.viol("visible_before_edge", {"sched": sched, "sched_seed": sseed, "cycle": t, "signal": k,
                                               "pre_edge": hex(pre[k]), "seen_before_flip": hex(mon.seen[k])})]
      ref.tick()
      post = cosim.compare(acc, ref, "tick@%d" % t)
      if post != pre:
        stats["edges_with_change"] += 1
      D.add(t, sorted(post.items()))
      stats["sim_cycles"] += 1
  except cosim.Mismatch as m:
    return [C.viol("value_mismatch", {"sched": sched, "sched_seed": sseed, "ff_seed": fseed, "where": m.where,
                                      "signal": m.key, "got": hex(m.got), "want": hex(m.want)})]
  except Exception as e:
    return [C.exc_violation(e, "sim/%s" % sched)]
  stats["flip_fired"] += mon.fired
  return []


def run_case(case):
  if case.get("family") == "paramcls":
    from . import c01
    r = c01.run_paramcls(case)
    r["stats"] = {"fault_counts": r["stats"]["fault_counts"], "ff_orders": [], "sim_cycles": r["stats"]["sim_cycles"],
                  "edges_with_change": r["stats"]["sim_cycles"], "flip_fired": 0}
    return r
  D = _rng.Digest()
  stats = {"fault_counts": {}, "ff_orders": [], "sim_cycles": 0, "edges_with_change": 0, "flip_fired": 0}
  viols = []
  for sched, sseed, fseed in case["scheds"]:
    v = run_one(case, sched, sseed, fseed, D, stats)
    viols.extend(v)
    if v:
      break
  nff = sum(1 for cd in case["spec"]["comps"].values() for it in cd["items"] if it["k"] == "ff")
  stats["probes"] = {"struct_registers": int(bool(case["spec"]["structs"])),
                     "ff_blocks_ge_6": int(nff >= 6)}
  return {"violations": viols, "digest": D.hex(),
          "nontrivial": nff >= 2 and stats["edges_with_change"] > 0 and stats["flip_fired"] >= stats["sim_cycles"] > 0,
          "stats": stats}


def sample(case):
  from ..gen import emit
  if case.get("family") == "paramcls":
    return {k: v for k, v in case.items() if k != "inputs"}
  return {"profile": case["spec"].get("profile"), "scheds": case["scheds"],
          "n_cycles": len(case["inputs"]), "source_head": emit.source(case["spec"])[:1500]}


def shrink(case):
  if case.get("family") == "paramcls":
    from . import c01
    yield from c01.shrink(case)
    return
  yield from C.shrink_spec_case(case)
