"""C13 - translation is deterministic and module names never alias different hardware.

Per case a batch of designs is translated (both backends) in J fresh
interpreters with different PYTHONHASHSEED values and different seeded
object-hash streams (ASLR stays on).  Oracles:
 (1) byte-identical text across interpreters;
 (2) via svsim's parser: every module defined once, every instantiated module
     defined, identifiers legal and unique per scope;
 (3) for every component instance, translating a fresh copy of that instance
     alone yields, for its module name, the same body the combined translation
     emitted under that name (otherwise two instances alias different hardware).
"""
import hashlib
import json
import os
import re
import subprocess
import sys

from ..core import rng as _rng, seams
from ..gen import designgen, emit
from . import common_rtl as C, sv_cosim as S

ID = "C13"
LEVEL = "exploration"
RULE = ("case = batch of 6 designs (generated translatable DesignSpecs, parameterised template classes with colliding "
        "shapes: one class at several int/Bits/type/struct/list/string parameter values, the same class+parameters at "
        "several positions, long parameter lists that trigger name hashing; stdlib corpus; repository test-case DUTs; "
        "probes of known findings) x both backends x 3 fresh interpreters with different PYTHONHASHSEED and seeded "
        "object-hash streams; non-trivial = >=4 designs accepted by a backend and >=2 module definitions shared by "
        "several instances; distinct = case digest")
TIERS = {"quick": {"runs": 64, "budget_s": 110, "chunk": 1},
         "thorough": {"runs": 6000, "budget_s": 1800, "chunk": 2}}
REAL = ["RTLIRTranslator.translate_component (first text wins per module name)", "get_component_unique_name / full_name",
        "rtlir utility get_ordered_upblks", "structural translators (port / wire / instance ordering)",
        "Verilog and Yosys translation passes"]
STUB = ["fresh-interpreter driver", "svsim parser for the structural checks", "design generator / templates"]
ASSUMPTIONS = ["all interpreters run in the same working directory (the emitted comments contain source file paths)"]

VERIF = os.path.dirname(os.path.dirname(os.path.dirname(os.path.abspath(__file__))))

PARAM_SRC = '''
from pymtl3 import *
S_{uid} = mk_bitstruct('S_{uid}', {{'a': Bits8, 'b': Bits4}})

class P_{uid}(Component):
  def construct(s, T, k=1, tag="x", lst=None):
    s.in_ = InPort(T)
    s.out = OutPort(T)
    n = (len(lst) + lst[-1]) if lst else 0
    @update
    def up():
      s.out @= s.in_ + k + n

class Q_{uid}(Component):
  def construct(s, nbits, depth=2):
    s.in_ = InPort(mk_bits(nbits))
    s.out = OutPort(mk_bits(nbits))
    s.r = [Wire(mk_bits(nbits)) for _ in range(depth)]
    @update_ff
    def ff():
      s.r[0] <<= s.in_
      for i in range(depth - 1):
        s.r[i + 1] <<= s.r[i]
    s.out //= s.r[depth - 1]

class R_{uid}(Component):
  def construct(s, nbits, offset=1, mult=2):
    s.in_ = InPort(mk_bits(nbits))
    s.out = OutPort(mk_bits(nbits))
    @update
    def up():
      s.out @= s.in_ * mult + offset

class K_{uid}(Component):
  def construct(s, n=0):
    s.in_ = InPort(Bits8)
    s.out = OutPort(Bits8)
    # several BitStruct-valued constants kept as attributes and read in a block: each becomes a
    # localparam; their declaration order must not depend on the process
    s.kc_alpha = S_{uid}(1 + n, 2)
    s.kc_b = S_{uid}(3, 4)
    s.kc_gamma3 = S_{uid}(5, 6 + n)
    s.kc_d0 = S_{uid}(7, 8)
    s.kc_epsilon = S_{uid}(9, 1)
    s.w = Wire(S_{uid})
    @update
    def up_sel():
      if s.in_[0:2] == 0:
        s.w @= s.kc_alpha
      elif s.in_[0:2] == 1:
        s.w @= s.kc_b
      elif s.in_[0:2] == 2:
        s.w @= s.kc_gamma3
      elif s.in_[2:3] == 1:
        s.w @= s.kc_d0
      else:
        s.w @= s.kc_epsilon
    @update
    def up():
      s.out @= s.in_ + s.w.a + zext(s.w.b, 8)

class G_{uid}(Component):
  def construct(s, groups):
    # a nested-list parameter: the hardware depends on the nesting, not only on the flattened content
    s.in_ = InPort(Bits8)
    s.out = OutPort(Bits8)
    n = sum((i + 1) * (len(g) if isinstance(g, list) else 7) for i, g in enumerate(groups))
    @update
    def up():
      s.out @= s.in_ + n

class T_{uid}(Component):
  def construct(s, tbl):
    # a per-instance constant table kept as an attribute and read through subscripts in a block (the
    # block's AST is shared by all instances of the class, the table is not)
    s.in_ = InPort(Bits8)
    s.out = OutPort(Bits8)
    s.tbl = [Bits8(x) for x in tbl]
    @update
    def up():
      s.out @= s.in_ * s.tbl[0] + s.tbl[1]

class H_{uid}(Component):
  def construct(s, seed):
    # an integer parameter far outside the machine-word range (Python hashes ints modulo 2**61 - 1:
    # 1 and 2**61 hash alike); the hardware depends on its high bits
    s.in_ = InPort(Bits8)
    s.out = OutPort(Bits8)
    n = ((seed >> 61) * 16 + (seed & 7)) & 0xff
    @update
    def up():
      s.out @= s.in_ + n

class Top_{uid}(Component):
  def construct(s):
    s.in_ = InPort(Bits8)
    s.in16 = InPort(Bits16)
    s.outs = [OutPort(Bits8) for _ in range({n8})]
    s.outs16 = [OutPort(Bits16) for _ in range({n16})]
{body}
'''


def gen_param_design(c, uid):
  """Top instantiating P / Q at colliding parameter values."""
  inst8 = []
  inst16 = []
  cands8 = ["P_%s(Bits8, 1)", "P_%s(Bits8, 2)", "P_%s(Bits8, 1)", "P_%s(Bits8, k=3, tag='abc')",
            "P_%s(Bits8, 1, lst=[1, 2, 3])", "P_%s(Bits8, 1, lst=list(range(40)))", "P_%s(Bits8, 1, lst=list(range(41)))",
            "P_%s(Bits8, 1, tag='a_b')", "P_%s(Bits8, 1, tag='a' * 70)", "Q_%s(8, 2)", "Q_%s(8, 3)", "Q_%s(8, 2)",
            "P_%s(Bits8, Bits8(1))", "P_%s(Bits8, 0)",
            # keyword arguments incl. falsy values next to the default configuration
            "P_%s(Bits8)", "P_%s(Bits8, k=0)", "P_%s(Bits8, k=1)", "P_%s(Bits8, tag='')", "P_%s(Bits8, k=0, tag='x')",
            "Q_%s(8, depth=2)", "Q_%s(8, depth=1)", "Q_%s(nbits=8)", "P_%s(Bits8)", "P_%s(Bits8)", "Q_%s(8)", "Q_%s(8)"]
  # two defaults, supplied positionally / by keyword / skipped, over a small value set: any mix-up between
  # "which default belongs to which argument" makes two of these collide on a name
  candsR = ["R_%s(8)", "R_%s(8, mult=3)", "R_%s(8, 2, 3)", "R_%s(8, 2)", "R_%s(8, offset=2)", "R_%s(8, mult=2)",
            "R_%s(8, 1, 3)", "R_%s(8, offset=2, mult=3)", "R_%s(8, mult=1)", "R_%s(8, 1, 1)", "R_%s(8, 2, 1)",
            "R_%s(8, offset=3)", "R_%s(8, 3)", "R_%s(8, 3, 2)", "R_%s(nbits=8, mult=3)"]
  if c.random() < 0.5:
    cands8 = cands8 + candsR * 2
  if c.random() < 0.4:
    cands8 = cands8 + ["K_%s()", "K_%s(1)", "K_%s(n=2)"] * 3
  if c.random() < 0.4:
    cands8 = cands8 + ["G_%s([[0, 1], [2]])", "G_%s([[0], [1, 2]])", "G_%s([0, 1, 2])", "G_%s([[0, 1, 2]])",
                       "G_%s([[0], [1], [2]])", "G_%s([[0, 1], [2]])"] * 2
  if c.random() < 0.4:
    cands8 = cands8 + ["T_%s([2, 1])", "T_%s([3, 4])", "T_%s([2, 1])", "T_%s([5, 1])", "T_%s([3, 7])", "T_%s((2, 1))"] * 2
  if c.random() < 0.3:
    cands8 = cands8 + ["H_%s(1)", "H_%s(1 << 61)", "H_%s(2)", "H_%s(1 << 62)", "H_%s(3 + (1 << 61) - 1)", "H_%s(3)"] * 3
  cands16 = ["P_%s(Bits16, 1)", "P_%s(Bits16, 2)", "Q_%s(16, 2)", "Q_%s(16, 1)", "P_%s(Bits16, 1)"]
  for _ in range(c.randint(3, 7)):
    inst8.append(c.choice(cands8) % uid)
  for _ in range(c.randint(1, 3)):
    inst16.append(c.choice(cands16) % uid)
  if c.random() < 0.3:
    # a pair whose long parameter values agree on a long prefix and differ only at the very end
    m = c.choice([20, 30, 45])
    a, b = c.sample(range(3, 60), 2)
    inst8.append("P_%s(Bits8, 1, lst=list(range(%d)) + [%d])" % (uid, m, a))
    inst8.append("P_%s(Bits8, 1, lst=list(range(%d)) + [%d])" % (uid, m, b))
  lists = []
  if c.random() < 0.4:
    # LISTS (1-D / 2-D) of one class with different parameter values per element: the instantiation site
    # must use each element's own module
    n = c.randint(2, 4)
    ks = [c.choice([1, 2, 3, 5]) for _ in range(n)]
    if len(set(ks)) == 1:
      ks[-1] = ks[0] + 1
    cls = c.choice(["P_%s(Bits8, %%d)" % uid, "R_%s(8, %%d)" % uid, "R_%s(8, mult=%%d)" % uid, "Q_%s(8, %%d)" % uid])
    if c.random() < 0.3 and n == 4:
      lists.append("[[%s, %s], [%s, %s]]" % tuple(cls % k for k in ks))
    else:
      lists.append("[%s]" % ", ".join(cls % k for k in ks))
  L = []
  # parameter overrides through set_param next to instances that keep the constructor-call value: the
  # effective value (not the call's) must name the module
  for i, e in enumerate(inst8):
    if c.random() < 0.3 and "k=" not in e and e.count(",") == 0 and e.startswith("P_"):
      L.append("    s.set_param('top.a%d.construct', k=%d)" % (i, c.choice([0, 1, 2, 5])))
    elif c.random() < 0.2 and e.startswith("Q_") and "depth" not in e and e.count(",") == 0:
      L.append("    s.set_param('top.a%d.construct', depth=%d)" % (i, c.choice([1, 2, 3])))
  for i, e in enumerate(inst8):
    L.append("    s.a%d = %s" % (i, e))
    L.append("    s.a%d.in_ //= s.in_" % i)
    L.append("    s.outs[%d] //= s.a%d.out" % (i, i))
  for i, e in enumerate(inst16):
    L.append("    s.b%d = %s" % (i, e))
    L.append("    s.b%d.in_ //= s.in16" % i)
    L.append("    s.outs16[%d] //= s.b%d.out" % (i, i))
  nl = 0
  for j, e in enumerate(lists):
    L.append("    s.lst%d = %s" % (j, e))
    L.append("    for i_, m_ in enumerate(sum(s.lst%d, []) if isinstance(s.lst%d[0], list) else s.lst%d):" % (j, j, j))
    L.append("      m_.in_ //= s.in_")
    L.append("      s.outs[%d + i_] //= m_.out" % (len(inst8) + nl))
    nl += e.count("_%s(" % uid)
  return PARAM_SRC.format(uid=uid, n8=len(inst8) + nl, n16=len(inst16), body="\n".join(L))


PROBES13 = {
  "same_name_classes": S.PROBES["same_name_classes"],
  "negative_int_parameter": '''
from pymtl3 import *
class P_{uid}(Component):
  def construct(s, k):
    s.in_ = InPort(Bits8)
    s.out = OutPort(Bits8)
    @update
    def up():
      s.out @= s.in_ - Bits8(k)
class Top_{uid}(Component):
  def construct(s):
    s.in_ = InPort(Bits8)
    s.out = OutPort(Bits8)
    s.p = P_{uid}(-1)
    s.p.in_ //= s.in_
    s.out //= s.p.out
''',
  "object_parameter_default_repr": '''
from pymtl3 import *
class Cfg_{uid}:
  def __init__(self, k):
    self.k = k
class P_{uid}(Component):
  def construct(s, cfg):
    k = cfg.k
    s.in_ = InPort(Bits8)
    s.out = OutPort(Bits8)
    @update
    def up():
      s.out @= s.in_ + k
class Top_{uid}(Component):
  def construct(s):
    s.in_ = InPort(Bits8)
    s.out = OutPort(Bits8)
    s.p = P_{uid}(Cfg_{uid}(3))
    s.p.in_ //= s.in_
    s.out //= s.p.out
''',
}


def gen_case(R, tier):
  c = R("case")
  designs = []
  for j in range(5):
    r = c.random()
    uid = "d%x_%d" % (R.seed & 0xfffff, j)
    if r < 0.35:
      spec = designgen.DesignGen(c, "translatable", uid=uid).gen()
      designs.append({"kind": "spec", "spec": spec, "uid": uid})
    elif r < 0.60:
      designs.append({"kind": "src", "src": gen_param_design(c, uid), "uid": uid, "shape": "param"})
    elif r < 0.75:
      designs.append({"kind": "corpus", "name": c.choice([n for n in S.corpus_names() if n != "ProcRTL"])})
    elif r < 0.92:
      designs.append({"kind": "testcase", "name": c.choice(S.testcase_names())})
    else:
      nm = c.choice(sorted(PROBES13))
      designs.append({"kind": "src", "src": PROBES13[nm].format(uid=uid), "uid": uid, "shape": nm})
  h = R("hash")
  return {"designs": designs, "interp": [[0, h.getrandbits(40)], [1, h.getrandbits(40)],
                                         [h.randint(2, 10 ** 6), h.getrandbits(40)]]}


def make_factory(d):
  if d["kind"] == "spec":
    return S.build_instances({"family": "random", "spec": d["spec"]})
  if d["kind"] == "corpus":
    return S.build_instances({"family": "corpus", "name": d["name"]})
  if d["kind"] == "testcase":
    return S.build_instances({"family": "testcase", "name": d["name"]})

  def make():
    ns, cls, _ = emit.build({"uid": d["uid"], "top": "Top"}, src=d["src"])
    top = cls()
    top.elaborate()
    return top
  return make


def translate_all(designs, hash_seed):
  """-> list (per design) of {backend: text or None}"""
  out = []
  for k, d in enumerate(designs):
    res = {}
    for backend in ("verilog", "yosys"):
      seams.set_hash_stream(hash_seed + k)
      try:
        top = make_factory(d)()
        text, topmod = S.translate(top, backend)
        res[backend] = text
      except Exception as e:
        res[backend] = None
        res[backend + "_err"] = type(e).__name__
    out.append(res)
  return out


def run_child(case):
  # same working directory in every interpreter: emitted comments contain source paths
  d = os.path.join(VERIF, ".scratch", "c13")
  os.makedirs(d, exist_ok=True)
  os.chdir(d)
  texts = translate_all(case["designs"], case["hash_seed"])
  return {"violations": [], "digest": "", "child": texts, "stats": {}}


def strip_comments(text):
  return "\n".join(l for l in text.splitlines() if not l.lstrip().startswith("//"))


def module_bodies(text):
  out = {}
  for m in re.finditer(r"^module\s+(\w+)\b.*?^endmodule", strip_comments(text), re.S | re.M):
    body = re.sub(r"\s+", " ", m.group(0))
    # block labels of lambda blocks carry the hierarchical name of the first instance that was
    # translated (`begin : _lambda__s_m0_0__w0`): a label, not hardware
    body = re.sub(r"begin : \w+", "begin", body)
    # ... and so do the constants / temporaries / loop variables named after a lambda block
    # (`__const__n_at__lambda__s_ctrl_recv_rdy`): rename by order of first appearance
    ren = {}
    def _r(mm):
      return ren.setdefault(mm.group(0), "LAMBDA%d" % len(ren))
    body = re.sub(r"\w*_lambda__\w+", _r, body)
    out.setdefault(m.group(1), []).append(body)
  return out


def design_tag(d):
  return d.get("shape") or d.get("name") or d["kind"]


def run_case(case):
  if case.get("child"):
    return run_child(case)
  from .. import svsim
  D = _rng.Digest()
  stats = {"fault_counts": {}, "translations": 0, "instances_checked": 0,
           "probes": {"shared_module_definitions": 0, "hashed_module_names": 0}}
  viols = []
  designs = case["designs"]
  # --- fresh interpreters
  results = []
  for hs, stream in case["interp"]:
    child = {"child": True, "designs": designs, "hash_seed": stream}
    try:
      p = subprocess.run([sys.executable, os.path.join(VERIF, "bin", "check"), "c13", "--run-case", "-"],
                         input=json.dumps(child), capture_output=True, text=True, timeout=600,
                         env=dict(os.environ, PYTHONHASHSEED=str(hs), VERIF_NO_REEXEC="1"), cwd=VERIF)
      line = [l for l in p.stdout.splitlines() if l.startswith("RESULT ")]
      results.append(json.loads(line[-1][7:])["child"])
      stats["fault_counts"]["proc.hashseed"] = stats["fault_counts"].get("proc.hashseed", 0) + 1
      stats["fault_counts"]["order.hash"] = stats["fault_counts"].get("order.hash", 0) + 1
    except Exception as e:
      return {"violations": [C.viol("harness_child_failed", {"exc": repr(e)[:300]})], "digest": D.hex(),
              "nontrivial": False, "stats": stats}
  accepted = 0
  for k, d in enumerate(designs):
    tag = design_tag(d)
    for backend in ("verilog", "yosys"):
      texts = [r[k][backend] for r in results]
      errs = [r[k].get(backend + "_err") for r in results]
      if any(t is None for t in texts):
        if not all(t is None for t in texts):
          viols.append(C.viol("accepted_in_some_interpreters_only", {"design": tag, "backend": backend, "errors": errs},
                              shape=tag, backend=backend))
        continue
      accepted += 1
      stats["translations"] += len(texts)
      # (1) byte identity
      if len(set(texts)) == 1 and design_tag(d) != "object_parameter_default_repr":
        # (only texts that are reproducible enter the run digest)
        D.add(k, backend, hashlib.sha256(strip_comments(texts[0]).encode()).hexdigest())
      if len(set(texts)) != 1:
        a, b = texts[0].splitlines(), [t for t in texts if t != texts[0]][0].splitlines()
        i = next((i for i in range(min(len(a), len(b))) if a[i] != b[i]), min(len(a), len(b)))
        viols.append(C.viol("text_differs_between_interpreters",
                            {"design": tag, "backend": backend, "line": i + 1, "a": a[i][:160] if i < len(a) else "",
                             "b": b[i][:160] if i < len(b) else ""}, shape=tag, backend=backend))
        continue
      text = texts[0]
      # (2) structure
      try:
        src = svsim.parse(text)
      except svsim.SvUnsupported:
        stats["fault_counts"]["harness_gap"] = stats["fault_counts"].get("harness_gap", 0) + 1
        continue
      except svsim.SvError as e:
        viols.append(C.viol("emitted_text_not_parsable", {"design": tag, "backend": backend, "error": str(e)[:200],
                                                          "line": S._line_of(text, e)}, shape=tag, backend=backend))
        continue
      dups = {n: c for n, c in src.module_defs_count.items() if c > 1}
      if dups:
        viols.append(C.viol("module_defined_twice", {"design": tag, "backend": backend, "modules": sorted(dups)[:4]},
                            shape=tag, backend=backend))
        continue
      try:
        design = svsim.elaborate(src, signed_index="unsigned")
        issues = [i for i in design.static_issues()
                  if i[0] in ("dup_module", "undefined_module", "dup_identifier", "reserved_identifier")]
      except svsim.SvUnsupported:
        issues = []
      except svsim.SvError as e:
        # elaboration problems other than naming are C03/C12's business; undefined modules are ours
        issues = [("undefined_module", str(e))] if "undefined module" in str(e) or "not defined" in str(e) else []
      if issues:
        viols.append(C.viol("naming_" + issues[0][0], {"design": tag, "backend": backend, "issue": list(issues[0])},
                            shape=tag, backend=backend))
        continue
      names = list(module_bodies(text))
      stats["probes"]["hashed_module_names"] += sum(1 for n in names if re.search(r"__[0-9a-f]{16}$", n))
      # (3) aliasing: every instance translated alone gives the body emitted under its module name
      v = alias_check(d, backend, text, stats)
      if v:
        v["sig"]["shape"] = tag
        viols.append(v)
  return {"violations": viols[:4], "digest": D.hex(),
          "nontrivial": accepted >= 4 and stats["probes"]["shared_module_definitions"] >= 2, "stats": stats}


def _site_check(cobj, topmod, modname, combined, backend, top):
  """(3b) the instantiation site: inside the parent's module, the instance must instantiate the module this
  (class, arguments) gets when translated alone.  Verilog backend only (the Yosys backend's handling of
  component lists is known finding F16); parents that cannot be named are skipped."""
  if backend != "verilog" or topmod is None:
    return None
  par = cobj.get_parent_object()
  if par is top:
    pmods = [m for m in combined if m.startswith(type(top).__name__)]
  else:
    pkey = (type(par), repr(par._dsl.args), repr(sorted(par._dsl.kwargs.items())))
    pmods = [modname[pkey]] if pkey in modname else []
  if len(pmods) != 1 or pmods[0] not in combined:
    return None
  inst = cobj._dsl._my_name + "".join("__%d" % i for i in (cobj._dsl._my_indices or ()))
  m = re.search(r"(\w+) %s \(" % re.escape(inst), combined[pmods[0]][0])
  if m and m.group(1) != topmod and m.group(1) not in ("module", "begin", "end"):
    return C.viol("instance_uses_other_module",
                  {"instance": repr(cobj), "parent_module": pmods[0], "instantiates": m.group(1),
                   "own_module": topmod, "backend": backend}, backend=backend)
  return None


def alias_check(d, backend, text, stats):
  from pymtl3.dsl.Component import Component
  combined = module_bodies(text)
  seams.set_hash_stream(7)
  try:
    top = make_factory(d)()
  except Exception:
    return None
  comps = sorted(top.get_all_object_filter(lambda x: isinstance(x, Component)), key=repr)
  seen = {}
  modname = {}       # key -> module name of that (class, arguments) translated alone
  for cobj in comps:
    if cobj is top:
      continue
    args, kwargs = cobj._dsl.args, cobj._dsl.kwargs
    key = (type(cobj), repr(args), repr(sorted(kwargs.items())))
    if key in seen:
      seen[key] += 1
      v = _site_check(cobj, modname.get(key), modname, combined, backend, top)
      if v:
        return v
      continue
    seen[key] = 1
    try:
      fresh = type(cobj)(*args, **kwargs)
      fresh.elaborate()
      t2, topmod = S.translate(fresh, backend)
    except Exception:
      continue            # cannot be rebuilt alone (parameters set through set_param etc.)
    modname[key] = topmod
    stats["instances_checked"] += 1
    v = _site_check(cobj, topmod, modname, combined, backend, top)
    if v:
      return v
    alone = module_bodies(t2)
    body = alone.get(topmod)
    if not body or topmod not in combined:
      # the name the instance gets alone must exist in the combined text
      if topmod not in combined:
        return C.viol("instance_module_missing_in_combined_text",
                      {"instance": repr(cobj), "module": topmod, "backend": backend}, backend=backend)
      continue
    if body[0] != combined[topmod][0]:
      a, b = body[0], combined[topmod][0]
      i = next((i for i in range(min(len(a), len(b))) if a[i] != b[i]), 0)
      return C.viol("module_name_aliases_different_hardware",
                    {"instance": repr(cobj), "class": type(cobj).__name__, "module": topmod, "backend": backend,
                     "alone": a[max(0, i - 60):i + 60], "combined": b[max(0, i - 60):i + 60]}, backend=backend)
  stats["probes"]["shared_module_definitions"] += sum(1 for v in seen.values() if v > 1)
  return None


def sample(case):
  return {"interp": case["interp"], "designs": [design_tag(d) for d in case["designs"]],
          "first_src": next((d["src"][:800] for d in case["designs"] if d["kind"] == "src"), "")}


def shrink(case):
  ds = case["designs"]
  if len(ds) > 1:
    for i in range(len(ds)):
      yield dict(case, designs=[ds[i]])
  if len(case["interp"]) > 2:
    yield dict(case, interp=case["interp"][:2])
