"""C14 - hierarchical names are unique and evaluate back to their objects."""
import random

from ..core import rng as _rng, seams
from ..gen import cosim, designgen, templates
from . import common_rtl as C, elab_common as E

ID = "C14"
LEVEL = "exploration"
RULE = ("case = generated hierarchy (nested lists of components, lists of ports/wires, struct signals with nested "
        "struct and list fields, slices, bits, fields of fields; all profiles) elaborated under 4 orderings "
        "(order.stmt, order.flip, dup.connect, order.hash, order.lazy = the seeded order in which slice/field signals "
        "are first touched); invariant after every elaboration: unique repr, eval(repr(o)) is o, parent/host/level/"
        "top-level-signal metadata agree with the name, identical name sets for all orderings and for a second "
        "elaboration of freshly constructed objects (30%: hierarchy-only family with interfaces, n-d lists, method "
        "ports, stdlib queue pipelines, tiles whose connects make the stdlib insert numbered adapter components, "
        "subclasses adding decorated methods - every method a class body decorates must be the named child "
        "<component>.<method>); non-trivial = >=30 named objects incl. >=1 lazily created "
        "slice/field signal and >=1 component list; distinct = case digest. The program dimension is plain "
        "generation; what the simulator adds is the order dimension (DESIGN.md C14).")
TIERS = {"quick": {"runs": 960, "budget_s": 100, "chunk": 4},
         "thorough": {"runs": 150000, "budget_s": 1800, "chunk": 8}}
REAL = ["NamedObject naming (__setattr_for_elaborate__)", "Signal.__getattr__ / __getitem__ lazy field and slice signals",
        "Component elaboration metadata"]
STUB = ["design generator", "statement re-ordering", "name walker"]
ASSUMPTIONS = []


def gen_case(R, tier):
  c = R("case")
  o = R("order")
  if c.random() < 0.3:
    # hierarchy-only family: interfaces (nested, in 1-3 dimensional lists, with struct / list ports and
    # method ports), n-dimensional component lists, CL method ports, pass-through interface connects
    from ..gen import ifchier
    uid = "j%x" % (R.seed & 0xffffff)
    src, gst = ifchier.gen(random.Random(c.getrandbits(48)), uid)
    return {"family": "ifc", "uid": uid, "src": src, "gen_stats": gst,
            "orderings": [[o.getrandbits(32), o.getrandbits(32), o.getrandbits(32)] for _ in range(3)]}
  prof = c.choice(["shapes", "acyclic", "ff_heavy", "big", "shapes"])
  spec = designgen.DesignGen(c, prof, uid="h%x" % (R.seed & 0xffffff)).gen()
  return {"spec": spec, "orderings": [[o.getrandbits(32), o.getrandbits(32), o.getrandbits(32)] for _ in range(4)]}


class SliceOfSliceError(Exception):
  pass


def touch_lazily(top, spec, r):
  """order.lazy: touch slices / fields of declared signals in a seeded order before the
  checker walks them (creates the lazily built signal objects in another order)."""
  from pymtl3.dsl.Connectable import Signal
  from pymtl3.datatypes import Bits
  sigs = sorted(top.get_all_object_filter(lambda x: isinstance(x, Signal)), key=repr)
  r.shuffle(sigs)
  n = 0
  for sg in sigs[:12]:
    T = sg._dsl.Type
    try:
      if issubclass(T, Bits):
        w = T.nbits
        if w >= 2:
          lo = r.randrange(w - 1)
          hi = r.randint(lo + 1, w)
          sl = sg[lo:hi]
          n += 1
          if hi - lo >= 2 and r.random() < 0.7:
            a = r.randrange(hi - lo)
            b = r.randint(a + 1, hi - lo)
            inner = sl[a:b]            # slice of a slice names bits [lo+a:lo+b] of the signal
            if inner is not sg[lo + a:lo + b]:
              raise SliceOfSliceError("%r[%d:%d] is %r, not %r" % (sl, a, b, inner, sg[lo + a:lo + b]))
            n += 1
      else:
        inst = T()
        names = [k for k in inst.__dict__ if not k.startswith("_")]
        if names:
          f = getattr(sg, r.choice(names))
          n += 1
          while isinstance(f, list):
            f = f[r.randrange(len(f))]
          FT = f._dsl.Type
          if issubclass(FT, Bits) and FT.nbits >= 3:
            # slice, and slice of a slice, of a struct field (of a list-field element)
            w = FT.nbits
            lo = r.randrange(w - 2)
            hi = r.randint(lo + 2, w)
            sl = f[lo:hi]
            a = r.randrange(hi - lo)
            b = r.randint(a + 1, hi - lo)
            inner = sl[a:b]
            if inner is not f[lo + a:lo + b]:
              raise SliceOfSliceError("%r[%d:%d] is %r, not %r" % (sl, a, b, inner, f[lo + a:lo + b]))
            n += 2
    except Exception:
      raise
  return n


def decorated_methods_are_ports(top):
  """every method that a component's OWN class body decorates with @method_port / @non_blocking / @blocking
  is a named child object <component>.<method> (what the class statement says, independent of which other
  classes were elaborated before)"""
  from pymtl3.dsl import Component
  from pymtl3.dsl.NamedObject import NamedObject
  for comp in sorted(top.get_all_object_filter(lambda x: isinstance(x, Component)), key=repr):
    for x, raw in sorted(vars(type(comp)).items()):
      if any(hasattr(raw, tag) for tag in ("_callee_port", "_non_blocking_rdy", "_blocking")):
        child = comp.__dict__.get(x)
        if not isinstance(child, NamedObject) or repr(child) != repr(comp) + "." + x:
          return {"component": repr(comp), "class": type(comp).__name__.split("_")[0], "method": x,
                  "found": type(child).__name__}
  return None


def run_ifc(case):
  from ..gen import emit
  D = _rng.Digest()
  src, gst = case["src"], case["gen_stats"]
  stats = {"fault_counts": {"family.ifc": 1}, "objects": 0,
           "probes": {"lazy_signals": 0, "component_lists": gst["comp_lists_nd"], "interface_lists": gst["ifc_lists"],
                      "nested_interfaces": gst["nested_ifcs"], "method_ports": gst["method_ports"],
                      "passthrough_connects": gst.get("passthrough", 0)}}
  viols = []
  names0 = None
  for k, (oseed, hseed, lseed) in enumerate(case["orderings"]):
    seams.set_hash_stream(hseed)
    stats["fault_counts"]["order.hash"] = stats["fault_counts"].get("order.hash", 0) + 1
    try:
      ns, cls, _ = emit.build({"uid": case["uid"] + "k%d" % k, "top": "Top"},
                              src=src.replace(case["uid"], case["uid"] + "k%d" % k))
      top = cls()
      top.elaborate()
      if k >= 1:
        lazy = touch_lazily(top, None, random.Random(lseed))
        stats["fault_counts"]["order.lazy"] = stats["fault_counts"].get("order.lazy", 0) + lazy
    except SliceOfSliceError as e:
      viols.append(C.viol("slice_of_slice_names_other_bits", {"ordering": k, "what": str(e), "family": "ifc"}))
      break
    except Exception as e:
      viols.append(C.exc_violation(e, "elaborate/ifc/ordering%d" % k))
      break
    bad, names = E.names_invariant(top)
    if bad:
      viols.append(C.viol(bad.pop("check"), dict(bad, ordering=k, family="ifc")))
      break
    bad = decorated_methods_are_ports(top)
    if bad:
      viols.append(C.viol("decorated_method_not_a_method_port", dict(bad, ordering=k, family="ifc")))
      break
    decl = {n for n in names if ":" not in n.rsplit("[", 1)[-1]}
    if names0 is None:
      names0 = decl
      D.add(sorted(names))
      stats["objects"] = len(names)
      stats["probes"]["lazy_signals"] = 1
    elif not names0 <= decl:
      viols.append(C.viol("name_set_differs", {"ordering": k, "missing": sorted(names0 - decl)[:4], "family": "ifc"}))
      break
  return {"violations": viols, "digest": D.hex(),
          "nontrivial": stats["objects"] >= 30 and (gst["ifc_lists"] + gst["nested_ifcs"] + gst.get("stdlib_adapter_pipelines", 0) >= 1),
          "stats": stats}


def run_case(case):
  if case.get("family") == "ifc":
    return run_ifc(case)
  spec0 = case["spec"]
  D = _rng.Digest()
  stats = {"fault_counts": {}, "objects": 0, "probes": {"lazy_signals": 0, "component_lists": 0}}
  viols = []
  names0 = None
  for k, (oseed, hseed, lseed) in enumerate(case["orderings"]):
    r = random.Random(oseed)
    sp, counts = (spec0, {}) if k == 0 else E.reorder(spec0, r)
    for kk, vv in counts.items():
      stats["fault_counts"][kk] = stats["fault_counts"].get(kk, 0) + vv
    seams.set_hash_stream(hseed)
    stats["fault_counts"]["order.hash"] = stats["fault_counts"].get("order.hash", 0) + 1
    try:
      top, ns, src = cosim.build_top(sp)
      lazy = 0
      if k >= 2:
        lazy = touch_lazily(top, sp, random.Random(lseed))
        stats["fault_counts"]["order.lazy"] = stats["fault_counts"].get("order.lazy", 0) + lazy
    except SliceOfSliceError as e:
      viols.append(C.viol("slice_of_slice_names_other_bits", {"ordering": k, "what": str(e)}))
      break
    except Exception as e:
      viols.append(C.exc_violation(e, "elaborate/ordering%d" % k))
      break
    bad, names = E.names_invariant(top)
    if bad:
      viols.append(C.viol(bad.pop("check"), dict(bad, ordering=k)))
      break
    # names created only by our lazy touching are excluded from the cross-ordering comparison
    decl = {n for n in names if ":" not in n.rsplit("[", 1)[-1]} if k >= 2 else names
    base = {n for n in (names0 or names) if ":" not in n.rsplit("[", 1)[-1]} if k >= 2 else (names0 or names)
    if names0 is None:
      names0 = names
      D.add(sorted(names))
      stats["objects"] = len(names)
      stats["probes"]["lazy_signals"] = sum(1 for n in names if n.endswith("]") and ":" in n.rsplit("[", 1)[-1])
      stats["probes"]["component_lists"] = sum(1 for cd in spec0["comps"].values() for sb in cd["subs"] if sb["dims"])
    elif k < 2 and names != names0:
      viols.append(C.viol("name_set_differs", {"ordering": k, "only_first": sorted(names0 - names)[:4],
                                                "only_this": sorted(names - names0)[:4]}))
      break
    elif k >= 2 and not (base - _fields(names0)) <= decl | _fields(names):
      viols.append(C.viol("name_set_differs", {"ordering": k, "missing": sorted(base - decl)[:4]}))
      break
  return {"violations": viols, "digest": D.hex(),
          "nontrivial": stats["objects"] >= 30 and stats["probes"]["lazy_signals"] >= 1 and
          stats["probes"]["component_lists"] >= 1, "stats": stats}


def _fields(names):
  return set()


def sample(case):
  from ..gen import emit
  if case.get("family") == "ifc":
    return {"orderings": case["orderings"], "source_head": case["src"][:1200]}
  return {"orderings": case["orderings"], "source_head": emit.source(case["spec"])[:1200]}


def shrink(case):
  if len(case["orderings"]) > 1:
    for i in range(1, len(case["orderings"])):
      yield dict(case, orderings=[case["orderings"][0], case["orderings"][i]])
  if case.get("family") == "ifc":
    # drop member declarations (and the pass-through loops that use them) line by line; a candidate that
    # no longer elaborates fails with a different check and is rejected by the shrinker
    lines = case["src"].split("\n")
    n = len(lines)
    size = max(1, n // 4)
    while size >= 1:
      for i in range(0, n, size):
        chunk = lines[i:i + size]
        if any(l.startswith(("class ", "from ")) or l.startswith("  def ") for l in chunk):
          if size > 1:
            continue
          continue
        yield dict(case, src="\n".join(lines[:i] + lines[i + size:]))
      size //= 2
    return
  fake = dict(case, inputs=[{}])
  for cand in C.shrink_spec_case(fake, keep_sched_key="_none"):
    c2 = dict(cand)
    c2.pop("inputs", None)
    yield c2
