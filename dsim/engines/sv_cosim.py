"""Shared engine of C03 (VerilogTranslationPass) and C12 (YosysTranslationPass):
translation validation by co-simulation.

The real translation pass runs with its file I/O bound to an in-memory
directory (S6); the emitted text is parsed, elaborated and executed by svsim
(our model of IEEE 1800 two-state semantics, a stub for Verilator) next to the
PyMTL simulation of a second instance of the same design, under the same
seeded inputs, for several seeded orders of svsim's active processes.
"""
import re
import sys

from ..core import rng as _rng, seams
from ..gen import cosim as gcosim, designgen, emit
from . import common_rtl as C

MODV = "pymtl3.passes.backends.verilog.translation.VerilogTranslationPass"


class FakeOS:
  """what the translation pass calls on os: fsync, path.exists, rename"""

  def __init__(self, fs):
    self._fs = fs
    outer = self

    class path:
      @staticmethod
      def exists(p):
        return str(p) in outer._fs.files and not str(p).endswith(".tmp")
    self.path = path

  def fsync(self, f):
    pass

  def rename(self, a, b):
    self._fs.rename(a, b)


def translate(top, backend):
  """-> emitted text.  Raises whatever the pass raises."""
  from pymtl3.passes.backends.verilog import VerilogTranslationPass
  from pymtl3.passes.backends.yosys import YosysTranslationPass
  P = VerilogTranslationPass if backend == "verilog" else YosysTranslationPass
  fs = seams.FakeFS()
  top.set_metadata(P.enable, True)
  with seams.patched(MODV, open=fs.open, os=FakeOS(fs)):
    top.apply(P())
  fname = top.get_metadata(P.translated_filename)
  return fs.files[fname], top.get_metadata(P.translated_top_module)


# ---------------------------------------------------------------------------
# port map derived from the type shape of the PyMTL ports (DESIGN.md Appendix D)
# ---------------------------------------------------------------------------

def type_width(t):
  from pymtl3.datatypes import is_bitstruct_class
  if is_bitstruct_class(t):
    return sum(type_width(f) for f in t.__bitstruct_fields__.values())
  if isinstance(t, list):
    return len(t) * type_width(t[0])
  return t.nbits


def flat_fields(name, t, hi):
  """Yosys flattening: (flat_name, lo, width); struct: first field most
  significant; packed array: element 0 least significant."""
  from pymtl3.datatypes import is_bitstruct_class
  if is_bitstruct_class(t):
    for fname, ft in t.__bitstruct_fields__.items():
      w = type_width(ft)
      yield from flat_fields("%s__%s" % (name, fname), ft, hi)
      hi -= w
  elif isinstance(t, list):
    w = type_width(t[0])
    for i in reversed(range(len(t))):
      yield from flat_fields("%s__%d" % (name, i), t[i], hi)
      hi -= w
  else:
    yield name, hi - t.nbits, t.nbits


class PortMap:
  def __init__(self, port, backend):
    from pymtl3 import InPort
    self.py = repr(port)
    self.type = port._dsl.Type
    self.width = type_width(self.type)
    self.is_input = isinstance(port, InPort)
    toks = re.findall(r"\.(\w+)|\[(\d+)\]", self.py[1:])
    names = [a for a, b in toks if a]
    idxs = [b for a, b in toks if b]
    if backend == "verilog":
      self.sv = [("__".join(names) + "".join("[%s]" % i for i in idxs), 0, self.width)]
    else:
      base = "__".join(a or b for a, b in toks)
      self.sv = list(flat_fields(base, self.type, self.width))
    self.code = compile(self.py, "<port>", "eval")

  def to_py(self, value):
    from pymtl3.datatypes import is_bitstruct_class, mk_bits
    if is_bitstruct_class(self.type):
      return self.type.from_bits(mk_bits(self.width)(value))
    return self.type(value)


def top_ports(m, backend):
  from pymtl3 import InPort, OutPort
  ps = m.get_all_object_filter(lambda o: isinstance(o, (InPort, OutPort)) and o.get_host_component() is m
                               and o.get_top_level_signal() is o)
  return [PortMap(p, backend) for p in sorted(ps, key=repr)]


# ---------------------------------------------------------------------------
# corpus of real RTL
# ---------------------------------------------------------------------------

def corpus():
  """name -> factory"""
  from pymtl3 import Bits1, Bits4, Bits8, Bits16, Bits32, mk_bitstruct, Bits12
  S = mk_bitstruct("DsimCorpusMsg", {"hi": Bits4, "lo": Bits12})
  out = {}

  def add(name, f):
    out[name] = f
  import pymtl3.stdlib.stream.queues as sq
  import pymtl3.stdlib.queues.queues as qq
  import pymtl3.stdlib.queues.enrdy_queues as eq
  from pymtl3.stdlib.basic_rtl import arbiters, registers
  import pymtl3.stdlib.basic_rtl as br
  for cls in ("NormalQueueRTL", "PipeQueueRTL", "BypassQueueRTL"):
    for n in (1, 2, 3):
      add("stream.%s.b16.%d" % (cls, n), lambda cls=cls, n=n: getattr(sq, cls)(Bits16, n))
      add("queues.%s.b8.%d" % (cls, n), lambda cls=cls, n=n: getattr(qq, cls)(Bits8, n))
    add("stream.%s.struct.2" % cls, lambda cls=cls: getattr(sq, cls)(S, 2))
    add("queues.%s.struct.2" % cls, lambda cls=cls: getattr(qq, cls)(S, 2))
  for cls in ("PipeQueue1RTL", "BypassQueue1RTL", "NormalQueue1RTL"):
    add("enrdy.%s.b16" % cls, lambda cls=cls: getattr(eq, cls)(Bits16))
  add("enrdy.BypassQueue2RTL.b16", lambda: eq.BypassQueue2RTL(Bits16))
  for n in (2, 3, 4, 5):
    add("RoundRobinArbiter.%d" % n, lambda n=n: arbiters.RoundRobinArbiter(n))
    add("RoundRobinArbiterEn.%d" % n, lambda n=n: arbiters.RoundRobinArbiterEn(n))
  for name in ("Mux", ):
    add("Mux.b8.4", lambda: br.Mux(Bits8, 4))
    add("Mux.struct.2", lambda: br.Mux(S, 2))
  add("RegisterFile.b8.4.1.1", lambda: br.RegisterFile(Bits8, 4, 1, 1))
  add("RegisterFile.b16.8.2.2", lambda: br.RegisterFile(Bits16, 8, 2, 2))
  add("RegisterFile.b16.4.2.1.cz", lambda: br.RegisterFile(Bits16, 4, 2, 1, True))
  for r in ("Reg", "RegEn", "RegRst", "RegEnRst"):
    add("%s.b8" % r, lambda r=r: getattr(registers, r)(Bits8))
  try:
    from pymtl3.stdlib.basic_rtl import crossbars, encoders
    add("Crossbar.4.b16", lambda: crossbars.Crossbar(4, Bits16))
    add("Crossbar.2.b8", lambda: crossbars.Crossbar(2, Bits8))
    add("Encoder.8.3", lambda: encoders.Encoder(8, 3))
    add("Encoder.5.3", lambda: encoders.Encoder(5, 3))
  except Exception:
    pass
  try:
    from pymtl3.stdlib.basic_rtl import arithmetics as ar
    for nm in ("Adder", "Subtractor", "Incrementer", "ZeroExtender", "SignExtender", "ZeroComparator",
               "EqComparator", "LTComparator", "LShifter", "RShifter"):
      if hasattr(ar, nm):
        cls = getattr(ar, nm)
        if nm in ("ZeroExtender", "SignExtender"):
          add("%s.4.8" % nm, lambda cls=cls: cls(Bits4, Bits8))
        elif nm == "Incrementer":
          add("%s.b8" % nm, lambda cls=cls: cls(Bits8, 3))
        elif nm in ("LShifter", "RShifter"):
          add("%s.b8" % nm, lambda cls=cls: cls(Bits8, 3))
        else:
          add("%s.b8" % nm, lambda cls=cls: cls(Bits8))
  except Exception:
    pass
  from examples.ex02_cksum.ChecksumRTL import ChecksumRTL
  add("ChecksumRTL", lambda: ChecksumRTL())
  from examples.ex03_proc.ProcRTL import ProcRTL
  from examples.ex03_proc.NullXcel import NullXcelRTL
  from examples.ex03_proc.MiscRTL import DropUnitRTL
  add("ProcRTL", lambda: ProcRTL())
  add("NullXcelRTL", lambda: NullXcelRTL())
  add("DropUnitRTL.b32", lambda: DropUnitRTL(Bits32))
  return out


_corpus_cache = {}


def testcase_names():
  """the repository's own translator test-case designs (pymtl3/passes/testcases/test_cases.py):
  used as a corpus of shapes (interfaces, heterogeneous arrays, struct temporaries, ...) with OUR inputs."""
  if "tc" not in _corpus_cache:
    import pymtl3.passes.testcases.test_cases as tc
    _corpus_cache["tc"] = sorted(n for n in dir(tc) if n.startswith("Case") and hasattr(getattr(tc, n), "DUT"))
    _corpus_cache["tcmod"] = tc
  return _corpus_cache["tc"]


def corpus_names():
  if "names" not in _corpus_cache:
    _corpus_cache["map"] = corpus()
    _corpus_cache["names"] = sorted(_corpus_cache["map"])
  return _corpus_cache["names"]


# ---------------------------------------------------------------------------
# probes for known findings: tiny designs that contain one known-bad shape
# ---------------------------------------------------------------------------

PROBES = {
  # F33 (fixed): a sub-component whose name is a SystemVerilog reserved word was emitted as an instance
  # name; the translator must refuse it like it refuses reserved port / wire names
  "reserved_word_subcomponent": '''
from pymtl3 import *
class C_{uid}(Component):
  def construct(s):
    s.in_ = InPort(Bits8)
    s.out = OutPort(Bits8)
    @update
    def up():
      s.out @= s.in_ + 1
class Top_{uid}(Component):
  def construct(s):
    s.in_ = InPort(Bits8)
    s.out = OutPort(Bits8)
    s.cell = C_{uid}()
    s.cell.in_ //= s.in_
    s.out //= s.cell.out
''',
  # F17: sext() of a non-trivial expression
  "sext_of_expression": '''
from pymtl3 import *
class Top_{uid}(Component):
  def construct(s):
    s.a = InPort(Bits4)
    s.b = InPort(Bits4)
    s.o = OutPort(Bits8)
    @update
    def up():
      s.o @= sext(s.a + s.b, 8)
''',
  # F19: sext() of a list element replicates the whole element instead of its sign bit
  "sext_of_list_element": '''
from pymtl3 import *
class Top_{uid}(Component):
  def construct(s):
    s.a = [InPort(Bits3) for _ in range(2)]
    s.o = OutPort(Bits8)
    @update
    def up():
      s.o @= sext(s.a[1], 8)
''',
  # F18 (Yosys backend): trunc() keeps the un-flattened name of a struct field / sub-component port
  "trunc_of_struct_field": '''
from pymtl3 import *
S_{uid} = mk_bitstruct('S_{uid}', {{'a': Bits8, 'b': Bits4}})
class Top_{uid}(Component):
  def construct(s):
    s.i = InPort(S_{uid})
    s.o = OutPort(Bits2)
    @update
    def up():
      s.o @= trunc(s.i.a, 2)
''',
  "trunc_of_subcomponent_port": '''
from pymtl3 import *
class Inner_{uid}(Component):
  def construct(s):
    s.i = InPort(Bits8)
    s.o = OutPort(Bits8)
    @update
    def up():
      s.o @= s.i + 1
class Top_{uid}(Component):
  def construct(s):
    s.i = InPort(Bits8)
    s.o = OutPort(Bits2)
    s.m = Inner_{uid}()
    s.m.i //= s.i
    @update
    def up():
      s.o @= trunc(s.m.o, 2)
''',
  # F5: folded constant sub-expression with a non-ring operator
  "folded_const_shift": '''
from pymtl3 import *
class Top_{uid}(Component):
  def construct(s):
    N = 4
    s.x = InPort(Bits2)
    s.o = OutPort(Bits1)
    @update
    def up():
      s.o @= s.x == (N >> 1)
''',
  "folded_const_mod": '''
from pymtl3 import *
class Top_{uid}(Component):
  def construct(s):
    N = 4
    s.x = InPort(Bits2)
    s.o = OutPort(Bits2)
    @update
    def up():
      s.o @= s.x + (N % 3)
''',
  # F7: two factory-made classes with the same name and parameters
  "same_name_classes": '''
from pymtl3 import *
def mk(k):
  class Adder(Component):
    def construct(s):
      s.in_ = InPort(Bits8)
      s.out = OutPort(Bits8)
      @update
      def up():
        s.out @= s.in_ + k
  return Adder
class Top_{uid}(Component):
  def construct(s):
    s.in_ = InPort(Bits8)
    s.o1 = OutPort(Bits8)
    s.o2 = OutPort(Bits8)
    s.a = mk(1)()
    s.b = mk(2)()
    s.a.in_ //= s.in_
    s.b.in_ //= s.in_
    s.o1 //= s.a.out
    s.o2 //= s.b.out
''',
}


# ---------------------------------------------------------------------------
# one co-simulation
# ---------------------------------------------------------------------------

def sv_reset(sim):
  sim.set("reset", 1)
  sim.eval()
  for _ in range(3):
    sim.tick()
  sim.set("reset", 0)
  sim.eval()


def build_instances(case):
  """-> factory producing fresh elaborated tops"""
  fam = case["family"]
  if fam == "random":
    spec = case["spec"]

    def make():
      top, ns, src = gcosim.build_top(spec)
      return top
    return make
  if fam == "corpus":
    corpus_names()
    f = _corpus_cache["map"][case["name"]]

    def make():
      top = f()
      top.elaborate()
      return top
    return make
  if fam == "testcase":
    testcase_names()
    cls = getattr(_corpus_cache["tcmod"], case["name"]).DUT

    def make():
      top = cls()
      top.elaborate()
      return top
    return make
  if fam in ("ifcgen", "paramgen", "structport"):
    src = case["src"]
  else:
    src = PROBES[case["name"]].format(uid=case["uid"])

  def make():
    ns, cls, _ = emit.build({"uid": case["uid"], "top": "Top"}, src=src)
    top = cls()
    top.elaborate()
    return top
  return make


def gen_case(R, tier, backend, profile="translatable"):
  c = R("case")
  inp = R("input")
  s = R("sched")
  r = c.random()
  base = {"backend": backend, "hash_seed": R.sub_seed("hash"), "uid": "x%x" % (R.seed & 0xffffff),
          "orders": [s.getrandbits(16) for _ in range(2)], "input_seed": inp.getrandbits(32)}
  if r < 0.10:
    # interface-centred designs: N-D lists of interfaces / of components holding them, nested interfaces,
    # interface-level connects with a seeded permutation
    from ..gen import ifcrtl
    src, gst = ifcrtl.gen(c, base["uid"])
    base.update(family="ifcgen", name="ifcgen", src=src, gen_stats=gst, ncycles=inp.randint(6, 14), resets=[])
  elif 0.16 <= r < 0.20:
    # layout of struct-typed ports: nested structs / list fields with non-alphabetical field names, the
    # packed value assigned to a Bits port, passed through, read leaf by leaf
    from ..gen import structports
    src, gst = structports.gen(c, base["uid"])
    base.update(family="structport", name="structport", src=src, gen_stats=gst, ncycles=inp.randint(6, 12), resets=[])
  elif r < 0.16:
    # several instances of parametrised classes at colliding / defaulted / keyword / set_param values
    # (the designs C13 uses for aliasing): a shared module body shows up here as a wrong output
    from . import c13
    base.update(family="paramgen", name="paramgen", src=c13.gen_param_design(c, base["uid"]),
                ncycles=inp.randint(6, 14), resets=[])
  elif r < 0.62:
    spec = designgen.DesignGen(c, profile, uid=base["uid"]).gen()
    base.update(family="random", spec=spec, ncycles=inp.randint(8, 24),
                resets=sorted({inp.randrange(24) for _ in range(inp.choice([0, 0, 1, 2]))}))
  elif r < 0.80:
    nm = c.choice(testcase_names())
    base.update(family="testcase", name=nm, ncycles=inp.randint(6, 16), resets=[])
  elif r < 0.93:
    names = corpus_names()
    nm = c.choice(names)
    base.update(family="corpus", name=nm, ncycles=inp.randint(20, 60) if nm != "ProcRTL" else 30, resets=[])
  else:
    base.update(family="probe", name=c.choice(sorted(PROBES)), ncycles=8, resets=[])
  return base


def run_case(case):
  from .. import svsim
  from pymtl3 import Bits1, DefaultPassGroup
  import random
  backend = case["backend"]
  fam = case["family"]
  D = _rng.Digest()
  stats = {"fault_counts": {"family." + fam: 1}, "sim_cycles": 0, "sv_process_activations": 0,
           "outcomes": {}, "probes": {}}
  tag = case["name"] if fam != "random" else "random"
  sig_shape = case["name"] if fam in ("probe", "testcase") else fam

  def out(v=None, outcome="ok", nontrivial=False):
    stats["outcomes"][outcome] = 1
    return {"violations": [v] if v else [], "digest": D.hex(), "nontrivial": nontrivial, "stats": stats}

  def bad(check, **kw):
    return C.viol(check, dict(kw, backend=backend, family=fam, design=tag), shape=sig_shape, backend=backend)

  if fam == "random":
    stats["probes"].update(C.shape_probes(case["spec"]))
  seams.set_hash_stream(case["hash_seed"])
  make = build_instances(case)
  # 1. translate
  try:
    top_t = make()
  except Exception as e:
    if fam == "testcase":       # many test-case designs are deliberately illegal
      return out(None, "testcase_does_not_elaborate")
    return out(C.exc_violation(e, "elaborate/%s" % tag), "elaborate_error")
  try:
    text, top_module = translate(top_t, backend)
  except Exception as e:
    mod = type(e).__module__ or ""
    if mod.startswith("pymtl3.passes") and "errors" in mod:
      stats["fault_counts"]["rejected." + type(e).__name__] = 1
      return out(None, "rejected_by_translator")
    stats["fault_counts"]["rejected_internal." + type(e).__name__] = 1
    return out(None, "rejected_internal_error")
  # comment lines carry the absolute path of the source file (cwd-dependent): not part of the digest
  D.add(_rng.digest([l for l in text.splitlines() if not l.lstrip().startswith("//")]))
  # 2. parse / elaborate / static
  try:
    src = svsim.parse(text)
    design = svsim.elaborate(src, top=top_module, signed_index="unsigned")
  except svsim.SvUnsupported as e:
    stats["fault_counts"]["harness_gap"] = 1
    stats["gaps"] = [str(e)[:80]]
    return out(None, "harness_gap")
  except svsim.SvSyntaxError as e:
    return out(bad("sv_syntax", error=str(e)[:300], line=_line_of(text, e)), "sv_syntax")
  except svsim.SvElabError as e:
    v = bad("sv_elab", error=str(e)[:300], line=_line_of(text, e))
    if fam == "ifcgen" and backend == "yosys" and case.get("gen_stats", {}).get("nested_list") and \
       "undeclared identifier" in str(e) and "__leaf__" in str(e):
      # known finding F32: a LIST of nested interfaces inside an interface has no array wires in the
      # Yosys backend (recognised by the design shape + the missing identifier)
      v["sig"]["shape"] = "yosys_nested_interface_list"
    return out(v, "sv_elab")
  issues = design.static_issues()
  # 'undriven' (read but never driven) mirrors undriven wires of the PyMTL source (they read 0 on both
  # sides in two-state semantics) and svsim reports it conservatively: counted, not a violation.
  for kind, msg in issues:
    if kind == "undriven":
      stats["fault_counts"]["note.sv_undriven_variable"] = stats["fault_counts"].get("note.sv_undriven_variable", 0) + 1
  split_struct = backend == "yosys" and _struct_wire_split(text, [m for k, m in issues if k == "undriven"])
  issues = [i for i in issues if i[0] != "undriven"]
  if issues:
    kind = issues[0][0]
    v = bad("sv_static_" + kind, issues=[list(i) for i in issues[:3]])
    if all(i[0] == "multi_driver" and _is_struct_flatten_double_drive(text, i[1]) for i in issues):
      # known finding F13: recognised by the shape of the emitted text, not by the design
      v["sig"]["shape"] = "yosys_struct_flatten_double_drive"
    return out(v, "sv_static")
  # 3. port map
  ports = top_ports(top_t, backend)
  covered = {}
  for p in ports:
    for n, lo, w in p.sv:
      covered[re.sub(r"\[.*$", "", n)] = p
  sv_names = {p.name: p for p in design.ports}
  if set(sv_names) != set(covered):
    return out(bad("port_map", emitted_only=sorted(set(sv_names) - set(covered))[:6],
                   expected_only=sorted(set(covered) - set(sv_names))[:6]), "port_map")
  for p in ports:
    for n, lo, w in p.sv:
      sp = sv_names[re.sub(r"\[.*$", "", n)]
      if sp.width != w or sp.direction != ("input" if p.is_input else "output"):
        return out(bad("port_shape", port=n, width=[sp.width, w], direction=sp.direction), "port_shape")
  ins = [p for p in ports if p.is_input and p.py not in ("s.clk", "s.reset")]
  outs = [p for p in ports if not p.is_input]
  # 4. co-simulate
  try:
    m = make()
    m.apply(DefaultPassGroup(linetrace=False))
    m.sim_reset()
  except Exception as e:
    if fam == "testcase":
      return out(None, "testcase_not_simulatable")
    return out(C.exc_violation(e, "pymtl_sim/%s" % tag), "pymtl_error")
  sims = []
  try:
    for o in case["orders"]:
      sim = design.new_sim(order_seed=o)
      sv_reset(sim)
      sims.append(sim)
  except svsim.SvCombLoop as e:
    return out(bad("sv_comb_loop", error=str(e)[:200]), "sv_comb_loop")
  rng = random.Random(case["input_seed"])
  env = {"s": m}
  resets = set(case.get("resets", []))
  seen_nonzero = False

  def compare(when):
    nonlocal seen_nonzero
    for p in outs:
      pv = gcosim.to_int(eval(p.code, env))
      if pv:
        seen_nonzero = True
      for sim in sims:
        for n, lo, w in p.sv:
          exp = (pv >> lo) & ((1 << w) - 1)
          got = sim.get(n)
          if got != exp:
            v = bad("sv_value_mismatch", when=when, port=n, pymtl=hex(exp), sv=hex(got),
                    order_seed=sim.order_seed)
            if split_struct:
              # known finding F14, recognised from the emitted text (see _struct_wire_split)
              v["sig"]["shape"] = "yosys_struct_whole_vs_fields"
              v["detail"]["split_struct_variable"] = split_struct
            elif backend == "yosys" and fam == "paramgen":
              lst = _yosys_list_first_module(text, top_t)
              if lst:
                # known finding F16 through another input: every element of a component list is
                # instantiated with the FIRST element's module although classes / parameters differ
                v["sig"]["shape"] = "yosys_comp_list_first_module"
                v["detail"]["component_list"] = lst
            return v
    return None

  prev = {p.py: 0 for p in ins}
  try:
    for cyc in range(case["ncycles"]):
      rst = 1 if cyc in resets else 0
      m.reset @= Bits1(rst)
      for sim in sims:
        sim.set("reset", rst)
      if rst:
        stats["fault_counts"]["restart.reset"] = stats["fault_counts"].get("restart.reset", 0) + 1
      for p in ins:
        r = rng.random()
        if r < 0.15:
          v = 0
        elif r < 0.3:
          v = (1 << p.width) - 1
        elif r < 0.45:
          v = prev[p.py]
        else:
          v = rng.getrandbits(p.width)
        nglitch = 1 if rng.random() < 0.15 else 0
        for g in range(nglitch):
          gv = rng.getrandbits(p.width)
          exec("%s @= v" % p.py, {"s": m, "v": p.to_py(gv)})
          stats["fault_counts"]["glitch.input"] = stats["fault_counts"].get("glitch.input", 0) + 1
        prev[p.py] = v
        exec("%s @= v" % p.py, {"s": m, "v": p.to_py(v)})
        for sim in sims:
          for n, lo, w in p.sv:
            sim.set(n, (v >> lo) & ((1 << w) - 1))
      m.sim_eval_combinational()
      for sim in sims:
        sim.eval()
      v = compare("eval@%d" % cyc)
      if v:
        return out(v, "value_mismatch")
      m.sim_tick()
      for sim in sims:
        sim.tick()
      v = compare("tick@%d" % cyc)
      if v:
        return out(v, "value_mismatch")
      stats["sim_cycles"] += 1
  except svsim.SvCombLoop as e:
    return out(bad("sv_comb_loop", error=str(e)[:200]), "sv_comb_loop")
  except IndexError:
    # PyMTL raised on an out-of-range variable index: outside the comparison (DESIGN.md Appendix A)
    stats["fault_counts"]["pymtl_index_error"] = 1
    return out(None, "pymtl_index_error")
  except Exception as e:
    if fam == "testcase" and not type(e).__module__.startswith("dsim"):
      return out(None, "testcase_pymtl_runtime_error")
    return out(C.exc_violation(e, "cosim/%s" % tag), "cosim_error")
  stats["sv_process_activations"] = sum(s_.stats.get("activations", 0) for s_ in sims)
  stats["fault_counts"]["sched.sv_process_orders"] = len(sims)
  return out(None, "ok", nontrivial=seen_nonzero and len(outs) > 0)


def _is_struct_flatten_double_drive(text, msg):
  """multi_driver on a flattened struct-field variable `B__..__f` where one of the two drivers is
  `assign B__..__f = B[...]...` (slice of the packed whole B) or `= B__f[i]` (element of a per-field array)."""
  m = re.search(r"variable '([\w.]+)'", msg)
  lines = [int(x) for x in re.findall(r"\(line (\d+)\)", msg)]
  if not m or len(lines) < 2:
    return False
  var = m.group(1).split(".")[-1]
  L = text.splitlines()
  for ln in lines:
    if not 0 < ln <= len(L):
      continue
    mm = re.match(r"\s*assign\s+(\w+)\s*=\s*(\w+)((\[[\d:]+\])+)\s*;", L[ln - 1])
    if mm and mm.group(1) == var and "__" in var:
      src = mm.group(2)
      if var.startswith(src + "__"):
        return True
      # B__i__f = B__f[i]
      parts = var.split("__")
      if src.split("__")[0] == parts[0] and set(src.split("__")) <= set(parts):
        return True
  return False


def _struct_wire_split(text, undriven_msgs):
  """Yosys backend, struct-typed signal: the packed whole `B` and the flattened fields `B__f` are
  separate variables; a block that writes one form while readers use the other leaves the read
  form undriven.  -> name of such a variable or ''."""
  names = set()
  for m in undriven_msgs:
    mm = re.search(r"variable '([\w.]+)'", m)
    if mm:
      names.add(mm.group(1).split(".")[-1])
  decl = set(re.findall(r"^\s*(?:input|output)?\s*logic\s*(?:\[[^\]]+\]\s*)*(\w+)", text, re.M))
  if not names:
    # second form of the same defect: a struct WIRE whose whole `W` and whose field `W__f` are BOTH written
    # (whole-then-field override in one block): two unconnected variables, the field write is lost for
    # readers of the whole.  Recognised when no assign connects W with its fields.
    written = set(re.findall(r"^\s*(\w+)(?:\[[^=]*\])?\s*<?=(?!=)", text, re.M))
    for w in sorted(decl):
      fields = [d for d in decl if d.startswith(w + "__")]
      if not fields or w not in written or not any(f in written for f in fields):
        continue
      if re.search(r"assign\s+%s\[[^\]]*\]\s*=\s*%s__" % (re.escape(w), re.escape(w)), text) or \
         re.search(r"assign\s+%s__\w+\s*=\s*%s\[" % (re.escape(w), re.escape(w)), text):
        continue
      return w
    return ""
  for u in sorted(names):
    parts = u.split("__")
    for k in range(1, len(parts)):
      if "__".join(parts[:k]) in decl:
        return u                      # field form undriven, whole form exists
    if any(d.startswith(u + "__") for d in decl):
      return u                        # whole form undriven, field form exists
  return ""


def _yosys_list_first_module(text, top):
  """name of a list of sub-components of `top` whose elements differ in class or construct arguments while
  the emitted text instantiates one and the same module for all of them (else None)"""
  from pymtl3.dsl.Component import Component

  def flat(v):
    if isinstance(v, list):
      for x in v:
        yield from flat(x)
    else:
      yield v
  for name, v in sorted(top.__dict__.items()):
    if name.startswith("_") or not isinstance(v, list):
      continue
    elems = list(flat(v))
    if len(elems) < 2 or not all(isinstance(x, Component) for x in elems):
      continue
    sigs = {(type(x).__name__, repr(x._dsl.args), repr(sorted(x._dsl.kwargs.items()))) for x in elems}
    if len(sigs) < 2:
      continue
    mods = set(re.findall(r"^\s*(\w+)\s+%s(?:__\d+)+\s*$" % re.escape(name), text, re.M))
    if len(mods) == 1:
      return name
  return None


def _line_of(text, e):
  m = re.search(r"line (\d+)", str(e))
  if not m:
    return ""
  L = text.splitlines()
  k = int(m.group(1))
  return L[k - 1].strip()[:240] if 0 < k <= len(L) else ""


def sample(case):
  d = {k: v for k, v in case.items() if k != "spec"}
  if case["family"] == "random":
    d["source_head"] = emit.source(case["spec"])[:1200]
  return d


def shrink(case):
  if case["family"] != "random":
    if case["ncycles"] > 2:
      yield dict(case, ncycles=case["ncycles"] // 2)
    return
  if case["ncycles"] > 1:
    yield dict(case, ncycles=max(1, case["ncycles"] // 2))
  if len(case["orders"]) > 1:
    yield dict(case, orders=case["orders"][:1])
  fake = dict(case, inputs=[{}])
  for cand in C.shrink_spec_case(fake, keep_sched_key="_none"):
    if cand["spec"] is not case["spec"]:
      c2 = dict(cand)
      c2.pop("inputs", None)
      yield c2
