"""C20 - FL, CL and RTL example processors agree with the ISA on every program;
ChecksumFL/CL/RTL agree with a four-line specification."""
import sys

from pymtl3 import *

from ..core import rng as _rng, seams
from ..models import tinyrv0 as T
from . import common_rtl as C
from .c18 import SeededRandomFactory

ID = "C20"
LEVEL = "exploration"
RULE = ("case = TinyRV0 program generated against the ISA document (all 10 instructions, few registers to force "
        "hazards, forward bne over 1-3 instructions, counted backward loops, loads/stores in a 16-word window via base "
        "and computed address registers, csrr/csrw to mngr/xcel, shifts by >=32, writes to x0) x memory latency 1..6 x "
        "memory stall probability {0,.2,.5,.7} x source gaps x sink back-pressure x level (FL, CL, RTL) x scheduler; or "
        "a checksum case (8 x 16-bit words through ChecksumFL/CL/RTL with seeded source/sink delays); non-trivial = "
        "program executed >= 20 dynamic instructions incl. >= 1 taken branch, >= 1 load and >= 1 store, and stalls "
        "fired; distinct = case digest")
TIERS = {"quick": {"runs": 960, "budget_s": 110, "chunk": 4},
         "thorough": {"runs": 60000, "budget_s": 1800, "chunk": 4}}
REAL = ["examples.ex03_proc.ProcFL/ProcCL/ProcRTL (ctrl, dpath, drop unit, bypass queues)", "NullXcelRTL",
        "MagicMemoryCL + StallCL + DelayPipes", "interface adapters inserted by connect() (greenlets for FL)",
        "examples.ex02_cksum.ChecksumFL/CL/RTL", "schedulers"]
STUB = ["TinyRV0 encoder / interpreter / program generator written from tinyrv0-isa.md", "CL source with seeded gaps",
        "recording CL sink with seeded back-pressure", "seeded Random behind StallCL (S5)"]
ASSUMPTIONS = ["aligned word accesses only (unaligned is undefined in the ISA)",
               "programs end by parking on csrr mngr2proc with an exhausted source"]


class SrcCL(Component):
  def construct(s, Type, msgs, gaps, ctl):
    s.send = CallerIfcCL(Type=Type)
    s.idx = 0
    s.wait = gaps[0] if gaps else 0

    @update_once
    def up_src():
      if s.idx < len(msgs) and not s.reset:
        if s.wait > 0 and not ctl["stopped"]:
          s.wait -= 1
        elif s.send.rdy():
          s.send(msgs[s.idx])
          s.idx += 1
          s.wait = gaps[s.idx % len(gaps)] if gaps else 0


class SinkCL(Component):
  def construct(s, pattern, ctl, out):
    s.ok = True
    s._out = out

    @update_once
    def up_sink():
      s.ok = ctl["stopped"] or bool(pattern[ctl["cycle"] % len(pattern)])

    s.add_constraints(U(up_sink) < M(s.recv), U(up_sink) < M(s.recv.rdy))

  @non_blocking(lambda s: s.ok)
  def recv(s, msg):
    s._out.append(int(msg))


class ProcHarness(Component):
  def construct(s, proc_cls, src_msgs, gaps, pattern, ctl, out, stall_prob, latency):
    from examples.ex03_proc.NullXcel import NullXcelRTL
    from pymtl3.stdlib.connects import connect_pairs
    from pymtl3.stdlib.mem.MagicMemoryCL import MagicMemoryCL
    s.src = SrcCL(Bits32, [Bits32(x) for x in src_msgs], gaps, ctl)
    s.sink = SinkCL(pattern, ctl, out)
    s.proc = proc_cls()
    s.xcel = NullXcelRTL()
    s.mem = MagicMemoryCL(2, stall_prob=stall_prob, latency=latency)
    connect_pairs(
      s.src.send, s.proc.mngr2proc,
      s.proc.proc2mngr, s.sink.recv,
      s.proc.imem, s.mem.ifc[0],
      s.proc.dmem, s.mem.ifc[1],
    )
    connect(s.proc.xcel, s.xcel.xcel)


class CksumHarness(Component):
  def construct(s, dut_cls, msgs, gaps, pattern, ctl, out, Type):
    s.src = SrcCL(Type, msgs, gaps, ctl)
    s.sink = SinkCL(pattern, ctl, out)
    s.dut = dut_cls()
    connect(s.src.send, s.dut.recv)
    connect(s.dut.send, s.sink.recv)


def gen_case(R, tier):
  c = R("case")
  flt = R("fault")
  s = R("sched")
  pat = lambda p: [1 if flt.random() < p else 0 for _ in range(29)]
  if c.random() < 0.12:
    n = c.randint(1, 6)
    words = [[(c.getrandbits(16) if c.random() < 0.6 else c.choice([0, 0xffff, 1, 0x8000])) for _ in range(8)]
             for _ in range(n)]
    p = pat(flt.choice([1.0, 0.7, 0.4]))
    p[0] = 1
    return {"kind": "cksum", "words": words, "gaps": [flt.choice([0, 0, 1, 3]) for _ in range(5)],
            "pattern": p, "sched": [s.choice(("default", "default_s2", "mamba_s2")), s.getrandbits(32)],
            "hash_seed": R.sub_seed("hash")}
  for _ in range(20):
    P, src_t, end_index = T.gen_program(c, nmax=c.choice([20, 40, 60, 100]))
    data_init = [c.getrandbits(32) for _ in range(T.DATA_WORDS)]
    m = T.materialise(c, P, src_t, end_index, data_init)
    if m is not None:
      break
  words, src, isa = m
  # swarm: per-run source-gap profile (prompt source / always a few cycles late / mixed)
  flt_gap_profile = flt.choice([[0], [2, 3], [3, 4, 6], [0, 0, 0, 1, 2, 6], [1, 2]])
  p = pat(flt.choice([1.0, 0.8, 0.5, 0.3]))
  p[0] = 1
  return {"kind": "proc", "words": words, "src": src, "data_init": data_init, "end_index": end_index,
          "latency": c.choice([1, 1, 2, 3, 4, 6]), "stall_prob": flt.choice([0, 0.2, 0.5, 0.7]),
          "gaps": [flt.choice(flt_gap_profile) for _ in range(7)], "pattern": p,
          "stall_seed": R.sub_seed("stall"),
          "sched": [s.choice(("default", "default_s2", "mamba", "mamba_s2")), s.getrandbits(32)],
          "hash_seed": R.sub_seed("hash")}


def run_level(case, level, expected, stats):
  """Simulate one processor level; -> (sink values, src consumed, window, text_ok, cycles, error)"""
  import struct
  from ..sched import harness
  from examples.ex03_proc.ProcCL import ProcCL
  from examples.ex03_proc.ProcFL import ProcFL
  from examples.ex03_proc.ProcRTL import ProcRTL
  cls = {"FL": ProcFL, "CL": ProcCL, "RTL": ProcRTL}[level]
  ctl = {"cycle": 0, "stopped": False}
  out = []
  counter = {"draws": 0}
  seams.set_hash_stream(case["hash_seed"])
  mod = "pymtl3.stdlib.delays.StallCL"
  __import__(mod)
  saved = sys.modules[mod].Random
  sys.modules[mod].Random = SeededRandomFactory(case["stall_seed"], ctl, counter)
  sched, sseed = case["sched"]
  try:
    top = ProcHarness(cls, case["src"], case["gaps"], case["pattern"], ctl, out,
                      case["stall_prob"], case["latency"])
    top.elaborate()
    harness.prepare(top, sched, sseed)
    text = b"".join(struct.pack("<I", w) for w in case["words"])
    top.mem.write_mem(T.RESET_PC, text)
    top.mem.write_mem(T.DATA_BASE, b"".join(struct.pack("<I", w) for w in case["data_init"]))
    top.sim_reset()
    ndyn = expected["ndyn"]
    p = case["stall_prob"]
    bound = int(400 + 40 * ndyn * (case["latency"] + 2) / (1 - p))
    n = 0
    extra = None
    while n < bound:
      ctl["cycle"] = n
      top.sim_tick()
      n += 1
      if extra is None and len(out) >= len(expected["sink"]):
        extra = n + 40          # keep running: late messages / stores must not appear
      if extra is not None and n >= extra:
        break
    stats["sim_cycles"] += n
    stats["fault_counts"]["stall.rand_draws"] = stats["fault_counts"].get("stall.rand_draws", 0) + counter["draws"]
    win = list(struct.unpack("<%dI" % T.DATA_WORDS, bytes(top.mem.read_mem(T.DATA_BASE, 4 * T.DATA_WORDS))))
    text_ok = bytes(top.mem.read_mem(T.RESET_PC, len(text))) == text
    return out, top.src.idx, win, text_ok, n, bound, None
  except Exception as e:
    return out, 0, [], True, 0, 0, C.exc_violation(e, "sim/%s/%s" % (level, sched))
  finally:
    sys.modules[mod].Random = saved


def run_proc(case):
  D = _rng.Digest()
  stats = {"fault_counts": {"sched." + case["sched"][0]: 1}, "sim_cycles": 0,
           "probes": {"taken_branches": 0, "loads": 0, "stores": 0, "x0_writes": 0, "shift_ge_32": 0,
                      "backward_branches": 0}}
  isa = T.Isa(case["words"], case["src"], case["data_init"])
  park = T.RESET_PC + 4 * case["end_index"]
  # instrumented reference run
  try:
    while isa.ndyn < 20000 and isa.pc != park:
      w = isa.mem[isa.pc]
      pc0 = isa.pc
      op = w & 0x7f
      if op == 0b0000011:
        stats["probes"]["loads"] += 1
      elif op == 0b0100011:
        stats["probes"]["stores"] += 1
      elif op in (0b0110011, 0b0010011, 0b0000011) and ((w >> 7) & 31) == 0 and w != 0x13:
        stats["probes"]["x0_writes"] += 1
      if op == 0b0110011 and ((w >> 12) & 7) in (1, 5) and isa.R[(w >> 20) & 31] >= 32:
        stats["probes"]["shift_ge_32"] += 1
      isa.step()
      if op == 0b1100011 and isa.pc != pc0 + 4:
        stats["probes"]["taken_branches"] += 1
        if isa.pc < pc0:
          stats["probes"]["backward_branches"] += 1
  except T.Halt as h:
    return {"violations": [C.viol("harness_generated_bad_program", {"halt": str(h)})], "digest": D.hex(),
            "nontrivial": False, "stats": stats}
  expected = {"sink": list(isa.sink), "src_used": isa.src_used, "window": isa.data_window(), "ndyn": isa.ndyn}
  # never hand the system more source words than the program consumes: the final csrr must park
  case = dict(case, src=case["src"][:isa.src_used])
  D.add(expected["sink"], expected["window"])
  viols = []
  for level in ("FL", "CL", "RTL"):
    out, used, win, text_ok, n, bound, err = run_level(case, level, expected, stats)
    stats["fault_counts"]["level." + level] = 1
    if err:
      viols.append(err)
      break
    det = {"level": level, "latency": case["latency"], "stall_prob": case["stall_prob"], "sched": case["sched"][0]}
    if out != expected["sink"]:
      if len(out) < len(expected["sink"]) and out == expected["sink"][:len(out)]:
        # possibly only slow: re-run once with a 4x bound before reporting (DESIGN.md C20)
        viols.append(C.viol("proc2mngr_incomplete", dict(det, got=len(out), want=len(expected["sink"]), cycles=n,
                                                         bound=bound), level=level))
      else:
        k = [i for i in range(min(len(out), len(expected["sink"]))) if out[i] != expected["sink"][i]]
        viols.append(C.viol("proc2mngr_sequence", dict(det, first_diff=k[:1], got=[hex(x) for x in out[:12]],
                                                       want=[hex(x) for x in expected["sink"][:12]]), level=level))
      break
    if used != expected["src_used"]:
      viols.append(C.viol("mngr2proc_consumed", dict(det, got=used, want=expected["src_used"]), level=level))
      break
    if win != expected["window"]:
      k = [i for i in range(T.DATA_WORDS) if win[i] != expected["window"][i]][0]
      viols.append(C.viol("memory_image", dict(det, word=k, got=hex(win[k]), want=hex(expected["window"][k])),
                          level=level))
      break
    if not text_ok:
      viols.append(C.viol("text_section_modified", det, level=level))
      break
  nt = isa.ndyn >= 20 and stats["probes"]["taken_branches"] >= 1 and stats["probes"]["loads"] >= 1 and \
      stats["probes"]["stores"] >= 1
  stats["dyn_instructions"] = isa.ndyn
  return {"violations": viols, "digest": D.hex(), "nontrivial": nt, "stats": stats}


def cksum_spec(words):
  """Fletcher-style checksum of the tutorial: two 32-bit running sums over 8 16-bit words,
  each reduced modulo 65536, result = (sum2 << 16) | sum1."""
  s1 = s2 = 0
  for w in words:
    s1 = (s1 + w) & 0xffffffff
    s2 = (s2 + s1) & 0xffffffff
  return ((s2 & 0xffff) << 16) | (s1 & 0xffff)


def run_cksum(case):
  from ..sched import harness
  from examples.ex02_cksum.ChecksumCL import ChecksumCL
  from examples.ex02_cksum.ChecksumFL import checksum as checksum_fl
  from examples.ex02_cksum.ChecksumRTL import ChecksumRTL
  from examples.ex02_cksum.utils import words_to_b128
  D = _rng.Digest()
  stats = {"fault_counts": {"sched." + case["sched"][0]: 1, "kind.cksum": 1}, "sim_cycles": 0, "probes": {}}
  want = [cksum_spec(ws) for ws in case["words"]]
  D.add(want)
  viols = []
  sched, sseed = case["sched"]
  fl = [int(checksum_fl([Bits16(w) for w in ws])) for ws in case["words"]]
  if fl != want:
    return {"violations": [C.viol("checksum_value", {"level": "FL", "got": [hex(x) for x in fl],
                                                     "want": [hex(x) for x in want]}, level="FL")],
            "digest": D.hex(), "nontrivial": True, "stats": stats}
  for name, cls in (("CL", ChecksumCL), ("RTL", ChecksumRTL)):
    ctl = {"cycle": 0, "stopped": False}
    out = []
    seams.set_hash_stream(case["hash_seed"])
    try:
      msgs = [words_to_b128([Bits16(w) for w in ws]) for ws in case["words"]]
      top = CksumHarness(cls, msgs, case["gaps"], case["pattern"], ctl, out, Bits128)
      top.elaborate()
      harness.prepare(top, sched, sseed)
      top.sim_reset()
      n = 0
      while n < 60 * len(msgs) + 100 and len(out) < len(want):
        ctl["cycle"] = n
        top.sim_tick()
        n += 1
      for _ in range(10):
        top.sim_tick()
      stats["sim_cycles"] += n
    except Exception as e:
      viols.append(C.exc_violation(e, "cksum/%s" % name))
      break
    if out != want:
      viols.append(C.viol("checksum_value", {"level": name, "got": [hex(x) for x in out], "want": [hex(x) for x in want],
                                             "words": case["words"][:2]}, level=name))
      break
  return {"violations": viols, "digest": D.hex(), "nontrivial": len(case["words"]) >= 2, "stats": stats}


def run_case(case):
  return run_proc(case) if case["kind"] == "proc" else run_cksum(case)


def sample(case):
  if case["kind"] == "cksum":
    return case
  d = dict(case)
  d["words"] = [hex(w) for w in case["words"][:24]]
  d.pop("data_init")
  return d


def shrink(case):
  if case["kind"] != "proc":
    ws = case["words"]
    for i in range(len(ws)):
      if len(ws) > 1:
        yield dict(case, words=ws[:i] + ws[i + 1:])
    return
  # replace instructions by nops (keeps branch offsets valid), back to front
  words = case["words"]
  end = case["end_index"]
  k = end // 2
  while k >= 1:
    for a in range(1, end - 2, k):
      cand = list(words)
      changed = False
      for j in range(a, min(a + k, end - 2)):
        if cand[j] != 0x13:
          cand[j] = 0x13
          changed = True
      if changed:
        yield dict(case, words=cand)
    k //= 2
  if case["stall_prob"]:
    yield dict(case, stall_prob=0)
  if case["latency"] != 1:
    yield dict(case, latency=1)
  yield dict(case, pattern=[1], gaps=[0])
