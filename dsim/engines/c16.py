"""C16 - waveform dumps replay the simulation exactly.

The VCD pass writes into an in-memory file (S6); a profile hook samples every
signal of every component at the instant the dump function is entered (the
cycle's clock edge: after the pre-edge combinational pass, before any
update_ff block).  Our own VCD reader rebuilds value-at-time per symbol;
vcd[scope/name](100*t) must equal sample[t] for all signals and cycles, for
every prefix of the file examined (stop.at); the $var set must equal the set
of top-level signals with their widths; the clock symbol toggles once per
cycle; the text-wave record holds the same values.
"""
import sys

from ..core import rng as _rng, seams
from ..gen import cosim, designgen, templates
from ..models.vcdreader import Vcd, VcdError
from . import common_rtl as C

ID = "C16"
LEVEL = "exploration"
RULE = ("case = generated design (all profiles, biased to shared nets / structs / constants) x scheduler with a VCD "
        "pass (default, simple, seeded variants, forced extension) x 6..30 cycles of inputs that hold and revisit "
        "values x faults (restart.reset, dup.eval, stop.at = examine the file after a seeded prefix); non-trivial = "
        ">=1 signal changed value at >=2 different cycles and >=1 net with >=2 top-level members; distinct = case digest. "
        "25% of the cases keep a second VCD-dumping simulator alive; 6% run a CL design with top-level method ports "
        "under OpenLoopCLPass (cycles roll over inside method calls) with VCD and text wave enabled; 5% carry the stdlib "
        "memory request message and a struct with a user-written __str__ that hides a field through register stages, "
        "with input sequences that mostly change only the hidden field")
TIERS = {"quick": {"runs": 1280, "budget_s": 100, "chunk": 4},
         "thorough": {"runs": 250000, "budget_s": 1800, "chunk": 8}}
REAL = ["VcdGenerationPass", "PrintTextWavePass", "PrepareSimPass.collect_ff_funcs", "Bits.to_vcd_str / bin"]
STUB = ["in-memory file object bound to the pass module's open()", "time.asctime pinned", "our VCD reader",
        "dump-entry sampler (sys.setprofile)"]
ASSUMPTIONS = ["value_at(100*t) is the value after all changes listed under timestamp #100*t",
               "cycle t = t-th call of the dump function, sim_reset's three cycles included"]

VCD_SCHEDS = ("default", "simple", "default_s2", "simple_s2", "forced", "adversarial")
MOD = "pymtl3.passes.tracing.VcdGenerationPass"


def gen_case(R, tier):
  c = R("case")
  uid = "v%x" % (R.seed & 0xffffff)
  fam = R("fam").random()
  if 0.06 <= fam < 0.11:
    o = R("msg")
    return {"family": "msg", "tmpl": gen_msg(o, uid), "sched": ["default", 0], "hash_seed": R.sub_seed("hash")}
  if fam < 0.06:
    o = R("open")
    return {"family": "openloop", "tmpl": gen_open(o, uid), "calls": None, "sched": ["openloop", o.getrandbits(32)],
            "hash_seed": R.sub_seed("hash")}
  r = c.random()
  if r < 0.2:
    spec = templates.ff_ring(c, uid)
  else:
    spec = designgen.DesignGen(c, c.choice(["acyclic", "ff_heavy", "shapes", "shapes"]), uid=uid).gen()
  inp = R("input")
  seq = designgen.gen_inputs(spec, inp, inp.randint(6, 30))
  # hold inputs for stretches so that change suppression matters
  for t in range(1, len(seq)):
    if inp.random() < 0.35:
      seq[t]["in"] = dict(seq[t - 1]["in"])
  flt = R("fault")
  kinds = {k for k in ("dup.eval", "restart.reset") if flt.random() < 0.5}
  C.gen_faults(seq, flt, kinds, C.input_widths(spec))
  stops = sorted({flt.randrange(len(seq)) for _ in range(2)}) if flt.random() < 0.7 else []
  s = R("sched")
  return {"spec": spec, "inputs": seq, "stops": stops, "sched": [s.choice(VCD_SCHEDS), s.getrandbits(32)],
          "hash_seed": R.sub_seed("hash"),
          # a second VCD-dumping simulator of the same design alive at the same time, driven with other
          # inputs and ticked in lock step (DUT + reference instance): dumps must not leak between them
          "coresident": R("cores").random() < 0.25}


OPEN_SRC = '''
from pymtl3 import *

@bitstruct
class Pair_{uid}:
  hi: Bits{hi}
  lo: Bits{lo}

class Acc_{uid}(Component):
  def construct(s):
    s.in_ = InPort(Bits{w})
    s.sum = OutPort(Bits{w})
    s.st = OutPort(Pair_{uid})
    @update_ff
    def up_acc():
      if s.reset:
        s.sum <<= 0
      else:
        s.sum <<= s.sum + s.in_
    @update
    def up_st():
      s.st.hi @= s.sum[{lo}:{w}]
      s.st.lo @= s.sum[0:{lo}]

class Top_{uid}(Component):
  def construct(s):
    s.element = None
    s.count = Wire(Bits{w})
    s.amp = Wire(Bits{w})
    s.value = Wire(Bits{w})
    s.st = Wire(Pair_{uid})
    s.never = Wire(Bits{hi})
    s.tied = Wire(Bits{lo})
    s.tied //= {tied}
    s.acc = [Acc_{uid}() for _ in range({nacc})]
    for a in s.acc:
      a.in_ //= s.count
    @update_ff
    def up_incr():
      if s.reset:
        s.count <<= 0
      else:
        s.count <<= s.count + {inc}
    @update
    def up_amp():
      s.amp @= s.count * {mul}
      s.st.hi @= s.count[0:{hi}]
      s.st.lo @= s.count[{hi}:{w}]
    @update
    def up_compose_in():
      if s.element is not None:
        s.value @= s.amp + s.element
        s.element = None
      else:
        s.value @= {idle}
    s.add_constraints(M(s.push) < U(up_compose_in), U(up_compose_in) < M(s.pull))
  @method_port
  def push(s, ele):
    if s.element is None:
      s.element = ele
  @method_port
  def pull(s):
    return s.value
  def line_trace(s):
    return ""
'''


def gen_open(c, uid):
  hi, lo = c.randint(1, 9), c.randint(1, 12)
  w = hi + lo
  return {"uid": uid, "hi": hi, "lo": lo, "w": w, "nacc": c.randint(1, 3), "inc": c.randrange(1, 1 << min(w, 6)),
          "mul": c.randint(2, min(9, (1 << w) - 1)), "idle": c.randrange(1 << w), "tied": c.randrange(1 << lo),
          "calls": [["push", c.randrange(1 << w)] if c.random() < 0.5 else ["pull"] for _ in range(c.randint(6, 30))]}


def run_open(case):
  """VCD + text wave under the open-loop scheduler (OpenLoopCLPass): cycles roll over inside method calls"""
  import random
  from ..gen import emit
  from pymtl3 import Bits1  # noqa: F401

  def get_nbits(T):
    if hasattr(T, "nbits"):
      return T.nbits
    n = 0
    for f in T.__dataclass_fields__.values() if hasattr(T, "__dataclass_fields__") else T.__bitstruct_fields__.values():
      ft = f.type if hasattr(f, "type") else f
      n += sum(get_nbits(ft[0]) for _ in range(len(ft))) if isinstance(ft, list) else get_nbits(ft)
    return n
  from pymtl3.dsl import Signal
  from pymtl3.passes.autotick.OpenLoopCLPass import OpenLoopCLPass
  from pymtl3.passes.sim.GenDAGPass import GenDAGPass
  from pymtl3.passes.tracing.PrintTextWavePass import PrintTextWavePass
  from pymtl3.passes.tracing.VcdGenerationPass import VcdGenerationPass
  t = case["tmpl"]
  D = _rng.Digest()
  stats = {"fault_counts": {"sched.openloop": 1}, "sim_cycles": 0, "vcd_bytes": 0,
           "probes": {"shared_net_top_members": 1, "struct_signals": 1, "openloop_rollovers": 0}}
  fs = seams.FakeFS()
  viols = []
  seams.set_hash_stream(case["hash_seed"])
  try:
    with seams.patched(MOD, open=fs.open):
      mod = sys.modules[MOD]
      real_time = mod.time

      class _T:
        @staticmethod
        def asctime():
          return "Thu Jan  1 00:00:00 1970"
      mod.time = _T
      try:
        ns, cls, _ = emit.build({"uid": t["uid"], "top": "Top"}, src=OPEN_SRC.format(**t))
        top = cls()
        top.elaborate()
        top.set_metadata(VcdGenerationPass.vcd_file_name, "dsim_wave")
        top.set_metadata(PrintTextWavePass.enable, True)
        top.apply(GenDAGPass())
        seams.seed_dag_order(top, random.Random(case["sched"][1]))
        random.seed(case["sched"][1])
        top.apply(OpenLoopCLPass(print_line_trace=False))
      finally:
        mod.time = real_time
  except Exception as e:
    return {"violations": [C.exc_violation(e, "build/openloop")], "digest": D.hex(), "nontrivial": False, "stats": stats}
  sigs = sorted((x for x in top._dsl.all_signals if x.is_top_level_signal()), key=repr)
  keys = [repr(x) for x in sigs]
  widths = {repr(x): get_nbits(x._dsl.Type) for x in sigs}
  acc = cosim.Accessors(top, keys)
  smp = DumpSampler(acc)
  changed_cycles = {}
  try:
    sys.setprofile(smp.prof)
    try:
      top.sim_reset()
      for call in case["calls"]:
        c0 = top.sim_cycle_count()
        if call[0] == "push":
          top.push(call[1])
        else:
          D.add(int(top.pull()))
        if top.sim_cycle_count() != c0:
          stats["probes"]["openloop_rollovers"] += 1
    finally:
      sys.setprofile(None)
    text = fs.current("dsim_wave.vcd")
    stats["vcd_bytes"] = len(text)
    ncyc = len(smp.samples)
    stats["sim_cycles"] = ncyc
    if ncyc != 2 + stats["probes"]["openloop_rollovers"]:
      viols.append(C.viol("dump_call_count", {"got": ncyc, "want": 2 + stats["probes"]["openloop_rollovers"],
                                              "mode": "open-loop"}))
    bad = check_vcd(text, smp.samples, widths, keys, ncyc)
    if bad:
      viols.append(C.viol(bad[0], dict(bad[1], sched="openloop")))
    tw = top.get_metadata(PrintTextWavePass.textwave_dict)
    for k, lst in sorted(tw.items()):
      if viols:
        break
      if len(lst) != ncyc:
        viols.append(C.viol("textwave_length", {"signal": k, "got": len(lst), "want": ncyc, "sched": "openloop"}))
        break
      for i in range(ncyc):
        want = "0b" + format(smp.samples[i][k], "0%db" % widths[k])
        if lst[i] != want:
          viols.append(C.viol("textwave_value", {"signal": k, "cycle": i, "got": lst[i], "want": want, "sched": "openloop"}))
          break
    for i in range(1, ncyc):
      for k, v in smp.samples[i].items():
        if v != smp.samples[i - 1][k]:
          changed_cycles.setdefault(k, set()).add(i)
    D.add(_rng.digest(text))
  except Exception as e:
    viols.append(C.exc_violation(e, "sim/openloop"))
  multi = sum(1 for k, s in changed_cycles.items() if len(s) >= 2 and not k.endswith(".clk"))
  return {"violations": viols[:2], "digest": D.hex(), "nontrivial": multi >= 1, "stats": stats}


MSG_SRC = '''
from pymtl3 import *
from pymtl3.stdlib.mem import mk_mem_msg

Req_{uid}, Resp_{uid} = mk_mem_msg(8, 32, 32)

@bitstruct
class Hid_{uid}:
  a: Bits4
  b: Bits8
  def __str__(s):
    return "%s" % s.a

class Stage_{uid}(Component):
  def construct(s):
    s.in_ = InPort(Req_{uid})
    s.out = OutPort(Req_{uid})
    s.h_in = InPort(Hid_{uid})
    s.h_out = OutPort(Hid_{uid})
    # short signal names (any name is legal; some are fragments of "clk" / "reset")
    s.set = InPort(Bits1)
    s.e = Wire(Bits1)
    s.t = Wire(Bits4)
    s.res = OutPort(Bits4)
    s.lk = Wire(Bits1)
    @update_ff
    def up_stage():
      s.out <<= s.in_
      s.h_out <<= s.h_in
      s.e <<= s.set
      s.t <<= s.h_in.a
    @update
    def up_res():
      s.res @= s.t ^ zext(s.e, 4)
      s.lk @= ~s.e

class Top_{uid}(Component):
  def construct(s):
    s.req = InPort(Req_{uid})
    s.h = InPort(Hid_{uid})
    s.out = OutPort(Req_{uid})
    s.h_out = OutPort(Hid_{uid})
    s.st = [Stage_{uid}() for _ in range({n})]
    s.st[0].in_ //= s.req
    s.st[0].h_in //= s.h
    s.set = InPort(Bits1)
    for i in range({n}):
      s.st[i].set //= s.set
    for i in range({n} - 1):
      s.st[i + 1].in_ //= s.st[i].out
      s.st[i + 1].h_in //= s.st[i].h_out
    s.out //= s.st[{n} - 1].out
    s.h_out //= s.st[{n} - 1].h_out
'''


def gen_msg(c, uid):
  """signals whose type has a user-written __str__ that hides a field (the stdlib memory messages blank `data`
  for reads): consecutive cycles often differ ONLY in the hidden field"""
  seq = []
  cur = [c.choice([0, 1]), c.randrange(256), c.randrange(1 << 32), c.randrange(4), c.getrandbits(32)]
  h = [c.randrange(16), c.randrange(256)]
  for _ in range(c.randint(6, 24)):
    r = c.random()
    if r < 0.5:
      cur = cur[:4] + [c.getrandbits(32)]                 # only the data field changes
    elif r < 0.75:
      cur = [c.choice([0, 0, 1, 6]), c.randrange(256), c.randrange(1 << 32), c.randrange(4), c.getrandbits(32)]
    if c.random() < 0.6:
      h = [h[0], c.randrange(256)]                        # only the hidden field changes
    elif c.random() < 0.5:
      h = [c.randrange(16), c.randrange(256)]
    seq.append([list(cur), list(h)])
  return {"uid": uid, "n": c.randint(1, 3), "seq": seq}


def run_msg(case):
  from ..gen import emit
  from pymtl3 import Bits1
  from pymtl3.passes.PassGroups import DefaultPassGroup
  from pymtl3.passes.tracing.PrintTextWavePass import PrintTextWavePass
  t = case["tmpl"]
  D = _rng.Digest()
  stats = {"fault_counts": {"sched.default": 1, "config.custom_str_struct": 1}, "sim_cycles": 0, "vcd_bytes": 0,
           "probes": {"shared_net_top_members": 1, "struct_signals": 1, "only_hidden_field_changed": 0}}
  fs = seams.FakeFS()
  viols = []
  seams.set_hash_stream(case["hash_seed"])
  try:
    with seams.patched(MOD, open=fs.open):
      mod = sys.modules[MOD]
      real_time = mod.time

      class _T:
        @staticmethod
        def asctime():
          return "Thu Jan  1 00:00:00 1970"
      mod.time = _T
      try:
        ns, cls, _ = emit.build({"uid": t["uid"], "top": "Top"}, src=MSG_SRC.format(uid=t["uid"], n=t["n"]))
        top = cls()
        top.elaborate()
        top.apply(DefaultPassGroup(vcdwave="dsim_wave", textwave=True))
      finally:
        mod.time = real_time
  except Exception as e:
    return {"violations": [C.exc_violation(e, "build/msg")], "digest": D.hex(), "nontrivial": False, "stats": stats}
  Req, Hid = ns["Req_" + t["uid"]], ns["Hid_" + t["uid"]]
  sigs = sorted((x for x in top._dsl.all_signals if x.is_top_level_signal()), key=repr)
  keys = [repr(x) for x in sigs]
  widths = {repr(x): (x._dsl.Type.nbits if hasattr(x._dsl.Type, "nbits") else len(x._dsl.Type().to_bits())) for x in sigs}
  # widths of struct types from their field declarations (independent of to_bits)
  for x in sigs:
    T = x._dsl.Type
    if T is Req:
      widths[repr(x)] = 4 + 8 + 32 + 2 + 32
    elif T is Hid:
      widths[repr(x)] = 12
  smp = DumpSampler(cosim.Accessors(top, keys))
  changed_cycles = {}
  try:
    sys.setprofile(smp.prof)
    try:
      top.sim_reset()
      prev = None
      for cur, h in t["seq"]:
        top.req @= Req(*cur)
        top.h @= Hid(*h)
        top.set @= Bits1(h[1] & 1)
        if prev is not None and prev[0][:4] == cur[:4] and prev[0][4] != cur[4]:
          stats["probes"]["only_hidden_field_changed"] += 1
        prev = (cur, h)
        top.sim_tick()
    finally:
      sys.setprofile(None)
    text = fs.current("dsim_wave.vcd")
    stats["vcd_bytes"] = len(text)
    ncyc = len(smp.samples)
    stats["sim_cycles"] = ncyc
    if ncyc != 3 + len(t["seq"]):
      viols.append(C.viol("dump_call_count", {"got": ncyc, "want": 3 + len(t["seq"]), "mode": "msg"}))
    bad = check_vcd(text, smp.samples, widths, keys, ncyc)
    if bad:
      viols.append(C.viol(bad[0], dict(bad[1], sched="default", family="msg")))
    tw = top.get_metadata(PrintTextWavePass.textwave_dict)
    want_tw = {k for k in keys if not k.endswith((".clk", ".reset"))} | {"s.reset"}
    if not viols and set(tw) != want_tw:
      viols.append(C.viol("textwave_signal_set", {"missing": sorted(want_tw - set(tw))[:5],
                                                  "extra": sorted(set(tw) - want_tw)[:5], "family": "msg"}))
    for k, lst in sorted(tw.items()):
      if viols:
        break
      for i in range(min(ncyc, len(lst))):
        want = "0b" + format(smp.samples[i][k], "0%db" % widths[k])
        if lst[i] != want:
          viols.append(C.viol("textwave_value", {"signal": k, "cycle": i, "got": lst[i], "want": want, "family": "msg"}))
          break
    for i in range(1, ncyc):
      for k, v in smp.samples[i].items():
        if v != smp.samples[i - 1][k]:
          changed_cycles.setdefault(k, set()).add(i)
    D.add(_rng.digest(text))
  except Exception as e:
    viols.append(C.exc_violation(e, "sim/msg"))
  multi = sum(1 for k, s in changed_cycles.items() if len(s) >= 2 and not k.endswith(".clk"))
  return {"violations": viols[:2], "digest": D.hex(), "nontrivial": multi >= 1, "stats": stats}


class DumpSampler:
  def __init__(self, acc):
    self.acc = acc
    self.samples = []

  def prof(self, frame, event, arg):
    if event == "call" and frame.f_code.co_name == "dump_vcd":
      self.samples.append(self.acc.snapshot())


def vcd_key(scope, name):
  """('top','m0(1)'), 'w0(2)' -> 's.m0[1].w0[2]'"""
  parts = ["s"] + [p.replace("(", "[").replace(")", "]") for p in scope[1:]]
  return ".".join(parts) + "." + name.replace("(", "[").replace(")", "]")


def check_vcd(text, samples, widths, all_keys, ncycles):
  """-> violation detail dict or None."""
  try:
    v = Vcd(text)
  except VcdError as e:
    return ("vcd_syntax", {"error": str(e)})
  got = {}
  for (scope, name), (w, sym) in v.vars.items():
    if not scope or scope[0] != "top":
      return ("vcd_scope", {"scope": scope})
    got[vcd_key(scope, name)] = (w, sym)
  want_keys = set(all_keys)
  if set(got) != want_keys:
    return ("vcd_var_set", {"missing": sorted(want_keys - set(got))[:5], "extra": sorted(set(got) - want_keys)[:5]})
  for k, (w, sym) in got.items():
    if w != widths[k]:
      return ("vcd_var_width", {"signal": k, "got": w, "want": widths[k]})
  clk = got["s.clk"][1]
  for t in range(ncycles):
    if v.value_at(clk, 100 * t) != 1 or v.value_at(clk, 100 * t + 50) != 0 or \
       v.n_changes(clk, 100 * t, 100 * t + 99) != 2:
      return ("vcd_clock", {"cycle": t, "at_edge": v.value_at(clk, 100 * t), "at_half": v.value_at(clk, 100 * t + 50),
                            "changes": v.n_changes(clk, 100 * t, 100 * t + 99)})
    smp = samples[t]
    for k, (w, sym) in got.items():
      if k.endswith(".clk"):
        continue
      val = v.value_at(sym, 100 * t)
      if val != smp[k]:
        return ("vcd_value", {"cycle": t, "signal": k, "vcd": val, "simulator": smp[k]})
  # initial values: type defaults (all zero) before time 0
  for k, (w, sym) in got.items():
    if not k.endswith(".clk") and v.value_at(sym, -1) != 0:
      return ("vcd_initial_value", {"signal": k, "vcd": v.value_at(sym, -1)})
  return None


def run_case(case):
  from pymtl3.passes.tracing.PrintTextWavePass import PrintTextWavePass
  if case.get("family") == "msg":
    return run_msg(case)
  if case.get("family") == "openloop":
    return run_open(dict(case, calls=case["calls"] if case.get("calls") is not None else case["tmpl"]["calls"]))
  spec = case["spec"]
  sched, sseed = case["sched"]
  D = _rng.Digest()
  stats = {"fault_counts": {"sched." + sched: 1}, "sim_cycles": 0, "vcd_bytes": 0,
           "probes": {"shared_net_top_members": 0, "struct_signals": int(bool(spec["structs"]))}}
  fs = seams.FakeFS()
  viols = []
  try:
    with seams.patched(MOD, open=fs.open):
      import time as _time
      mod = sys.modules[MOD]
      real_time = mod.time

      class _T:
        @staticmethod
        def asctime():
          return "Thu Jan  1 00:00:00 1970"
      mod.time = _T
      try:
        sim = C.Sim(spec, sched, sseed, case["hash_seed"], vcd="dsim_wave", textwave=True)
        sim2 = None
        if case.get("coresident"):
          sim2 = C.Sim(spec, sched, sseed ^ 1, case["hash_seed"] + 1, vcd="dsim_wave_b", textwave=True)
          stats["fault_counts"]["config.coresident_vcd_simulator"] = 1
      finally:
        mod.time = real_time
  except Exception as e:
    return {"violations": [C.exc_violation(e, "build/%s" % sched)], "digest": D.hex(), "nontrivial": False,
            "stats": stats}
  top, ref, acc = sim.top, sim.ref, sim.acc
  # accessors for clk as well (reset is in ref.state already)
  keys = list(ref.state) + [inst.prefix + ".clk" for inst in ref.insts]
  acc = cosim.Accessors(top, keys)
  widths = dict(ref.widths)
  for inst in ref.insts:
    widths[inst.prefix + ".clk"] = 1
  for writer, net in top.get_all_value_nets():
    if sum(1 for x in net if hasattr(x, "is_top_level_signal") and x.is_signal() and x.is_top_level_signal()) >= 2 \
       and "clk" not in repr(writer) and "reset" not in repr(writer):
      stats["probes"]["shared_net_top_members"] += 1
  smp = DumpSampler(acc)
  fname = "dsim_wave.vcd"
  changed_cycles = {}
  try:
    sys.setprofile(smp.prof)
    try:
      if sim2 is not None:
        sys.setprofile(None)
        sim2.top.sim_reset()
        sys.setprofile(smp.prof)
      top.sim_reset()
      for t, st in enumerate(case["inputs"]):
        if sim2 is not None:
          # the other simulator gets complemented inputs and ticks first
          sys.setprofile(None)
          wd = C.input_widths(spec)
          sim2.set_inputs({"in": {k: (~v) & ((1 << wd[k]) - 1) for k, v in st["in"].items()}, "reset": 0})
          sim2.top.sim_eval_combinational()
          sim2.top.sim_tick()
          sys.setprofile(smp.prof)
        sim.set_inputs(st, stats["fault_counts"])
        for _ in range(st.get("dup_eval", 1)):
          top.sim_eval_combinational()
        if st.get("dup_eval"):
          stats["fault_counts"]["dup.eval"] = stats["fault_counts"].get("dup.eval", 0) + 1
        top.sim_tick()
        stats["sim_cycles"] += 1
        if t in case["stops"]:
          stats["fault_counts"]["stop.at"] = stats["fault_counts"].get("stop.at", 0) + 1
          sys.setprofile(None)
          bad = check_vcd(fs.current(fname), smp.samples, widths, keys, len(smp.samples))
          sys.setprofile(smp.prof)
          if bad:
            viols.append(C.viol(bad[0], dict(bad[1], at_stop=t, sched=sched)))
            break
    finally:
      sys.setprofile(None)
    if not viols:
      text = fs.current(fname)
      stats["vcd_bytes"] = len(text)
      ncyc = len(smp.samples)
      if ncyc != 3 + len(case["inputs"]):
        viols.append(C.viol("dump_call_count", {"got": ncyc, "want": 3 + len(case["inputs"])}))
      bad = check_vcd(text, smp.samples, widths, keys, ncyc)
      if bad:
        viols.append(C.viol(bad[0], dict(bad[1], sched=sched)))
      # text wave
      tw = top.get_metadata(PrintTextWavePass.textwave_dict)
      for k, lst in tw.items():
        if len(lst) != ncyc:
          viols.append(C.viol("textwave_length", {"signal": k, "got": len(lst), "want": ncyc}))
          break
        for t in range(ncyc):
          want = "0b" + format(smp.samples[t][k], "0%db" % widths[k])
          if lst[t] != want:
            viols.append(C.viol("textwave_value", {"signal": k, "cycle": t, "got": lst[t], "want": want}))
            break
        if viols:
          break
      want_tw = {k for k in ref.state if not k.endswith(".reset")} | {"s.reset"}
      if not viols and set(tw) != want_tw:
        viols.append(C.viol("textwave_signal_set", {"missing": sorted(want_tw - set(tw))[:5],
                                                    "extra": sorted(set(tw) - want_tw)[:5]}))
      for t in range(1, ncyc):
        for k, v in smp.samples[t].items():
          if v != smp.samples[t - 1][k]:
            changed_cycles.setdefault(k, set()).add(t)
      D.add(_rng.digest(text))
  except Exception as e:
    viols.append(C.exc_violation(e, "sim/%s" % sched))
  multi = sum(1 for k, s in changed_cycles.items() if len(s) >= 2 and not k.endswith(".clk"))
  return {"violations": viols[:2], "digest": D.hex(),
          "nontrivial": multi >= 1 and stats["probes"]["shared_net_top_members"] >= 1, "stats": stats}


def sample(case):
  from ..gen import emit
  if case.get("family") == "msg":
    return {"family": "msg", "n": case["tmpl"]["n"], "seq_head": case["tmpl"]["seq"][:6]}
  if case.get("family") == "openloop":
    return {"family": "openloop", "calls": case["tmpl"]["calls"][:8], "source_head": OPEN_SRC.format(**case["tmpl"])[:1200]}
  return {"profile": case["spec"].get("profile"), "sched": case["sched"], "stops": case["stops"],
          "n_cycles": len(case["inputs"]), "source_head": emit.source(case["spec"])[:1200]}


def shrink(case):
  if case.get("family") == "msg":
    seq = case["tmpl"]["seq"]
    for i in range(len(seq)):
      yield dict(case, tmpl=dict(case["tmpl"], seq=seq[:i] + seq[i + 1:]))
    if case["tmpl"]["n"] > 1:
      yield dict(case, tmpl=dict(case["tmpl"], n=1))
    return
  if case.get("family") == "openloop":
    calls = case["calls"] if case.get("calls") is not None else case["tmpl"]["calls"]
    for i in range(len(calls)):
      yield dict(case, calls=calls[:i] + calls[i + 1:])
    if case["tmpl"]["nacc"] > 1:
      yield dict(case, tmpl=dict(case["tmpl"], nacc=1))
    return
  for cand in C.shrink_spec_case(case, keep_sched_key="_none"):
    cand = dict(cand)
    cand["stops"] = [s for s in case["stops"] if s < len(cand["inputs"])]
    yield cand
