"""Shared pieces of the DesignSpec-based engines (C01 C02 C07 C11 C16)."""
import copy
import traceback

from ..core import rng as _rng, seams
from ..gen import cosim, designgen, emit
from ..gen.refmodel import NotConverged, Ref

ALL_SCHEDS = ("default", "simple", "unroll", "heutopo", "mamba",
              "default_s2", "simple_s2", "unroll_s2", "heutopo_s2", "mamba_s2",
              "forced", "adversarial", "forced_unroll")
CYCLIC_SCHEDS = ("default", "mamba", "default_s2", "mamba_s2")


def viol(check, detail=None, **sig):
  s = {"check": check}
  s.update(sig)
  return {"check": check, "sig": s, "detail": detail or {}}


def exc_violation(e, where):
  tb = traceback.format_exc()
  return viol("exception_on_legal_design",
              {"where": where, "exc": "%s: %s" % (type(e).__name__, str(e)[:400]), "tb": tb[-1500:]},
              exc=type(e).__name__)


def gen_faults(seq, rng, kinds, widths):
  """Decorate an input sequence with seeded faults (in place)."""
  for st in seq:
    if "glitch.input" in kinds and rng.random() < 0.25:
      st["glitch"] = {k: [rng.getrandbits(widths[k]) for _ in range(rng.randint(1, 2))]
                      for k in st["in"] if rng.random() < 0.5}
    if "dup.eval" in kinds and rng.random() < 0.2:
      st["dup_eval"] = rng.randint(2, 3)
    if "dup.block" in kinds and rng.random() < 0.3:
      st["dup_block"] = rng.getrandbits(30)
    if "restart.reset" in kinds and rng.random() < 1 / 12:
      st["reset"] = 1
  return seq


def input_widths(spec):
  from ..gen.spec import tbits
  out = {}
  for sg in spec["comps"][spec["top"]]["signals"]:
    if sg["kind"] == "in":
      w = tbits(spec, sg["type"])
      if sg["dims"]:
        for i in range(sg["dims"][0]):
          out["s.%s[%d]" % (sg["name"], i)] = w
      else:
        out["s.%s" % sg["name"]] = w
  return out


class Sim:
  """One PyMTL instance of a spec under one scheduler, next to a Ref."""

  def __init__(self, spec, sched, sched_seed, hash_seed, vcd=None, textwave=False, ff_perm_seed=None):
    from ..sched import harness
    self.spec = spec
    seams.set_hash_stream(hash_seed)
    self.top, self.ns, self.src = cosim.build_top(spec)
    self.info = harness.prepare(self.top, sched, sched_seed, vcd=vcd, textwave=textwave,
                                ff_perm_seed=ff_perm_seed)
    self.ref = Ref(spec)
    keys = [k for k in self.ref.state]
    self.acc = cosim.Accessors(self.top, keys)

  def reset(self):
    self.top.sim_reset()
    r = self.ref
    r.set_input("s.reset", 1)
    r.eval_comb()
    r.tick()
    r.tick()
    r.tick()
    r.set_input("s.reset", 0)
    r.eval_comb()

  def set_inputs(self, st, faults=None):
    from pymtl3 import Bits1
    top, ns, ref = self.top, self.ns, self.ref
    for k, vs in st.get("glitch", {}).items():
      for v in vs:
        cosim.write_input(top, ns, ref, k, v)
        if faults is not None:
          faults["glitch.input"] = faults.get("glitch.input", 0) + 1
    for k, v in st["in"].items():
      cosim.write_input(top, ns, ref, k, v)
      ref.set_input(k, v)
    top.reset @= Bits1(st.get("reset", 0))
    ref.set_input("s.reset", st.get("reset", 0))
    if st.get("reset") and faults is not None:
      faults["restart.reset"] = faults.get("restart.reset", 0) + 1

  def sched_names(self):
    try:
      return [getattr(b, "__name__", "?") for b in self.top._sched.update_schedule]
    except Exception:
      return []


def shrink_spec_case(case, keep_sched_key="scheds"):
  """Generic candidates for cases of the form {"spec":..., "inputs":[...], ...}.
  Cheapest and most effective reductions first: one scheduler, a short input prefix, then
  delta-debugging over the items of each component (halves, quarters, ..., singles)."""
  seq = case["inputs"]
  if keep_sched_key in case and len(case[keep_sched_key]) > 1:
    for i in range(len(case[keep_sched_key])):
      yield dict(case, **{keep_sched_key: [case[keep_sched_key][i]]})
  # prefixes of the input sequence (most violations show within the first cycles)
  for n in (1, 2, 3, 5, 8):
    if n < len(seq):
      yield dict(case, inputs=seq[:n])
  k = len(seq)
  while k > 1:
    k //= 2
    for a in range(0, len(seq), k):
      cand_seq = seq[:a] + seq[a + k:]
      if cand_seq:
        yield dict(case, inputs=cand_seq)
  # strip fault decorations
  for i, st in enumerate(seq):
    for key in ("glitch", "dup_eval", "dup_block"):
      if key in st:
        s2 = {kk: vv for kk, vv in st.items() if kk != key}
        yield dict(case, inputs=seq[:i] + [s2] + seq[i + 1:])
  # delta-debug the items of each component (late components first)
  spec = case["spec"]
  for cname in reversed(list(spec["comps"])):
    items = spec["comps"][cname]["items"]
    n = len(items)
    k = n
    while k >= 1:
      k2 = max(1, k // 2)
      for a in range(0, n, k2):
        sp2 = copy.deepcopy(spec)
        del sp2["comps"][cname]["items"][a:a + k2]
        if len(sp2["comps"][cname]["items"]) < n:
          yield dict(case, spec=sp2)
      if k2 == 1:
        break
      k = k2
  # drop sub-component instances that nothing refers to any more, and unused child classes
  for cname in list(spec["comps"]):
    cd = spec["comps"][cname]
    for j, sb in enumerate(cd["subs"]):
      used = any(("'%s'" % sb["name"]) in repr(it) for it in cd["items"])
      if not used:
        sp2 = copy.deepcopy(spec)
        del sp2["comps"][cname]["subs"][j]
        yield dict(case, spec=sp2)
  for cname in list(spec["comps"]):
    if cname != spec["top"] and not any(cname in (sb.get("cls_list") or [sb["cls"]])
                                        for cd in spec["comps"].values() for sb in cd["subs"]):
      sp2 = copy.deepcopy(spec)
      del sp2["comps"][cname]
      yield dict(case, spec=sp2)
  # drop statements inside flip-flop blocks (a register may hold); in combinational blocks
  # dropping a statement could remove a default assignment and create a latch, so there an
  # `if` is only ever replaced by one of its branches
  for cname in spec["comps"]:
    items = spec["comps"][cname]["items"]
    for j, it in enumerate(items):
      if it["k"] == "ff" and len(it["stmts"]) > 1:
        for q in range(len(it["stmts"]) - 1, -1, -1):
          sp2 = copy.deepcopy(spec)
          del sp2["comps"][cname]["items"][j]["stmts"][q]
          yield dict(case, spec=sp2)
      if it["k"] == "comb":
        for q, st in enumerate(it["stmts"]):
          if st[0] == "if":
            for branch in (st[2], st[3]):
              if branch:
                sp2 = copy.deepcopy(spec)
                sp2["comps"][cname]["items"][j]["stmts"][q:q + 1] = copy.deepcopy(branch)
                yield dict(case, spec=sp2)
  # replace an assigned expression by one of its sub-expressions of the same width
  from ..gen.spec import width as _w
  for cname in spec["comps"]:
    items = spec["comps"][cname]["items"]
    for j, it in enumerate(items):
      if it["k"] in ("comb", "ff"):
        for q, st in enumerate(it["stmts"]):
          if st[0] == "assign":
            e = st[2]
            we = _w(e)
            for sub in _subexprs(e):
              if sub is not e and _w(sub) == we and we is not None:
                sp2 = copy.deepcopy(spec)
                sp2["comps"][cname]["items"][j]["stmts"][q][2] = copy.deepcopy(sub)
                yield dict(case, spec=sp2)
                break
      elif it["k"] == "lambda":
        e = it["e"]
        for sub in _subexprs(e):
          if sub is not e and _w(sub) == _w(e):
            sp2 = copy.deepcopy(spec)
            sp2["comps"][cname]["items"][j]["e"] = copy.deepcopy(sub)
            yield dict(case, spec=sp2)
            break


def _subexprs(e):
  from ..gen.spec import walk_exprs
  out = [x for x in walk_exprs(e) if x[0] not in ("int", "lv") and not (x[0] == "rd" and len(x) > 3)]
  return out[1:]


def shape_probes(spec):
  """'this rare shape was generated' probes (0/1 per design), summed into the evidence"""
  from ..gen.spec import walk_exprs, walk_stmts
  P = {"shape.helper_functions": 0, "shape.helper_shared_by_blocks": 0, "shape.runtime_base_part_select": 0,
       "shape.nonfinal_variable_index": 0, "shape.component_list_2d": 0, "shape.chained_temporaries": 0,
       "shape.delay_line_register_list": 0, "shape.whole_then_piece_write": 0, "shape.prefix_field_names": 0}
  for sn, fields in spec.get("structs", {}).items():
    names = [f[0] for f in fields]
    if any(a != b and b.startswith(a) for a in names for b in names):
      P["shape.prefix_field_names"] = 1
  for cd in spec["comps"].values():
    if cd.get("funcs"):
      P["shape.helper_functions"] = 1
    if any(len(sb["dims"]) > 1 for sb in cd["subs"]):
      P["shape.component_list_2d"] = 1
    callers = {}
    for it in cd["items"]:
      if it["k"] == "ff" and it["name"].startswith("ffd"):
        P["shape.delay_line_register_list"] = 1
      if it["k"] not in ("comb", "ff"):
        continue
      whole = set()
      for st in walk_stmts(it["stmts"]):
        exprs = []
        if st[0] == "assign":
          exprs.append(st[2])
          key = repr(st[1])
          if any(key.startswith(w[:-1]) and key != w for w in whole):
            P["shape.whole_then_piece_write"] = 1
          whole.add(key)
        elif st[0] == "tmp":
          exprs.append(st[2])
          if len(st) > 3:
            P["shape.chained_temporaries"] = 1
        elif st[0] == "if":
          exprs.append(st[1])
        for e in exprs:
          for x in walk_exprs(e):
            if x[0] == "vslice":
              P["shape.runtime_base_part_select"] = 1
            elif x[0] == "fcall":
              callers.setdefault(x[1], set()).add(it["name"])
            elif x[0] == "rd" and any(s_[0] == "vi" for s_ in x[1][:-1]):
              P["shape.nonfinal_variable_index"] = 1
    if any(len(v) >= 2 for v in callers.values()):
      P["shape.helper_shared_by_blocks"] = 1
  return P
