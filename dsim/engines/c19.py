"""C19 - round-robin arbiters grant exactly one requester, fairly.

Workload: RoundRobinArbiter / RoundRobinArbiterEn, nreqs 2..9, seeded request /
enable histories biased to the interesting shapes, mid-run resets, glitching
inputs, duplicate evaluations, every scheduler.
Oracle: one-hot pointer model + history check of the fairness window.
"""
from ..core import rng as _rng, seams
from ..models.arbiter import RRModel

ID = "C19"
LEVEL = "exploration"
RULE = ("case = (arbiter class, nreqs 2..9, scheduler incl. seeded S2 variants and forced/adversarial "
        "linear extensions, seeded object-hash stream, 20..80 cycles of reqs/en with mid-run resets, "
        "input glitches and duplicate evaluations; in 4 of 7 cases the arbiter is a sub-component of a design "
        "with 0..3 registers of its own); non-trivial = at least one fault kind fired and at "
        "least 3 granting cycles with >=2 simultaneous requesters; distinct = distinct case digest")
TIERS = {"quick": {"runs": 3200, "budget_s": 90}, "thorough": {"runs": 400000, "budget_s": 900}}
REAL = ["pymtl3.stdlib.basic_rtl.arbiters.RoundRobinArbiter(En)", "RegEnRst", "all five pass groups",
        "GenDAGPass", "PrepareSimPass/UnrollSimPass"]
STUB = ["request/enable driver", "one-hot pointer reference model"]
ASSUMPTIONS = ["reset is held for whole cycles", "inputs change only between evaluations"]

SCHEDS = ("default", "simple", "unroll", "heutopo", "mamba",
          "default_s2", "simple_s2", "unroll_s2", "heutopo_s2", "mamba_s2",
          "forced", "adversarial", "forced_unroll")


def gen_case(R, tier):
  c = R("case")
  n = c.choice([2, 2, 3, 3, 4, 5, 6, 7, 8, 9])
  has_en = c.random() < 0.5
  ncyc = c.randint(20, 80)
  inp = R("input")
  flt = R("fault")
  kinds = {k for k in ("restart.reset", "glitch.input", "dup.eval") if flt.random() < 0.6}
  full = (1 << n) - 1
  steps = []
  mode = "rand"
  hold = 0
  for t in range(ncyc):
    if hold == 0:
      mode = inp.choice(["rand", "all", "single", "behind", "ahead", "none", "sticky"])
      hold = inp.randint(1, 2 * n)
      sticky = inp.randrange(n)
    hold -= 1
    if mode == "rand":
      reqs = inp.getrandbits(n)
    elif mode == "all":
      reqs = full
    elif mode == "single":
      reqs = 1 << inp.randrange(n)
    elif mode == "none":
      reqs = 0
    elif mode == "sticky":
      reqs = (1 << sticky) | inp.getrandbits(n)
    else:
      reqs = None  # resolved at run time relative to the model pointer
    st = {"reqs": reqs, "mode": mode, "en": 1 if inp.random() < 0.7 else 0, "reset": 0}
    if "restart.reset" in kinds and flt.random() < 1 / 15:
      st["reset"] = 1
    if "glitch.input" in kinds and flt.random() < 0.2:
      st["glitch"] = [inp.getrandbits(n) for _ in range(inp.randint(1, 3))]
    if "dup.eval" in kinds and flt.random() < 0.2:
      st["dup_eval"] = inp.randint(2, 3)
    steps.append(st)
  return {"cls": "RoundRobinArbiterEn" if has_en else "RoundRobinArbiter", "nreqs": n,
          "sched": c.choice(SCHEDS), "sched_seed": c.getrandbits(32),
          "hash_seed": R.sub_seed("hash"), "steps": steps,
          # the arbiter as a sub-component of a design that has 0..3 flip-flops of its own next to it
          "wrap": R("wrap").choice([None, None, None, 0, 1, 2, 3])}


def _viol(check, t, **kw):
  return {"check": check, "sig": {"check": check}, "detail": dict(cycle=t, **kw)}


def make_wrapper(arb_cls, n, has_en, nregs):
  from pymtl3 import Component, InPort, OutPort, Wire, mk_bits, Bits1, update_ff

  class ArbWrap(Component):
    def construct(s):
      T = mk_bits(n)
      s.reqs = InPort(T)
      s.grants = OutPort(T)
      s.arb = arb_cls(n)
      s.arb.reqs //= s.reqs
      s.grants //= s.arb.grants
      if has_en:
        s.en = InPort(Bits1)
        s.arb.en //= s.en
      s.hist = [Wire(T) for _ in range(nregs)]
      if nregs:
        @update_ff
        def up_hist():
          s.hist[0] <<= s.arb.grants
          for i in range(nregs - 1):
            s.hist[i + 1] <<= s.hist[i]
  return ArbWrap()


def run_case(case):
  from pymtl3 import Bits1, mk_bits
  from pymtl3.stdlib.basic_rtl import arbiters
  from ..sched import harness

  seams.set_hash_stream(case["hash_seed"])
  n = case["nreqs"]
  has_en = case["cls"] == "RoundRobinArbiterEn"
  T = mk_bits(n)
  try:
    if case.get("wrap") is None:
      top = getattr(arbiters, case["cls"])(n)
    else:
      top = make_wrapper(getattr(arbiters, case["cls"]), n, has_en, case["wrap"])
    top.elaborate()
    harness.prepare(top, case["sched"], case["sched_seed"])
    top.sim_reset()
  except Exception as e:
    # every scheduler of the list must accept the arbiter at every legal nreqs (static ones need its blocks acyclic)
    from . import common_rtl as C
    v = C.exc_violation(e, "build/%s/%s" % (case["cls"], case["sched"]))
    v["sig"] = dict(v["sig"], sched=case["sched"].split("_")[0])
    return {"violations": [v], "digest": _rng.Digest().hex(), "nontrivial": False,
            "stats": {"fault_counts": {"sched." + case["sched"]: 1}}}
  m = RRModel(n, has_en)
  D = _rng.Digest()
  viol = []
  faults = {"restart.reset": 0, "glitch.input": 0, "dup.eval": 0, "sched." + case["sched"]: 1}
  wait = [0] * n
  contended = 0
  full = (1 << n) - 1

  for t, st in enumerate(case["steps"]):
    reqs = st["reqs"]
    if reqs is None:
      if st["mode"] == "behind":
        reqs = 1 << ((m.ptr - 1) % n)
      else:
        reqs = 1 << ((m.ptr + 1) % n)
      reqs |= 0 if (t % 3) else (1 << m.ptr)
    reqs &= full
    en = st["en"] if has_en else 1
    for g in st.get("glitch", ()):
      top.reqs @= T(g & full)
      faults["glitch.input"] += 1
    top.reqs @= T(reqs)
    if has_en:
      top.en @= Bits1(en)
    top.reset @= Bits1(st["reset"])
    for _ in range(st.get("dup_eval", 1)):
      top.sim_eval_combinational()
    if st.get("dup_eval"):
      faults["dup.eval"] += 1
    if st["reset"]:
      faults["restart.reset"] += 1
    got = int(top.grants)
    want = m.grant(reqs)
    D.add(t, reqs, en, st["reset"], got)
    if got & (got - 1):
      viol.append(_viol("onehot", t, reqs=reqs, grants=got))
    if got & ~reqs:
      viol.append(_viol("subset", t, reqs=reqs, grants=got))
    if (got != 0) != (reqs != 0):
      viol.append(_viol("nonzero_iff", t, reqs=reqs, grants=got))
    if got != want:
      viol.append(_viol("grant_matches_pointer", t, reqs=reqs, grants=got, want=want, ptr=m.ptr))
    # fairness history check on the DUT's own grants
    advancing = got != 0 and en and not st["reset"]
    if st["reset"]:
      wait = [0] * n
    elif advancing:
      if bin(reqs).count("1") >= 2:
        contended += 1
      for i in range(n):
        if (reqs >> i) & 1 and not (got >> i) & 1:
          wait[i] += 1
          if wait[i] >= n:
            viol.append(_viol("fairness_window", t, input=i, waited=wait[i]))
        else:
          wait[i] = 0
    else:
      for i in range(n):
        if not (reqs >> i) & 1 or (got >> i) & 1:
          # stopped requesting or was granted (with enable low): window restarts
          wait[i] = 0 if not (reqs >> i) & 1 else wait[i]
    m.tick(reqs, en, st["reset"])
    top.sim_tick()
    # the pointer register is internal state: probed when it has the shipped shape (a register
    # component or a plain signal), otherwise only its observable consequence below is checked
    pr = getattr(top, "priority_reg", None)
    pr = getattr(pr, "out", pr)
    try:
      ptr = int(pr)
    except Exception:
      ptr = None
    D.add("p", ptr)
    if ptr is not None and ptr != m.ptr_onehot():
      viol.append(_viol("pointer_after_tick", t, got=ptr, want=m.ptr_onehot()))
    got2 = int(top.grants)
    if got2 != m.grant(reqs):
      viol.append(_viol("grant_after_tick", t, got=got2, want=m.grant(reqs)))
    if viol:
      break

  nfault = sum(v for k, v in faults.items() if not k.startswith("sched."))
  return {"violations": viol[:3], "digest": D.hex(),
          "nontrivial": nfault > 0 and contended >= 3,
          "stats": {"fault_counts": faults, "sim_cycles": len(case["steps"]),
                    "probes": {"contended_grant_cycles": contended,
                               "nreqs_non_pow2": int(n & (n - 1) != 0)}}}


def sample(case):
  return {k: (v if k != "steps" else v[:6]) for k, v in case.items()}


def shrink(case):
  steps = case["steps"]
  # drop suffix / prefix halves, then single steps, then simplify fields
  k = len(steps)
  while k > 1:
    k //= 2
    for a in range(0, len(steps), k):
      cand = dict(case, steps=steps[:a] + steps[a + k:])
      if cand["steps"]:
        yield cand
  for i, st in enumerate(steps):
    for key in ("glitch", "dup_eval"):
      if key in st:
        s2 = dict(st)
        del s2[key]
        yield dict(case, steps=steps[:i] + [s2] + steps[i + 1:])
  if case["sched"] != "default":
    yield dict(case, sched="default")
