"""C17 - library queues are FIFOs with their advertised same-cycle behaviour."""
import importlib

from ..core import rng as _rng, seams
from ..models.fifo import Fifo
from . import common_rtl as C

ID = "C17"
LEVEL = "exploration"
RULE = ("case = (one of 20 RTL queue classes over 4 interface protocols, or one of 3 CL queues) x capacity 1..6 x entry "
        "type (Bits8/16/32 or a 2-field struct) x scheduler x 40..200 cycles of seeded enqueue/dequeue offers biased to "
        "the full and empty boundaries and to simultaneous enq+deq x stall patterns x mid-run resets (only for classes "
        "that read reset); non-trivial = queue reached full and empty again and >= 1 same-cycle special (pipe enq when "
        "full / bypass deq when empty / simultaneous) occurred; distinct = case digest. CL queues also run open-loop "
        "(OpenLoopCLPass); 40% of the CL consumers look at the head through peek() before they dequeue")
TIERS = {"quick": {"runs": 3200, "budget_s": 100, "chunk": 4},
         "thorough": {"runs": 1000000, "budget_s": 1800, "chunk": 8}}
REAL = ["pymtl3.stdlib.queues.{queues,enrdy_queues,valrdy_queues,cl_queues}", "pymtl3.stdlib.stream.queues",
        "RegisterFile / Reg* / Mux", "interfaces (enq/deq, send/recv, val/rdy, stream, non_blocking methods)",
        "schedulers incl. SCC iteration (pipe/bypass queues are combinationally cyclic at block level)"]
STUB = ["offer driver", "deque reference model per kind",
        "InValRdyIfc/OutValRdyIfc (missing from pymtl3.stdlib.ifcs at this commit; valrdy_queues.py is not "
        "importable as shipped, the harness supplies val/rdy/msg interfaces to reach its queue logic)"]
ASSUMPTIONS = ["en is only asserted when the model says rdy (the DUT's rdy is compared with the model's in the same cycle, "
               "so a deviation is reported before an illegal offer could matter)",
               "message values are a running counter truncated to the entry width"]

# family, module, class, kind, fixed capacity or None, ctor style, reads reset
Q = [
  ("A", "pymtl3.stdlib.queues.queues", "NormalQueueRTL", "normal", None, "tn", True),
  ("A", "pymtl3.stdlib.queues.queues", "PipeQueueRTL", "pipe", None, "tn", True),
  ("A", "pymtl3.stdlib.queues.queues", "BypassQueueRTL", "bypass", None, "tn", True),
  ("A", "pymtl3.stdlib.queues.queues", "NormalQueue1EntryRTL", "normal", 1, "t", True),
  ("A", "pymtl3.stdlib.queues.queues", "PipeQueue1EntryRTL", "pipe", 1, "t", True),
  ("A", "pymtl3.stdlib.queues.queues", "BypassQueue1EntryRTL", "bypass", 1, "t", True),
  ("B", "pymtl3.stdlib.queues.enrdy_queues", "PipeQueue1RTL", "pipe", 1, "t", False),
  ("B", "pymtl3.stdlib.queues.enrdy_queues", "BypassQueue1RTL", "bypass", 1, "t", False),
  ("B", "pymtl3.stdlib.queues.enrdy_queues", "NormalQueue1RTL", "normal", 1, "t", False),
  ("B", "pymtl3.stdlib.queues.enrdy_queues", "BypassQueue2RTL", "bypass", 2, "t", False),
  ("C", "pymtl3.stdlib.queues.valrdy_queues", "PipeQueue1RTL", "pipe", 1, "t", False),
  ("C", "pymtl3.stdlib.queues.valrdy_queues", "BypassQueue1RTL", "bypass", 1, "t", False),
  ("C", "pymtl3.stdlib.queues.valrdy_queues", "NormalQueue1RTL", "normal", 1, "t", False),
  ("C", "pymtl3.stdlib.queues.valrdy_queues", "NormalQueueRTL", "normal", None, "nt", True),
  ("D", "pymtl3.stdlib.stream.queues", "NormalQueueRTL", "normal", None, "tn", True),
  ("D", "pymtl3.stdlib.stream.queues", "PipeQueueRTL", "pipe", None, "tn", True),
  ("D", "pymtl3.stdlib.stream.queues", "BypassQueueRTL", "bypass", None, "tn", True),
  ("D", "pymtl3.stdlib.stream.queues", "NormalQueue1EntryRTL", "normal", 1, "t", True),
  ("D", "pymtl3.stdlib.stream.queues", "PipeQueue1EntryRTL", "pipe", 1, "t", True),
  ("D", "pymtl3.stdlib.stream.queues", "BypassQueue1EntryRTL", "bypass", 1, "t", True),
]
CLQ = [("PipeQueueCL", "pipe"), ("BypassQueueCL", "bypass"), ("NormalQueueCL", "normal")]


def gen_offers(inp, ncyc, cap):
  """Seeded offer sequence with phases that fill, drain, and do both."""
  out = []
  phase, left = "mix", 0
  for t in range(ncyc):
    if left == 0:
      phase = inp.choice(["fill", "drain", "mix", "mix", "both", "idle", "alt"])
      left = inp.randint(1, 2 * cap + 3)
    left -= 1
    if phase == "fill":
      e, d = inp.random() < 0.9, inp.random() < 0.1
    elif phase == "drain":
      e, d = inp.random() < 0.1, inp.random() < 0.9
    elif phase == "both":
      e, d = True, True
    elif phase == "idle":
      e, d = False, False
    elif phase == "alt":
      e, d = t % 2 == 0, t % 2 == 1
    else:
      e, d = inp.random() < 0.5, inp.random() < 0.5
    out.append([int(e), int(d)])
  return out


def gen_case(R, tier):
  c = R("case")
  inp = R("input")
  s = R("sched")
  if c.random() < 0.85:
    qi = c.randrange(len(Q))
    fam, mod, cls, kind, fcap, ctor, rst = Q[qi]
    cap = fcap or c.choice([1, 2, 2, 3, 3, 4, 5, 6])
    if fam == "C" and fcap is None and cap == 1:
      cap = 2     # valrdy NormalQueueRTL refuses num_entries=1 (Bits0); the 1-entry form is a separate class
    ncyc = inp.randint(40, 200 if tier == "thorough" else 120)
    offers = gen_offers(inp, ncyc, cap)
    resets = []
    if rst and R("fault").random() < 0.5:
      resets = sorted({R("fault").randrange(ncyc) for _ in range(ncyc // 40 + 1)})
    return {"mode": "rtl", "q": qi, "cls": cls, "cap": cap, "etype": c.choice(["b8", "b16", "b32", "struct"]),
            "sched": [s.choice(C.ALL_SCHEDS), s.getrandbits(32)], "offers": offers, "resets": resets,
            "hash_seed": R.sub_seed("hash")}
  name, kind = c.choice(CLQ)
  cap = c.choice([1, 1, 2, 3, 4, 6])
  ncyc = inp.randint(40, 120)
  if c.random() < 0.4:
    return {"mode": "open", "cls": name, "kind": kind, "cap": cap, "offers": gen_offers(inp, ncyc, cap),
            "sched": ["openloop", s.getrandbits(32)], "hash_seed": R.sub_seed("hash"), "uid": "o%x" % (R.seed & 0xffffff)}
  return {"mode": "cl", "cls": name, "kind": kind, "cap": cap, "offers": gen_offers(inp, ncyc, cap),
          "sched": [s.choice(("default", "default_s2", "mamba", "mamba_s2", "simple", "simple_s2", "forced",
                              "adversarial")), s.getrandbits(32)],
          "hash_seed": R.sub_seed("hash"), "uid": "q%x" % (R.seed & 0xffffff),
          # the consumer looks at the head through peek() before it dequeues (peek adds M() constraints of its
          # own, so only some of the cases use it)
          "use_peek": R("peek").random() < 0.4}


def entry_type(name):
  from pymtl3 import Bits8, Bits16, Bits32, mk_bitstruct, Bits4, Bits12
  if name == "b8":
    return Bits8, 8
  if name == "b16":
    return Bits16, 16
  if name == "b32":
    return Bits32, 32
  T = mk_bitstruct("DsimQEntry", {"hi": Bits4, "lo": Bits12})
  return T, 16


def ensure_valrdy_ifcs():
  """valrdy_queues.py imports InValRdyIfc / OutValRdyIfc from pymtl3.stdlib.ifcs, which does not
  define them at this commit (the module is unimportable as shipped).  The harness supplies the
  obvious val/rdy/msg interfaces so that the queue logic itself can still be exercised."""
  import pymtl3.stdlib.ifcs as ifcs
  if hasattr(ifcs, "InValRdyIfc"):
    return False
  from pymtl3 import InPort, Interface, OutPort

  class InValRdyIfc(Interface):
    def construct(s, Type):
      s.msg = InPort(Type)
      s.val = InPort()
      s.rdy = OutPort()

  class OutValRdyIfc(Interface):
    def construct(s, Type):
      s.msg = OutPort(Type)
      s.val = OutPort()
      s.rdy = InPort()
  ifcs.InValRdyIfc = InValRdyIfc
  ifcs.OutValRdyIfc = OutValRdyIfc
  return True


class Ports:
  """Protocol adapter: uniform access to the four interface families."""

  def __init__(self, top, fam, T, w):
    from pymtl3 import Bits1, mk_bits
    self.top, self.fam, self.T, self.w = top, fam, T, w
    self.B1 = Bits1
    self.Bw = mk_bits(w)

  def msg_obj(self, v):
    T = self.T
    if hasattr(T, "from_bits"):
      return T.from_bits(self.Bw(v))
    return T(v)

  def drive(self, enq, msg, deq):
    """enq/deq: for en-style inputs already legal; for val/rdy they are val and sink-rdy."""
    top, f, B1 = self.top, self.fam, self.B1
    m = self.msg_obj(msg)
    if f == "A":
      top.enq.en @= B1(enq); top.enq.msg @= m; top.deq.en @= B1(deq)
    elif f == "B":
      top.enq.en @= B1(enq); top.enq.msg @= m; top.deq.rdy @= B1(deq)
    elif f == "C":
      top.enq.val @= B1(enq); top.enq.msg @= m; top.deq.rdy @= B1(deq)
    else:
      top.recv.val @= B1(enq); top.recv.msg @= m; top.send.rdy @= B1(deq)

  def outputs(self):
    top, f = self.top, self.fam
    iv = C.cosim.to_int if False else None
    from ..gen.cosim import to_int
    if f == "A":
      return {"enq_rdy": int(top.enq.rdy), "deq_ok": int(top.deq.rdy), "msg": to_int(top.deq.ret)}
    if f == "B":
      return {"enq_rdy": int(top.enq.rdy), "deq_en": int(top.deq.en), "msg": to_int(top.deq.msg)}
    if f == "C":
      return {"enq_rdy": int(top.enq.rdy), "deq_ok": int(top.deq.val), "msg": to_int(top.deq.msg)}
    return {"enq_rdy": int(top.recv.rdy), "deq_ok": int(top.send.val), "msg": to_int(top.send.msg)}


def run_rtl(case):
  from ..sched import harness
  from pymtl3 import Bits1
  from pymtl3.dsl.errors import UpblkCyclicError
  fam, mod, cls, kind, fcap, ctor, rst = Q[case["q"]]
  cap = case["cap"]
  T, w = entry_type(case["etype"])
  D = _rng.Digest()
  stats = {"fault_counts": {}, "sim_cycles": 0,
           "probes": {"pipe_enq_when_full": 0, "bypass_deq_when_empty": 0, "simultaneous_enq_deq": 0,
                      "reached_full": 0, "wrapped_nonpow2": 0}}
  seams.set_hash_stream(case["hash_seed"])
  if fam == "C":
    ensure_valrdy_ifcs()
  klass = getattr(importlib.import_module(mod), cls)
  sched, sseed = case["sched"]

  def build():
    if ctor == "tn":
      return klass(T, cap)
    if ctor == "nt":
      return klass(cap, T)
    return klass(T)
  try:
    top = build()
    top.elaborate()
    try:
      harness.prepare(top, sched, sseed)
    except UpblkCyclicError:
      if sched not in harness.ACYCLIC_ONLY:
        raise
      stats["fault_counts"]["sched.rejected_cyclic." + sched] = 1
      sched = "default_s2"
      seams.set_hash_stream(case["hash_seed"])
      top = build()
      top.elaborate()
      harness.prepare(top, sched, sseed)
    top.sim_reset()
  except Exception as e:
    return {"violations": [C.exc_violation(e, "build/%s/%s" % (cls, sched))], "digest": D.hex(),
            "nontrivial": False, "stats": stats}
  stats["fault_counts"]["sched." + sched] = 1
  P = Ports(top, fam, T, w)
  m = Fifo(kind, cap)
  viols = []
  ctr = 0
  accepted, delivered = [], []
  mask = (1 << w) - 1
  resets = set(case["resets"])
  was_full = False
  full_empty_cycles = 0
  total_enq = 0

  def bad(check, t, **kw):
    viols.append(C.viol(check, dict(kw, cycle=t, cls=cls, family=fam, cap=cap, sched=sched), cls=cls, family=fam))

  offers = [tuple(o) for o in case["offers"]]
  # drain phase: no enqueue offers, sink always ready; the queue must empty within cap cycles
  offers = offers + [(0, 1)] * (cap + 1)
  drain_from = len(case["offers"])
  try:
    for t, (er, dr) in enumerate(offers):
      if t in resets:
        top.reset @= Bits1(1)
        P.drive(0, 0, 0)
        top.sim_eval_combinational()
        top.sim_tick()
        top.reset @= Bits1(0)
        m.reset()
        stats["fault_counts"]["restart.reset"] = stats["fault_counts"].get("restart.reset", 0) + 1
        accepted, delivered = [], []
        continue
      msg = ctr & mask
      view = m.cycle(bool(er), msg, bool(dr))
      if fam == "A":
        P.drive(int(view["enq_fire"]), msg, int(view["deq_fire"]))
      elif fam == "B":
        P.drive(int(view["enq_fire"]), msg, dr)
      else:
        P.drive(er, msg, dr)
      top.sim_eval_combinational()
      o = P.outputs()
      D.add(t, er, dr, sorted(o.items()))
      if o["enq_rdy"] != int(view["enq_rdy"]):
        bad("enq_rdy", t, got=o["enq_rdy"], want=int(view["enq_rdy"]), n=view["n"], enq_req=er, deq_req=dr)
      if fam == "B":
        if o["deq_en"] != int(view["deq_fire"]):
          bad("deq_en", t, got=o["deq_en"], want=int(view["deq_fire"]), n=view["n"], enq_req=er, deq_req=dr)
        dut_deq = o["deq_en"]
      else:
        if o["deq_ok"] != int(view["deq_ok"]):
          bad("deq_rdy_val", t, got=o["deq_ok"], want=int(view["deq_ok"]), n=view["n"], enq_req=er, deq_req=dr)
        dut_deq = int(view["deq_fire"])
      if view["deq_ok"] and view["head"] is not None and (fam != "B" or view["deq_fire"]):
        if o["msg"] != view["head"]:
          bad("head_msg", t, got=o["msg"], want=view["head"], n=view["n"])
      # occupancy outputs
      if hasattr(top, "count"):
        if int(top.count) != view["n"]:
          bad("count", t, got=int(top.count), want=view["n"])
      if hasattr(top, "num_free_entries"):
        if int(top.num_free_entries) != cap - view["n"]:
          bad("num_free_entries", t, got=int(top.num_free_entries), want=cap - view["n"])
      if viols:
        break
      if view["enq_fire"]:
        accepted.append(msg)
        ctr += 1
        total_enq += 1
      if dut_deq:
        delivered.append(o["msg"])
      # probes
      if kind == "pipe" and view["n"] == cap and view["enq_fire"]:
        stats["probes"]["pipe_enq_when_full"] += 1
      if kind == "bypass" and view["n"] == 0 and view["deq_fire"]:
        stats["probes"]["bypass_deq_when_empty"] += 1
      if view["enq_fire"] and view["deq_fire"]:
        stats["probes"]["simultaneous_enq_deq"] += 1
      if view["n"] == cap:
        was_full = True
        stats["probes"]["reached_full"] += 1
      if view["n"] == 0 and was_full:
        full_empty_cycles += 1
        was_full = False
      m.tick(view, msg)
      top.sim_tick()
      stats["sim_cycles"] += 1
      if t >= drain_from and t == len(offers) - 1 and len(m.q) != 0:
        bad("drain_bound", t, left=len(m.q))
    if not viols:
      if delivered != accepted[:len(delivered)]:
        bad("fifo_order", len(offers), delivered=delivered[-8:], accepted=accepted[:len(delivered)][-8:])
      if len(delivered) != len(accepted):
        bad("lost_or_invented", len(offers), delivered=len(delivered), accepted=len(accepted))
  except Exception as e:
    viols.append(C.exc_violation(e, "sim/%s/%s" % (cls, sched)))
  if cap & (cap - 1) and total_enq > cap:
    stats["probes"]["wrapped_nonpow2"] = 1
  specials = stats["probes"]["pipe_enq_when_full"] + stats["probes"]["bypass_deq_when_empty"] + \
      stats["probes"]["simultaneous_enq_deq"]
  stats["fault_counts"]["class." + fam + "." + cls] = 1
  return {"violations": viols[:2], "digest": D.hex(),
          "nontrivial": full_empty_cycles >= 1 and specials >= 1, "stats": stats}


# ---------------------------------------------------------------------------
# CL queues: producer / consumer update_once blocks; the real scheduler orders
# them from the queues' M() constraints.
# ---------------------------------------------------------------------------

CL_SRC = '''
from pymtl3 import *
from pymtl3.stdlib.queues.cl_queues import {cls}

class Top_{uid}(Component):
  def construct(s, cap, offers, log):
    s.q = {cls}(cap)
    s.t = 0
    s.ctr = 0

    @update_once
    def producer():
      t = s.t
      if t < len(offers) and offers[t][0]:
        rdy = s.q.enq.rdy()
        log.append(("enq_rdy", t, bool(rdy)))
        if rdy:
          s.q.enq(s.ctr)
          log.append(("enq", t, s.ctr))
          s.ctr += 1

    @update_once
    def consumer():
      t = s.t
      if t < len(offers) and offers[t][1]:
        rdy = s.q.deq.rdy()
        log.append(("deq_rdy", t, bool(rdy)))
        if rdy:
{peek}          log.append(("deq", t, s.q.deq()))

    @update_once
    def clock():
      s.t += 1

    s.add_constraints(U(producer) < U(clock), U(consumer) < U(clock))
'''


def run_cl(case):
  from ..gen import emit
  from ..sched import harness
  from pymtl3.dsl.errors import UpblkCyclicError
  D = _rng.Digest()
  stats = {"fault_counts": {"class.CL." + case["cls"]: 1}, "sim_cycles": 0,
           "probes": {"pipe_enq_when_full": 0, "bypass_deq_when_empty": 0, "simultaneous_enq_deq": 0,
                      "reached_full": 0, "wrapped_nonpow2": 0}}
  seams.set_hash_stream(case["hash_seed"])
  src = CL_SRC.format(cls=case["cls"], uid=case["uid"],
                      peek='          log.append(("peek", t, s.q.peek()))\n' if case.get("use_peek") else "")
  ns, cls, _ = emit.build({"uid": case["uid"], "top": "Top"}, src=src)
  log = []
  offers = [tuple(o) for o in case["offers"]]
  sched, sseed = case["sched"]
  viols = []
  try:
    top = cls(case["cap"], offers, log)
    top.elaborate()
    harness.prepare(top, sched, sseed)
    top.sim_reset()
  except Exception as e:
    return {"violations": [C.exc_violation(e, "build/%s/%s" % (case["cls"], sched))], "digest": D.hex(),
            "nontrivial": False, "stats": stats}
  stats["fault_counts"]["sched." + sched] = 1
  # sim_reset ticks three cycles: offers are indexed by s.t which advanced 3 (and then the loop below)
  m = Fifo(case["kind"], case["cap"])
  try:
    t0 = top.t
    for _ in range(len(offers) - t0):
      top.sim_tick()
      stats["sim_cycles"] += 1
  except Exception as e:
    viols.append(C.exc_violation(e, "sim/%s/%s" % (case["cls"], sched)))
  # replay the log against the model, cycle by cycle
  by_t = {}
  for ev in log:
    by_t.setdefault(ev[1], []).append(ev)
  ctr = 0
  was_full = False
  cycles_full_empty = 0
  for t in range(len(offers)):
    er, dr = offers[t]
    view = m.cycle(bool(er), ctr, bool(dr))
    evs = {e[0]: e[2] for e in by_t.get(t, [])}
    D.add(t, sorted(evs.items()))
    if er and evs.get("enq_rdy") != view["enq_rdy"]:
      viols.append(C.viol("cl_enq_rdy", {"cycle": t, "got": evs.get("enq_rdy"), "want": view["enq_rdy"],
                                          "n": view["n"], "cls": case["cls"], "sched": sched}, cls=case["cls"]))
      break
    if dr and evs.get("deq_rdy") != view["deq_ok"]:
      viols.append(C.viol("cl_deq_rdy", {"cycle": t, "got": evs.get("deq_rdy"), "want": view["deq_ok"],
                                          "n": view["n"], "cls": case["cls"], "sched": sched}, cls=case["cls"]))
      break
    if view["deq_fire"] and evs.get("deq") != view["head"]:
      viols.append(C.viol("cl_head", {"cycle": t, "got": evs.get("deq"), "want": view["head"],
                                      "cls": case["cls"], "sched": sched}, cls=case["cls"]))
      break
    if view["deq_fire"] and "peek" in evs and evs["peek"] != view["head"]:
      viols.append(C.viol("cl_peek", {"cycle": t, "got": evs["peek"], "want": view["head"], "n": view["n"],
                                      "cls": case["cls"], "sched": sched}, cls=case["cls"]))
      break
    if view["enq_fire"] and evs.get("enq") != ctr:
      viols.append(C.viol("cl_enq", {"cycle": t, "got": evs.get("enq"), "want": ctr}, cls=case["cls"]))
      break
    k = case["kind"]
    if k == "pipe" and view["n"] == m.cap and view["enq_fire"]:
      stats["probes"]["pipe_enq_when_full"] += 1
    if k == "bypass" and view["n"] == 0 and view["deq_fire"]:
      stats["probes"]["bypass_deq_when_empty"] += 1
    if view["enq_fire"] and view["deq_fire"]:
      stats["probes"]["simultaneous_enq_deq"] += 1
    if view["n"] == m.cap:
      was_full = True
      stats["probes"]["reached_full"] += 1
    if view["n"] == 0 and was_full:
      cycles_full_empty += 1
      was_full = False
    m.tick(view, ctr)
    if view["enq_fire"]:
      ctr += 1
  specials = stats["probes"]["pipe_enq_when_full"] + stats["probes"]["bypass_deq_when_empty"] + \
      stats["probes"]["simultaneous_enq_deq"]
  return {"violations": viols[:2], "digest": D.hex(), "nontrivial": cycles_full_empty >= 1 and specials >= 1,
          "stats": stats}


# ---------------------------------------------------------------------------
# open-loop scheduler (OpenLoopCLPass): top-level callee methods are called one at a time; a call
# runs every block scheduled before the method and rolls the cycle over when a method positioned
# earlier (or the same one) is called after a later one.
# ---------------------------------------------------------------------------

OPEN_SRC = '''
from pymtl3 import *
from pymtl3.stdlib.queues.cl_queues import {cls}

class Top_{uid}(Component):
  def construct(s, cap, depth):
    s.enq = CalleeIfcCL()
    s.deq = CalleeIfcCL()
    s.q = {cls}(cap)
    if depth == 0:
      s.q.enq //= s.enq
      s.q.deq //= s.deq
    else:
      s.inner = Top_{uid}(cap, depth - 1) if False else None
      s.q.enq //= s.enq
      s.q.deq //= s.deq
  def line_trace(s):
    return ""
  def done(s):
    return True
'''


def run_open(case):
  import random
  from collections import deque
  from ..gen import emit
  from pymtl3.passes.autotick.OpenLoopCLPass import OpenLoopCLPass
  from pymtl3.passes.sim.GenDAGPass import GenDAGPass
  from pymtl3.passes.sim.WrapGreenletPass import WrapGreenletPass
  D = _rng.Digest()
  kind, cap = case["kind"], case["cap"]
  stats = {"fault_counts": {"class.CLopen." + case["cls"]: 1, "sched.openloop": 1}, "sim_cycles": 0,
           "probes": {"pipe_enq_when_full": 0, "bypass_deq_when_empty": 0, "simultaneous_enq_deq": 0,
                      "reached_full": 0, "wrapped_nonpow2": 0, "openloop_rollovers": 0}}
  seams.set_hash_stream(case["hash_seed"])
  viols = []
  try:
    ns, cls, _ = emit.build({"uid": case["uid"], "top": "Top"}, src=OPEN_SRC.format(cls=case["cls"], uid=case["uid"]))
    top = cls(cap, 0)
    top.elaborate()
    top.apply(GenDAGPass())
    top.apply(WrapGreenletPass())
    seams.seed_dag_order(top, random.Random(case["sched"][1]))   # S2: address-free presentation order
    random.seed(case["sched"][1])                # the pass shuffles with the global RNG
    top.apply(OpenLoopCLPass(print_line_trace=False))
    top.sim_reset()
  except Exception as e:
    return {"violations": [C.exc_violation(e, "build/open/%s" % case["cls"])], "digest": D.hex(),
            "nontrivial": False, "stats": stats}
  q = deque()            # sequential model of the content
  start_n = 0            # occupancy at the start of the current cycle (for the normal queue)
  cur = top.sim_cycle_count()
  c_first = cur
  n = 0
  got, want = [], []
  last = None            # last method called in the current cycle
  full_seen = emptied = False

  def bad(check, **kw):
    viols.append(C.viol(check, dict(kw, cls=case["cls"], cap=cap, mode="open-loop"), cls=case["cls"], mode="open"))
  try:
    for step, (e, d) in enumerate(case["offers"]):
      for which in (["enq"] if e and not d else ["deq"] if d and not e else
                    (["enq", "deq"] if (step % 2 == 0) else ["deq", "enq"]) if e and d else []):
        c0 = top.sim_cycle_count()
        ifc = getattr(top, which)
        rdy = bool(ifc.rdy())
        c1 = top.sim_cycle_count()
        if c1 != c0:
          start_n = len(q)
          stats["probes"]["openloop_rollovers"] += 1
          last = None
        if not 0 <= c1 - c0 <= 1:
          bad("openloop_cycle_jump", step=step, before=c0, after=c1)
          break
        # expected roll-over from the M constraints of the queue kind
        if kind == "pipe" and last is not None:
          exp_roll = not (last == "deq" and which == "enq")
        elif kind == "bypass" and last is not None:
          exp_roll = not (last == "enq" and which == "deq")
        else:
          exp_roll = None
        if exp_roll is not None and c1 == c0 and exp_roll:
          bad("openloop_no_rollover", step=step, last=last, now=which, kind=kind)
          break
        occ = len(q)
        if kind == "normal":
          exp = (start_n < cap) if which == "enq" else (start_n > 0)
        else:
          exp = (occ < cap) if which == "enq" else (occ > 0)
        D.add(step, which, rdy, c1 - c_first)
        if rdy != exp:
          bad("openloop_rdy", step=step, method=which, got=rdy, want=exp, occupancy=occ, at_cycle_start=start_n)
          break
        if rdy:
          if which == "enq":
            ifc(n)
            q.append(n)
            want.append(n)
            n += 1
          else:
            v = ifc()
            got.append(v)
            if not q or v != q[0]:
              bad("openloop_fifo_order", step=step, got=v, want=q[0] if q else None)
              break
            q.popleft()
          c2 = top.sim_cycle_count()
          if c2 != c1:
            bad("openloop_call_rolled_after_rdy", step=step, method=which)
            break
        last = which
        if len(q) == cap:
          full_seen = True
          stats["probes"]["reached_full"] += 1
        if not q and full_seen:
          emptied = True
      if viols:
        break
  except Exception as e:
    viols.append(C.exc_violation(e, "sim/open/%s" % case["cls"]))
  stats["sim_cycles"] = top.sim_cycle_count() - c_first
  return {"violations": viols[:2], "digest": D.hex(), "nontrivial": full_seen and emptied, "stats": stats}


def run_case(case):
  if case["mode"] == "open":
    return run_open(case)
  return run_rtl(case) if case["mode"] == "rtl" else run_cl(case)


def sample(case):
  d = dict(case)
  d["offers"] = case["offers"][:12]
  return d


def shrink(case):
  off = case["offers"]
  k = len(off)
  while k > 1:
    k //= 2
    for a in range(0, len(off), k):
      cand = off[:a] + off[a + k:]
      if cand:
        yield dict(case, offers=cand, resets=[r for r in case.get("resets", []) if r < len(cand)])
  if case.get("resets"):
    yield dict(case, resets=[])
  if case["sched"][0] != "default":
    yield dict(case, sched=["default", case["sched"][1]])
