"""C15 - replacing a component yields the same design as building it directly."""
import copy
import random

from ..core import rng as _rng, seams
from ..gen import cosim, designgen
from . import common_rtl as C, elab_common as E

ID = "C15"
LEVEL = "exploration"
RULE = ("case = generated hierarchy (depth <= 3, component lists) whose child classes come in families with one "
        "external interface and different insides (update blocks, flip-flops, constants connected inside, explicit "
        "U/RD constraints, nested children, lists; template family: interface components incl. a purely structural "
        "wrapper that orders its children's blocks, CL components with M constraints, set_param overrides, constants "
        "tied into interfaces) x history of 1..6 replace_component / replace_component_with_obj "
        "operations on fields and list elements at depth 1..2, incl. re-replacing a position; after EVERY operation "
        "the mutated design is compared with a design built from scratch; non-trivial = >=2 operations, >=1 on a list "
        "element or at depth 2, and the replaced classes have >=3 update blocks in total; distinct = case digest")
TIERS = {"quick": {"runs": 480, "budget_s": 110, "chunk": 4},
         "thorough": {"runs": 60000, "budget_s": 1800, "chunk": 8}}
REAL = ["Component.replace_component / replace_component_with_obj", "_delete_component / _add_component",
        "_uncollect_vars / _collect_vars chains of ComponentLevel1-4", "net re-resolution", "simulation passes"]
STUB = ["design generator with replacement families", "spec rewriting that builds the from-scratch twin",
        "canonical (name-keyed) metadata extraction", "reachability walker"]
ASSUMPTIONS = ["class names may differ between the mutated design and its twin (the twin clones parent classes along "
               "the replaced path); everything is compared by instance names"]


# ---------------------------------------------------------------------------
# generation
# ---------------------------------------------------------------------------

def _nelem(dims):
  n = 1
  for d in dims:
    n *= d
  return n


def _unflat(i, dims):
  out = []
  for d in reversed(dims):
    out.append(i % d)
    i //= d
  return out[::-1]


def _flat(idx, dims):
  if isinstance(idx, int):
    return idx
  k = 0
  for j, d in zip(idx, dims):
    k = k * d + j
  return k


def positions(spec):
  """all replaceable instance positions as (path steps, current class)"""
  out = []

  def walk(cname, path, depth):
    cd = spec["comps"][cname]
    for sb in cd["subs"]:
      if sb["dims"]:
        cl = sb.get("cls_list") or [sb["cls"]] * _nelem(sb["dims"])
        for i in range(_nelem(sb["dims"])):
          # 1-D: integer index (as in older replay files); lists of lists: list of indices
          p = path + [[sb["name"], i if len(sb["dims"]) == 1 else _unflat(i, sb["dims"])]]
          out.append((p, cl[i]))
          if depth < 2:
            walk(cl[i], p, depth + 1)
      else:
        p = path + [[sb["name"], None]]
        out.append((p, sb["cls"]))
        if depth < 2:
          walk(sb["cls"], p, depth + 1)
  walk(spec["top"], [], 1)
  return out


def gen_case(R, tier):
  c = R("case")
  for _ in range(30):
    prof = designgen.profile(c.choice(["acyclic", "ff_heavy", "shapes"]))
    prof.update(n_child_classes=(1, 3), p_list=0.4, p_sub2d=0.2)
    spec = designgen.DesignGen(c, prof, uid="r%x" % (R.seed & 0xffffff)).gen()
    if len(spec["comps"]) >= 2:
      break
  fam = designgen.add_variants(spec, c, prof, nvar=2)
  family_of = {}
  for base, vs in fam.items():
    for n in [base] + vs:
      family_of[n] = [base] + vs
  ops = []
  cur = copy.deepcopy(spec)
  for k in range(c.randint(1, 6)):
    pos = positions(cur)
    if not pos:
      break
    # bias: re-replace an earlier position sometimes
    if ops and c.random() < 0.3:
      path = ops[c.randrange(len(ops))]["path"]
      cands = [p for p in pos if p[0] == path]
      if not cands:
        continue
      path, cls = cands[0]
    else:
      path, cls = c.choice(pos)
    new = c.choice([n for n in family_of[_base(cls)] if True])
    op = {"path": path, "cls": new, "with_obj": c.random() < 0.4}
    ops.append(op)
    cur = apply_replacement(cur, path, new, len(ops))
  return {"spec": spec, "ops": ops, "inputs": designgen.gen_inputs(spec, R("input"), 5),
          "hash_seed": R.sub_seed("hash"), "sched": [R("sched").choice(["default", "simple", "mamba", "forced"]),
                                                     R("sched").getrandbits(32)]}


def _base(cls):
  # C0v1 -> C0 ; clones C1__r3 -> C1
  b = cls.split("__r")[0]
  if "v" in b[1:]:
    b = b[:b.index("v", 1)]
  return b


def apply_replacement(spec, path, newcls, tag):
  """-> new spec in which the instance at `path` is of class `newcls`; parent classes along the
  path are cloned so that other instances of the same classes are unaffected."""
  sp = copy.deepcopy(spec)
  comps = sp["comps"]

  def rec(cname, steps):
    """returns the name of a class equal to cname but with the sub at steps replaced"""
    name, idx = steps[0]
    cd = copy.deepcopy(comps[cname])
    for sb in cd["subs"]:
      if sb["name"] != name:
        continue
      if len(steps) == 1:
        target = newcls
      else:
        cur = (sb.get("cls_list") or [sb["cls"]] * _nelem(sb["dims"]))[_flat(idx or 0, sb["dims"])] if sb["dims"] else sb["cls"]
        target = rec(cur, steps[1:])
      if sb["dims"]:
        cl = list(sb.get("cls_list") or [sb["cls"]] * _nelem(sb["dims"]))
        cl[_flat(idx, sb["dims"])] = target
        sb["cls_list"] = cl
      else:
        sb["cls"] = target
    if cname == sp["top"]:
      comps[cname] = cd
      return cname
    clone = "%s__r%d_%d" % (cname.split("__r")[0], tag, len(steps))
    comps[clone] = cd
    return clone
  rec(sp["top"], path)
  # definition order: every class after the classes it instantiates (topological re-sort)
  order = []
  seen = set()

  def visit(n):
    if n in seen:
      return
    seen.add(n)
    for sb in comps[n]["subs"]:
      for cn in (sb.get("cls_list") or [sb["cls"]]):
        visit(cn)
    order.append(n)
  for n in list(comps):
    if n != sp["top"]:
      visit(n)
  visit(sp["top"])
  sp["comps"] = {n: comps[n] for n in order}
  return sp


# ---------------------------------------------------------------------------
# canonical metadata
# ---------------------------------------------------------------------------

def canon(top):
  from pymtl3.dsl.Component import Component
  from pymtl3.dsl.Connectable import Const, Interface, MethodPort, Signal
  d = {}
  d["components"] = sorted(repr(x) for x in top.get_all_components())
  # A slice / field signal object that takes part in no connection and in no block's read or write
  # set is a dead by-product of evaluating an expression such as s.x[3:19][1:7] (the intermediate
  # s.x[3:19]); it is not design metadata and is left out of the comparison.
  used = set()
  for a_, bs_ in top._dsl.all_adjacency.items():
    used.add(a_)
    used.update(bs_)
  rds_, wrs_, _c = top.get_all_upblk_metadata()
  for v_ in list(rds_.values()) + list(wrs_.values()):
    used.update(v_)
  live = lambda x: not isinstance(x, Signal) or x.is_top_level_signal() or x in used
  d["signals"] = sorted(repr(x) for x in top._dsl.all_signals if live(x))
  kinds = []
  for o in top.get_all_object_filter(live):
    k = "component" if isinstance(o, Component) else "signal:" + type(o).__name__ if isinstance(o, Signal) else \
        "interface" if isinstance(o, Interface) else "method" if isinstance(o, MethodPort) else type(o).__name__
    kinds.append((repr(o), k))
  d["named_objects"] = sorted(kinds)
  d["nets"] = sorted((w, sorted(m)) for w, m in E.canon_nets(top))
  # the VALUE of every constant driver (construct parameters end up there)
  d["const_values"] = sorted((repr(getattr(w._dsl, "const", None)), sorted(repr(x) for x in m if not isinstance(x, Const)))
                             for w, m in top.get_all_value_nets() if isinstance(w, Const))
  d["method_nets"] = sorted((repr(w) if w is not None else None, sorted(repr(x) for x in m))
                            for w, m in top.get_all_method_nets())
  adj = set()
  for a, bs in top._dsl.all_adjacency.items():
    for b in bs:
      na = "<const>" if isinstance(a, Const) else repr(a)
      nb = "<const>" if isinstance(b, Const) else repr(b)
      adj.add((na, nb))
  d["adjacency"] = sorted(adj)
  host = {}
  for blk in top.get_all_update_blocks():
    host[blk] = (repr(top.get_update_block_host_component(blk)), blk.__name__)
  reads, writes, calls = top.get_all_upblk_metadata()
  d["update_blocks"] = sorted(host.values())
  d["upblk_reads"] = sorted((host.get(b, ("?", getattr(b, "__name__", "?"))), sorted(repr(x) for x in v))
                            for b, v in reads.items())
  d["upblk_writes"] = sorted((host.get(b, ("?", getattr(b, "__name__", "?"))), sorted(repr(x) for x in v))
                             for b, v in writes.items())
  # callees are method ports (named objects) or @s.func helpers (plain functions: name, not address)
  cn = lambda x: "func:" + x.__name__ if callable(x) and hasattr(x, "__code__") else repr(x)
  d["upblk_calls"] = sorted((host.get(b, ("?", getattr(b, "__name__", "?"))), sorted(cn(x) for x in v))
                            for b, v in calls.items())
  uu, rdu, wru, mm = top.get_all_explicit_constraints()
  bn = lambda b: host.get(b, ("?", getattr(b, "__name__", "?")))
  d["U_U"] = sorted((bn(a), bn(b)) for a, b in uu)
  d["RD_U"] = sorted((repr(k), sorted((s_, bn(b)) for s_, b in v)) for k, v in rdu.items() if v)
  d["WR_U"] = sorted((repr(k), sorted((s_, bn(b)) for s_, b in v)) for k, v in wru.items() if v)
  d["M"] = len(mm)
  d["update_ff"] = sorted(bn(b) for b in top.get_all_update_ff())
  d["update_once"] = sorted(bn(b) for b in top.get_all_update_once())
  return d


def stale_objects(top):
  """Walk everything reachable from top (attributes, _dsl metadata, containers) and report
  objects that carry a <deleted> name or belong to a removed component."""
  from pymtl3.dsl.NamedObject import NamedObject
  from pymtl3.dsl.Connectable import Const
  seen = set()
  stack = [("top", top)]
  bad = []
  n = 0
  while stack and n < 400000:
    where, o = stack.pop()
    if id(o) in seen:
      continue
    seen.add(id(o))
    n += 1
    if isinstance(o, (NamedObject, Const)):
      dsl = getattr(o, "_dsl", None)
      fn = getattr(dsl, "full_name", "") if dsl is not None else ""
      if isinstance(fn, str) and fn.startswith("<deleted>"):
        bad.append((where, fn))
        continue
      if isinstance(o, NamedObject) and o is not top and dsl is not None and not hasattr(dsl, "elaborate_top") \
         and hasattr(dsl, "full_name"):
        bad.append((where, "no elaborate_top: " + str(fn)))
        continue
      for k, v in o.__dict__.items():
        if k == "_dsl":
          for kk, vv in v.__dict__.items():
            if kk in ("elaborate_top", "parent_obj", "param_tree"):
              continue
            stack.append((where + "._dsl." + kk, vv))
        else:
          stack.append((where + "." + str(k), v))
    elif isinstance(o, dict):
      for k, v in o.items():
        stack.append((where + "{key}", k))
        stack.append((where + "[...]", v))
    elif isinstance(o, (list, tuple, set, frozenset)):
      for v in o:
        stack.append((where + "[]", v))
    elif callable(o) and hasattr(o, "__closure__") and o.__closure__:
      pass
  return bad


def first_diff(a, b):
  for k in a:
    if a[k] != b[k]:
      if isinstance(a[k], list):
        sa, sb = set(map(repr, a[k])), set(map(repr, b[k]))
        return k, {"only_mutated": sorted(sa - sb)[:3], "only_scratch": sorted(sb - sa)[:3]}
      return k, {"mutated": a[k], "scratch": b[k]}
  return None, None


# ---------------------------------------------------------------------------
# run
# ---------------------------------------------------------------------------

def obj_at(top, path):
  o = top
  for name, idx in path:
    o = getattr(o, name)
    if idx is not None:
      for j in ([idx] if isinstance(idx, int) else idx):
        o = o[j]
  return o


def run_case(case):
  from ..sched import harness
  spec0 = case["spec"]
  D = _rng.Digest()
  stats = {"fault_counts": {"op.replace_component": 0, "op.replace_component_with_obj": 0},
           "operations": 0, "probes": {"list_element_or_depth2": 0, "re_replaced_position": 0,
                                       "constraints_in_replaced_class": 0}}
  viols = []
  seams.set_hash_stream(case["hash_seed"])
  try:
    top, ns, src = cosim.build_top(spec0)
  except Exception as e:
    return {"violations": [C.exc_violation(e, "elaborate/original")], "digest": D.hex(), "nontrivial": False,
            "stats": stats}
  uid = spec0["uid"]
  cur = spec0
  seen_paths = []
  nblk = 0
  for k, op in enumerate(case["ops"]):
    path, newcls = op["path"], op["cls"]
    cur = apply_replacement(cur, path, newcls, k + 1)
    try:
      target = obj_at(top, path)
      cls = ns["%s_%s" % (newcls, uid)]
      if op["with_obj"]:
        top.replace_component_with_obj(target, cls())
        stats["fault_counts"]["op.replace_component_with_obj"] += 1
      else:
        top.replace_component(target, cls)
        stats["fault_counts"]["op.replace_component"] += 1
    except Exception as e:
      viols.append(C.exc_violation(e, "replace#%d %s" % (k, path)))
      break
    stats["operations"] += 1
    if len(path) >= 2 or path[-1][1] is not None:
      stats["probes"]["list_element_or_depth2"] += 1
    if path in seen_paths:
      stats["probes"]["re_replaced_position"] += 1
    seen_paths.append(path)
    cd = spec0["comps"][newcls]
    nblk += sum(1 for it in cd["items"] if it["k"] in ("comb", "ff", "lambda"))
    stats["probes"]["constraints_in_replaced_class"] += sum(1 for it in cd["items"] if it["k"] == "constraint")
    # the twin built from scratch
    try:
      seams.set_hash_stream(case["hash_seed"] + k + 1)
      twin, ns2, src2 = cosim.build_top(dict(cur, uid=uid + "t%d" % k))
    except Exception as e:
      viols.append(C.viol("harness_twin_does_not_elaborate", {"exc": repr(e)[:300], "op": k}))
      break
    a, b = canon(top), canon(twin)
    key, diff = first_diff(a, b)
    D.add(k, _rng.digest(b))
    # report every differing table (so that a known one does not hide another)
    for key in a:
      if a[key] == b[key]:
        continue
      _, diff = first_diff({key: a[key]}, {key: b[key]})
      v = C.viol("metadata_" + key, dict(diff, op=k, path=path, new_class=newcls, with_obj=op["with_obj"]),
                 table=key)
      if key in ("signals", "named_objects") and isinstance(a[key], list):
        sa, sb = set(map(repr, a[key])), set(map(repr, b[key]))
        if not (sa - sb) and all(_is_subsignal_of_replaced(x, seen_paths, twin) for x in (sb - sa)):
          v["sig"]["shape"] = "lazy_subsignals_of_replaced_ports_missing"
      viols.append(v)
    stale = stale_objects(top)
    if stale:
      viols.append(C.viol("stale_object_reachable", {"op": k, "where": stale[0][0][:160], "object": stale[0][1][:120],
                                                     "count": len(stale)}, where=_where_class(stale[0][0])))
    bad, names = E.names_invariant(top)
    if bad:
      viols.append(C.viol("names_" + bad.pop("check"), dict(bad, op=k)))
    if viols:
      break
  # simulate the final mutated design against its twin and the reference
  if not viols and stats["operations"]:
    try:
      sched, sseed = case["sched"]
      twin, ns2, src2 = cosim.build_top(dict(cur, uid=uid + "s"))
      from ..gen.refmodel import Ref
      ref = Ref(cur)
      ref2 = Ref(dict(cur, uid=uid + "s"))
      keys = list(ref.state)
      harness.prepare(top, sched, sseed)
      harness.prepare(twin, sched, sseed)
      acc1, acc2 = cosim.Accessors(top, keys), cosim.Accessors(twin, keys)
      top.sim_reset()
      twin.sim_reset()
      for t, st in enumerate(case["inputs"]):
        for kk, v in st["in"].items():
          cosim.write_input(top, ns, ref, kk, v)
          cosim.write_input(twin, ns2, ref2, kk, v)
        top.sim_eval_combinational()
        twin.sim_eval_combinational()
        s1, s2 = acc1.snapshot(), acc2.snapshot()
        if s1 != s2:
          kk = [x for x in s1 if s1[x] != s2[x]][0]
          viols.append(C.viol("simulation_differs_from_scratch_build", {"cycle": t, "signal": kk, "mutated": hex(s1[kk]),
                                                                        "scratch": hex(s2[kk])}))
          break
        top.sim_tick()
        twin.sim_tick()
      stats["fault_counts"]["sched." + sched] = 1
    except Exception as e:
      viols.append(C.exc_violation(e, "simulate after replacement"))
  return {"violations": viols[:3], "digest": D.hex(),
          "nontrivial": stats["operations"] >= 2 and stats["probes"]["list_element_or_depth2"] >= 1 and nblk >= 3,
          "stats": stats}


def _is_subsignal_of_replaced(entry, paths, twin):
  """entry: repr of a name (or of a (name, kind) pair) present only in the scratch build.  True if it
  names a lazily created field / slice signal of a port of one of the replaced instances."""
  import re
  m = re.search(r"(s\.[\w\[\]\.:]+)", entry)
  if not m:
    return False
  name = m.group(1)
  try:
    o = eval(name, {"s": twin})
  except Exception:
    return False
  if not hasattr(o, "is_top_level_signal") or o.is_top_level_signal():
    return False
  for p in paths:
    pre = "s" + "".join(".%s" % n + ("" if i is None else "".join("[%d]" % j for j in ([i] if isinstance(i, int) else i)))
                        for n, i in p)
    if name.startswith(pre + "."):
      return True
  return False


def _where_class(where):
  import re
  m = re.findall(r"_dsl\.(\w+)", where)
  return m[-1] if m else "attribute"


def sample(case):
  from ..gen import emit
  return {"ops": case["ops"], "sched": case["sched"], "source_head": emit.source(case["spec"])[:1500]}


def shrink(case):
  ops = case["ops"]
  for i in range(len(ops) - 1, -1, -1):
    if len(ops) > 1:
      yield dict(case, ops=ops[:i] + ops[i + 1:])
  for i, op in enumerate(ops):
    if op["with_obj"]:
      yield dict(case, ops=ops[:i] + [dict(op, with_obj=False)] + ops[i + 1:])


# ---------------------------------------------------------------------------
# hand-written families for what DesignSpecs cannot express: interfaces and
# CL components (update_once blocks, method ports, M constraints)
# ---------------------------------------------------------------------------

TEMPLATE_SRC = '''
from pymtl3 import *
from pymtl3.stdlib.ifcs import RecvIfcRTL, SendIfcRTL

Hdr_{uid} = mk_bitstruct('Hdr_{uid}', {{'a': Bits4, 'b': Bits4}})

class Cfg_{uid}(Interface):
  def construct(s):
    s.tag = InPort(Bits8)
    s.hdr = InPort(Hdr_{uid})
    s.rst = InPort(Bits1)
    s.ck = InPort(Bits1)

class IfcA_{uid}(Component):
  def construct(s, k=3):
    s.recv = RecvIfcRTL(Bits8)
    s.send = SendIfcRTL(Bits8)
    s.cfg = Cfg_{uid}()
    s.send.msg //= s.recv.msg
    s.send.en  //= s.recv.en
    s.recv.rdy //= s.send.rdy

class IfcB_{uid}(Component):
  def construct(s, k=3):
    s.recv = RecvIfcRTL(Bits8)
    s.send = SendIfcRTL(Bits8)
    s.cfg = Cfg_{uid}()
    s.k = Wire(Bits8)
    s.k //= k
    @update
    def up_b():
      s.send.msg @= s.recv.msg + s.k + s.cfg.tag + zext(s.cfg.hdr.b, 8)
      s.send.en  @= s.recv.en
      s.recv.rdy @= s.send.rdy

class IfcC_{uid}(Component):
  def construct(s, k=3):
    s.recv = RecvIfcRTL(Bits8)
    s.send = SendIfcRTL(Bits8)
    s.cfg = Cfg_{uid}()
    s.inner = IfcA_{uid}()
    s.recv //= s.inner.recv
    s.inner.send //= s.send
    s.t = Wire(Bits8)
    @update
    def up_c():
      s.t @= s.cfg.tag ^ zext(s.cfg.hdr.a, 8)

class IfcD_{uid}(Component):
  # purely structural (no block of its own) but it orders its children's blocks explicitly
  def construct(s, k=3):
    s.recv = RecvIfcRTL(Bits8)
    s.send = SendIfcRTL(Bits8)
    s.cfg = Cfg_{uid}()
    s.x = IfcB_{uid}(k)
    s.y = IfcC_{uid}()
    s.z = IfcB_{uid}()
    s.recv //= s.x.recv
    s.x.send //= s.y.recv
    s.y.send //= s.z.recv
    s.z.send //= s.send
    s.add_constraints(U(s.x.get_update_block("up_b")) < U(s.y.get_update_block("up_c")),
                      U(s.y.get_update_block("up_c")) < U(s.z.get_update_block("up_b")))

class IfcTop_{uid}(Component):
  def construct(s, classes, params=None, ties=None):
    s.recv = RecvIfcRTL(Bits8)
    s.send = SendIfcRTL(Bits8)
    # construct-parameter overrides for list elements (exact name or wildcard): a replacement at that
    # position must receive them exactly like a component built there from scratch
    for pat, kv in (params or []):
      s.set_param(pat, k=kv)
    s.st = [c() for c in classes]
    s.recv //= s.st[0].recv
    for i in range(len(classes) - 1):
      s.st[i].send //= s.st[i + 1].recv
    s.st[len(classes) - 1].send //= s.send
    # constants tied by the parent to a port INSIDE an interface of a list element: whole port, a slice,
    # a struct field (the replacement may never mention that slice / field itself)
    for i, what, v in (ties or []):
      if what == "whole":
        s.st[i].cfg.tag //= v
      elif what == "slice":
        s.st[i].cfg.tag[4:8] //= v & 15
      elif what == "slice2":
        s.st[i].cfg.tag[0:3] //= v & 7
      elif what == "field":
        s.st[i].cfg.hdr.a //= v & 15
      elif what == "rst":
        # an ordinary port of the list element tied to the PARENT's own reset / clk
        s.st[i].cfg.rst //= s.reset
      elif what == "ck":
        s.st[i].cfg.ck //= s.clk
      else:
        s.st[i].cfg.hdr.b //= v & 15

class ClA_{uid}(Component):
  def construct(s):
    s.buf = []
    s.count = 0
    @update_once
    def up_a():
      s.count += 1
    s.add_constraints(U(up_a) < M(s.enq), U(up_a) < M(s.enq.rdy))
  @non_blocking(lambda s: len(s.buf) < 2)
  def enq(s, v):
    s.buf.append(v)

class ClB_{uid}(Component):
  def construct(s):
    s.buf = []
    @update_once
    def up_b1():
      if len(s.buf) > 3:
        s.buf.pop(0)
    @update_once
    def up_b2():
      pass
    s.add_constraints(M(s.enq) < U(up_b1), U(up_b2) < M(s.enq))
  @non_blocking(lambda s: True)
  def enq(s, v):
    s.buf.append(v)

class Store_{uid}(Component):
  def construct(s):
    s.items = []
  @non_blocking(lambda s: len(s.items) < 4)
  def put(s, v):
    s.items.append(v)

class ClC_{uid}(Component):
  # a method net entirely inside the component: its own caller interface feeds a private store
  def construct(s):
    s.store = Store_{uid}()
    s.out = CallerIfcCL()
    s.out //= s.store.put
    s.buf = []
    @update_once
    def up_c():
      if s.buf and s.out.rdy():
        s.out(s.buf.pop(0))
  @non_blocking(lambda s: len(s.buf) < 2)
  def enq(s, v):
    s.buf.append(v)

class ClTop_{uid}(Component):
  def construct(s, classes):
    s.st = [c() for c in classes]
    s.n = 0
    @update_once
    def up_top():
      s.n += 1
      for i in range(len(classes)):
        if s.st[i].enq.rdy():
          s.st[i].enq(s.n)
'''


def gen_template_case(R, c):
  kind = c.choice(["ifc", "cl"])
  names = ["IfcA", "IfcB", "IfcC", "IfcD"] if kind == "ifc" else ["ClA", "ClB", "ClC"]
  n = c.randint(1, 3)
  start = [c.choice(names) for _ in range(n)]
  ops = []
  for _ in range(c.randint(1, 4)):
    ops.append({"idx": c.randrange(n), "cls": c.choice(names), "with_obj": c.random() < 0.4})
  params = []
  if kind == "ifc" and c.random() < 0.5:
    for _ in range(c.randint(1, 2)):
      params.append([c.choice(["top.st[%d].construct" % c.randrange(n), "top.st*.construct"]), c.choice([0, 5, 9])])
    if c.random() < 0.5:
      # a wildcard default followed by a per-index override of a position that is going to be replaced
      # (or the other way round): precedence must be the same for a replacement as for a fresh build
      v1, v2 = c.sample([0, 5, 9, 12], 2)
      params = [["top.st*.construct", v1], ["top.st[%d].construct" % ops[0]["idx"], v2]]
      if c.random() < 0.3:
        params.reverse()
  ties = []
  if kind == "ifc" and c.random() < 0.6:
    for i in range(n):
      opts = c.sample([["slice", "slice2"], ["field"], ["fieldb"]], c.randint(0, 2)) if c.random() < 0.7 else [["whole"]]
      for grp in opts:
        for what in grp:
          if c.random() < 0.8:
            ties.append([i, what, c.randrange(1, 256)])
      if c.random() < 0.4:
        ties.append([i, c.choice(["rst", "ck"]), 0])
  return {"family": "template", "kind": kind, "start": start, "ops": ops, "uid": "k%x" % (R.seed & 0xffffff),
          "hash_seed": R.sub_seed("hash"), "params": params, "ties": ties}


def run_template(case):
  from ..gen import emit
  D = _rng.Digest()
  stats = {"fault_counts": {"op.replace_component": 0, "op.replace_component_with_obj": 0, "family.template." + case["kind"]: 1},
           "operations": 0, "probes": {"list_element_or_depth2": 0, "re_replaced_position": 0,
                                       "constraints_in_replaced_class": 0}}
  uid = case["uid"]
  seams.set_hash_stream(case["hash_seed"])
  ns, _cls, _ = emit.build({"uid": uid, "top": "IfcTop"}, src=TEMPLATE_SRC.format(uid=uid))
  Top = ns[("IfcTop_%s" if case["kind"] == "ifc" else "ClTop_%s") % uid]
  cls_of = lambda n: ns["%s_%s" % (n, uid)]
  viols = []
  cur = list(case["start"])
  try:
    mk = (lambda: Top([cls_of(n) for n in cur], case.get("params") or None, case.get("ties") or None)) \
         if case["kind"] == "ifc" else \
         (lambda: Top([cls_of(n) for n in cur]))
    top = mk()
    top.elaborate()
  except Exception as e:
    return {"violations": [C.exc_violation(e, "elaborate/template")], "digest": D.hex(), "nontrivial": False,
            "stats": stats}
  for k, op in enumerate(case["ops"]):
    cur[op["idx"]] = op["cls"]
    try:
      if op["with_obj"]:
        top.replace_component_with_obj(top.st[op["idx"]], cls_of(op["cls"])())
        stats["fault_counts"]["op.replace_component_with_obj"] += 1
      else:
        top.replace_component(top.st[op["idx"]], cls_of(op["cls"]))
        stats["fault_counts"]["op.replace_component"] += 1
      twin = mk()
      twin.elaborate()
    except Exception as e:
      viols.append(C.exc_violation(e, "replace#%d/template" % k))
      break
    stats["operations"] += 1
    stats["probes"]["list_element_or_depth2"] += 1
    a, b = canon(top), canon(twin)
    D.add(k, _rng.digest(b))
    for key in a:
      if a[key] != b[key]:
        _, diff = first_diff({key: a[key]}, {key: b[key]})
        viols.append(C.viol("metadata_" + key, dict(diff, op=k, new_class=op["cls"], kind=case["kind"]),
                            table=key, family="template_" + case["kind"]))
    stale = stale_objects(top)
    if stale:
      viols.append(C.viol("stale_object_reachable", {"op": k, "where": stale[0][0][:160], "object": stale[0][1][:120]},
                          where=_where_class(stale[0][0]), family="template_" + case["kind"]))
    if viols:
      break
  return {"violations": viols[:4], "digest": D.hex(), "nontrivial": stats["operations"] >= 2, "stats": stats}


_gen_spec_case = gen_case
_run_spec_case = run_case


def gen_case(R, tier):
  c = R("case")
  if c.random() < 0.2:
    return gen_template_case(R, c)
  return _gen_spec_case(R, tier)


def run_case(case):
  if case.get("family") == "template":
    return run_template(case)
  return _run_spec_case(case)


_sample_spec = sample
_shrink_spec = shrink


def sample(case):
  return case if case.get("family") == "template" else _sample_spec(case)


def shrink(case):
  if case.get("family") == "template":
    ops = case["ops"]
    for i in range(len(ops) - 1, -1, -1):
      if len(ops) > 1:
        yield dict(case, ops=ops[:i] + ops[i + 1:])
    return
  yield from _shrink_spec(case)
