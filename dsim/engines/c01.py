"""C01 - simulation results do not depend on the schedule chosen.

Per case: one generated acyclic design, one seeded input sequence with faults,
K schedulers (real pass groups, S2-seeded variants, forced / adversarial
linear extensions, ff permutations).  After every evaluation and every tick
every signal of every component must equal the reference evaluator's value;
re-running any block after an evaluation must change nothing.
"""
import random

from ..core import rng as _rng
from ..gen import cosim, designgen
from ..gen.refmodel import NotConverged
from . import common_rtl as C

ID = "C01"
LEVEL = "exploration"
RULE = ("case = generated acyclic RTL design (profiles acyclic/ff_heavy/big/shapes: hierarchy, structs, lists, "
        "slices, nets, lambdas, loops) x 8..24 cycles of seeded inputs x 4 schedulers drawn from 13 (5 real pass "
        "groups, 5 seeded-order variants, forced/adversarial/unrolled linear extensions) x seeded faults "
        "(glitch.input, dup.eval, dup.block, restart.reset, ff permutation, object-hash stream); non-trivial = "
        "design has >=3 update blocks, >=1 fault fired and >=1 non-zero non-input value compared; distinct = case digest. "
        "12% of the cases take a real RTL component from pymtl3.stdlib / the examples instead (queues, arbiters, "
        "crossbars, register files, ChecksumRTL, ProcRTL, ...): no reference model there, but all 4 schedulers must agree "
        "on every top-level signal of every component each cycle and the state must be a fixed point; 6% take one class "
        "source instantiated with TWO parameter sets in one interpreter (lambda bodies, closure indices and constants "
        "that differ per instance) against a hand-written reference")
TIERS = {"quick": {"runs": 960, "budget_s": 100, "chunk": 4},
         "thorough": {"runs": 120000, "budget_s": 1800, "chunk": 8}}
REAL = ["pymtl3 DSL elaboration", "GenDAGPass", "Simple/Dynamic/HeuristicTopo/Mamba2020/UnrollSim passes",
        "PrepareSimPass", "Bits / bitstruct datatypes"]
STUB = ["design generator", "integer reference evaluator (chaotic iteration to the unique fixed point)",
        "top-level input driver"]
ASSUMPTIONS = ["generated designs are legal by construction (DESIGN.md Appendix C)",
               "every combinational block assigns all its outputs on every path (no latches)"]

PROFILES = ("acyclic", "acyclic", "ff_heavy", "big", "shapes")


def gen_case(R, tier):
  c = R("case")
  if c.random() < 0.12:
    from . import sv_cosim as S
    s = R("sched")
    names = [n for n in S.corpus_names() if n != "ProcRTL" or c.random() < 0.3]
    return {"family": "corpus", "name": c.choice(names), "ncycles": R("input").randint(10, 30),
            "input_seed": R("input").getrandbits(32), "hash_seed": R.sub_seed("hash"),
            "scheds": [[x, s.getrandbits(32), s.getrandbits(32)] for x in s.sample(C.ALL_SCHEDS, 4)]}
  if c.random() < 0.06:
    from ..gen import paramcls
    s = R("sched")
    d = paramcls.gen(c, "p%x" % (R.seed & 0xffffff))
    d.update(family="paramcls", hash_seed=R.sub_seed("hash"),
             scheds=[[x, s.getrandbits(32), s.getrandbits(32)] for x in s.sample(C.ALL_SCHEDS, 3)])
    return d
  prof = c.choice(PROFILES)
  spec = designgen.DesignGen(c, prof, uid="c%x" % (R.seed & 0xffffff)).gen()
  inp = R("input")
  flt = R("fault")
  seq = designgen.gen_inputs(spec, inp, inp.randint(8, 24))
  kinds = {k for k in ("glitch.input", "dup.eval", "dup.block", "restart.reset") if flt.random() < 0.6}
  C.gen_faults(seq, flt, kinds, C.input_widths(spec))
  s = R("sched")
  scheds = s.sample(C.ALL_SCHEDS, 4)
  return {"spec": spec, "inputs": seq,
          "scheds": [[x, s.getrandbits(32), s.getrandbits(32)] for x in scheds],
          "hash_seed": R.sub_seed("hash")}


def run_one(case, sched, sched_seed, ff_seed, D, stats):
  """-> list of violations for one scheduler."""
  spec = case["spec"]
  faults = stats["fault_counts"]
  try:
    sim = C.Sim(spec, sched, sched_seed, case["hash_seed"] ^ sched_seed, ff_perm_seed=ff_seed)
  except Exception as e:
    return [C.exc_violation(e, "build/%s" % sched)]
  faults["sched." + sched] = faults.get("sched." + sched, 0) + 1
  if sim.info.get("ff_permutable"):
    faults["sched.ff_perm"] = faults.get("sched.ff_perm", 0) + 1
  stats["schedules"].append(_rng.digest(sim.sched_names()))
  top, ref, acc = sim.top, sim.ref, sim.acc
  inputs = set(ref.inputs) | {"s.reset"}
  try:
    sim.reset()
    cosim.compare(acc, ref, "after sim_reset")
    for t, st in enumerate(case["inputs"]):
      sim.set_inputs(st, faults)
      for _ in range(st.get("dup_eval", 1)):
        top.sim_eval_combinational()
      if st.get("dup_eval"):
        faults["dup.eval"] = faults.get("dup.eval", 0) + 1
      ref.eval_comb()
      snap = cosim.compare(acc, ref, "eval@%d" % t)
      D.add(t, sorted(snap.items()))
      if any(v for k, v in snap.items() if k not in inputs):
        stats["nonzero"] = True
      if "dup_block" in st:
        # duplicate delivery: re-invoke a seeded subset of blocks, one at a time
        key = lambda b: getattr(b, "__name__", "")
        ffs = top.get_all_update_ff()
        blks = sorted([b for b in top._dag.final_upblks if b not in ffs], key=key)
        r = random.Random(st["dup_block"])
        for b in r.sample(blks, min(len(blks), 6)):
          b()
          faults["dup.block"] = faults.get("dup.block", 0) + 1
          after = acc.snapshot()
          if after != snap:
            k = [k for k in snap if snap[k] != after[k]][0]
            return [C.viol("fixed_point", {"sched": sched, "cycle": t, "block": key(b), "signal": k,
                                           "before": snap[k], "after": after[k]})]
      top.sim_tick()
      ref.tick()
      snap = cosim.compare(acc, ref, "tick@%d" % t)
      D.add("t", t, sorted(snap.items()))
      stats["sim_cycles"] += 1
  except cosim.Mismatch as m:
    return [C.viol("value_mismatch", {"sched": sched, "sched_seed": sched_seed, "where": m.where,
                                      "signal": m.key, "got": hex(m.got), "want": hex(m.want),
                                      "schedule": sim.sched_names()[:60]})]
  except NotConverged:
    raise
  except Exception as e:
    return [C.exc_violation(e, "sim/%s" % sched)]
  return []


def run_corpus(case):
  """Real RTL from the library / examples: no reference model, but every scheduler must give the
  same values on every top-level signal of every component, cycle by cycle, and the state after an
  evaluation must be a fixed point."""
  import random
  from pymtl3 import Bits1
  from pymtl3.dsl.Connectable import Signal
  from pymtl3.dsl.errors import UpblkCyclicError
  from ..core import seams
  from ..sched import harness
  from . import sv_cosim as S
  D = _rng.Digest()
  stats = {"fault_counts": {"family.corpus": 1}, "schedules": [], "sim_cycles": 0,
           "probes": {"designs_with_subcomponents": 0, "designs_with_structs": 0, "blocks_ge_12": 0}}
  stats["probes"].update({k: 0 for k in C.shape_probes({"comps": {}, "structs": {}})})
  make = S.build_instances({"family": "corpus", "name": case["name"]})
  traces = []
  for sched, sseed, fseed in case["scheds"]:
    seams.set_hash_stream(case["hash_seed"] ^ sseed)
    try:
      top = make()
      harness.prepare(top, sched, sseed, ff_perm_seed=fseed)
    except UpblkCyclicError:
      if sched in harness.ACYCLIC_ONLY:
        stats["fault_counts"]["sched.rejected_cyclic." + sched] = 1
        continue
      return {"violations": [C.viol("exception_on_legal_design", {"design": case["name"], "sched": sched,
                                                                  "exc": "UpblkCyclicError"}, exc="UpblkCyclicError")],
              "digest": D.hex(), "nontrivial": False, "stats": stats}
    except Exception as e:
      return {"violations": [C.exc_violation(e, "build/%s/%s" % (case["name"], sched))], "digest": D.hex(),
              "nontrivial": False, "stats": stats}
    stats["fault_counts"]["sched." + sched] = 1
    ports = S.top_ports(top, "verilog")
    ins = [p for p in ports if p.is_input and p.py not in ("s.clk", "s.reset")]
    sigs = sorted(repr(x) for x in top._dsl.all_signals if x.is_top_level_signal() and not repr(x).endswith(".clk"))
    acc = cosim.Accessors(top, sigs)
    rng = random.Random(case["input_seed"])
    tr = []
    try:
      top.sim_reset()
      for cyc in range(case["ncycles"]):
        for p in ins:
          v = rng.getrandbits(p.width) if rng.random() < 0.7 else rng.choice([0, (1 << p.width) - 1])
          exec("%s @= v" % p.py, {"s": top, "v": p.to_py(v)})
        top.sim_eval_combinational()
        snap = acc.snapshot()
        if cyc % 4 == 0:
          ffs = top.get_all_update_ff()
          blks = sorted([b for b in top._dag.final_upblks if b not in ffs], key=lambda b: getattr(b, "__name__", ""))
          for b in rng.sample(blks, min(4, len(blks))):
            b()
            stats["fault_counts"]["dup.block"] = stats["fault_counts"].get("dup.block", 0) + 1
          after = acc.snapshot()
          if after != snap:
            k = [k for k in snap if snap[k] != after[k]][0]
            return {"violations": [C.viol("fixed_point", {"design": case["name"], "sched": sched, "cycle": cyc,
                                                          "signal": k})], "digest": D.hex(), "nontrivial": False,
                    "stats": stats}
        tr.append(snap)
        top.sim_tick()
        tr.append(acc.snapshot())
        stats["sim_cycles"] += 1
    except IndexError:
      stats["fault_counts"]["pymtl_index_error"] = 1
      return {"violations": [], "digest": D.hex(), "nontrivial": False, "stats": stats}
    except Exception as e:
      return {"violations": [C.exc_violation(e, "sim/%s/%s" % (case["name"], sched))], "digest": D.hex(),
              "nontrivial": False, "stats": stats}
    traces.append((sched, tr))
  viols = []
  for sched, tr in traces[1:]:
    s0, t0 = traces[0]
    for i, (a, b) in enumerate(zip(t0, tr)):
      if a != b:
        k = [k for k in a if a[k] != b.get(k)][0]
        viols.append(C.viol("schedulers_disagree", {"design": case["name"], "a": s0, "b": sched, "step": i,
                                                    "signal": k, "va": hex(a[k]), "vb": hex(b[k])}))
        break
    if viols:
      break
  if traces:
    D.add([sorted(x.items()) for x in traces[0][1][:6]])
  return {"violations": viols, "digest": D.hex(), "nontrivial": len(traces) >= 2, "stats": stats}


def run_paramcls(case):
  """classes whose block bodies depend on constructor parameters; the same classes elaborated twice"""
  from pymtl3 import Bits1, Bits8
  from pymtl3.dsl.errors import UpblkCyclicError
  from ..core import seams
  from ..gen import emit, paramcls
  from ..sched import harness
  D = _rng.Digest()
  stats = {"fault_counts": {"family.paramcls": 1}, "schedules": [], "sim_cycles": 0,
           "probes": {"designs_with_subcomponents": 1, "designs_with_structs": 0, "blocks_ge_12": 1}}
  stats["probes"].update({k: 0 for k in C.shape_probes({"comps": {}, "structs": {}})})
  viols = []
  try:
    ns, cls, _ = emit.build({"uid": case["uid"], "top": "Top"}, src=paramcls.SRC.format(uid=case["uid"]))
  except Exception as e:
    return {"violations": [C.exc_violation(e, "build/paramcls")], "digest": D.hex(), "nontrivial": False, "stats": stats}
  for which, params in enumerate(case["params"]):
    for sched, sseed, fseed in case["scheds"]:
      seams.set_hash_stream(case["hash_seed"] ^ sseed ^ which)
      try:
        top = cls([tuple(p) for p in params])
        top.elaborate()
        harness.prepare(top, sched, sseed, ff_perm_seed=fseed)
        top.sim_reset()
      except UpblkCyclicError:
        continue
      except Exception as e:
        viols.append(C.exc_violation(e, "build/paramcls/%s" % sched))
        break
      stats["fault_counts"]["sched." + sched] = stats["fault_counts"].get("sched." + sched, 0) + 1
      ref = paramcls.Ref(params)
      for _ in range(int(top.cnt)):          # the edges sim_reset() applied (inputs all zero)
        ref.tick({"a": [0] * case["n"], "b": 0, "sel": 0})
      try:
        for t, inp in enumerate(case["inputs"]):
          for i in range(case["n"]):
            top.a[i] @= Bits8(inp["a"][i])
          top.b @= Bits8(inp["b"])
          top.sel @= Bits1(inp["sel"])
          top.sim_eval_combinational()
          o, q = ref.comb(inp)
          got = ([int(x) for x in top.o], [int(x) for x in top.q], [int(x) for x in top.so])
          D.add(which, sched, t, got)
          if got != (o, q, ref.so()):
            viols.append(C.viol("value_mismatch", {"sched": sched, "sched_seed": sseed, "where": "eval@%d" % t,
                                                   "elaboration": which, "params": params, "got": got, "want": [o, q, ref.so()],
                                                   "family": "paramcls"}))
            break
          top.sim_tick()
          ref.tick(inp)
          stats["sim_cycles"] += 1
      except Exception as e:
        viols.append(C.exc_violation(e, "sim/paramcls/%s" % sched))
      if viols:
        break
    if viols:
      break
  return {"violations": viols[:1], "digest": D.hex(), "nontrivial": stats["sim_cycles"] > 0, "stats": stats}


def run_case(case):
  if case.get("family") == "corpus":
    return run_corpus(case)
  if case.get("family") == "paramcls":
    return run_paramcls(case)
  D = _rng.Digest()
  stats = {"fault_counts": {}, "schedules": [], "sim_cycles": 0, "nonzero": False}
  viols = []
  for sched, sseed, fseed in case["scheds"]:
    d1 = _rng.Digest()
    v = run_one(case, sched, sseed, fseed, d1, stats)
    D.add(d1.hex())
    viols.extend(v)
    if v:
      break
  nblk = sum(1 for cd in case["spec"]["comps"].values() for it in cd["items"] if it["k"] in ("comb", "ff", "lambda"))
  nfault = sum(v for k, v in stats["fault_counts"].items() if not k.startswith("sched.") or k == "sched.ff_perm")
  nz = stats.pop("nonzero")
  stats["probes"] = {"designs_with_subcomponents": int(len(case["spec"]["comps"]) > 1),
                     "designs_with_structs": int(bool(case["spec"]["structs"])),
                     "blocks_ge_12": int(nblk >= 12)}
  stats["probes"].update(C.shape_probes(case["spec"]))
  return {"violations": viols, "digest": D.hex(), "nontrivial": nblk >= 3 and nfault > 0 and nz,
          "stats": stats}


def sample(case):
  from ..gen import emit
  if case.get("family") in ("corpus", "paramcls"):
    return {k: v for k, v in case.items() if k != "inputs"}
  src = emit.source(case["spec"])
  return {"profile": case["spec"].get("profile"), "scheds": case["scheds"],
          "n_cycles": len(case["inputs"]), "first_input": case["inputs"][0],
          "source_head": src[:1500]}


def shrink(case):
  if case.get("family") == "corpus":
    if len(case["scheds"]) > 2:
      for i in range(1, len(case["scheds"])):
        yield dict(case, scheds=[case["scheds"][0], case["scheds"][i]])
    if case["ncycles"] > 2:
      yield dict(case, ncycles=case["ncycles"] // 2)
    return
  if case.get("family") == "paramcls":
    if len(case["scheds"]) > 1:
      for sc in case["scheds"]:
        yield dict(case, scheds=[sc])
    if len(case["inputs"]) > 1:
      yield dict(case, inputs=case["inputs"][:len(case["inputs"]) // 2])
      yield dict(case, inputs=case["inputs"][:1])
    return
  yield from C.shrink_spec_case(case)
