"""C01 - simulation results do not depend on the schedule chosen.

Per case: one generated acyclic design, one seeded input sequence with faults,
K schedulers (real pass groups, S2-seeded variants, forced / adversarial
linear extensions, ff permutations).  After every evaluation and every tick
every signal of every component must equal the reference evaluator's value;
re-running any block after an evaluation must change nothing.
"""
import random

from ..core import rng as _rng
from ..gen import cosim, designgen
from ..gen.refmodel import NotConverged
from . import common_rtl as C

ID = "C01"
LEVEL = "exploration"
RULE = ("case = generated acyclic RTL design (profiles acyclic/ff_heavy/big/shapes: hierarchy, structs, lists, "
        "slices, nets, lambdas, loops) x 8..24 cycles of seeded inputs x 4 schedulers drawn from 13 (5 real pass "
        "groups, 5 seeded-order variants, forced/adversarial/unrolled linear extensions) x seeded faults "
        "(glitch.input, dup.eval, dup.block, restart.reset, ff permutation, object-hash stream); non-trivial = "
        "design has >=3 update blocks, >=1 fault fired and >=1 non-zero non-input value compared; distinct = case digest")
TIERS = {"quick": {"runs": 480, "budget_s": 100, "chunk": 4},
         "thorough": {"runs": 40000, "budget_s": 1800, "chunk": 8}}
REAL = ["pymtl3 DSL elaboration", "GenDAGPass", "Simple/Dynamic/HeuristicTopo/Mamba2020/UnrollSim passes",
        "PrepareSimPass", "Bits / bitstruct datatypes"]
STUB = ["design generator", "integer reference evaluator (chaotic iteration to the unique fixed point)",
        "top-level input driver"]
ASSUMPTIONS = ["generated designs are legal by construction (DESIGN.md Appendix C)",
               "every combinational block assigns all its outputs on every path (no latches)"]

PROFILES = ("acyclic", "acyclic", "ff_heavy", "big", "shapes")


def gen_case(R, tier):
  c = R("case")
  prof = c.choice(PROFILES)
  spec = designgen.DesignGen(c, prof, uid="c%x" % (R.seed & 0xffffff)).gen()
  inp = R("input")
  flt = R("fault")
  seq = designgen.gen_inputs(spec, inp, inp.randint(8, 24))
  kinds = {k for k in ("glitch.input", "dup.eval", "dup.block", "restart.reset") if flt.random() < 0.6}
  C.gen_faults(seq, flt, kinds, C.input_widths(spec))
  s = R("sched")
  scheds = s.sample(C.ALL_SCHEDS, 4)
  return {"spec": spec, "inputs": seq,
          "scheds": [[x, s.getrandbits(32), s.getrandbits(32)] for x in scheds],
          "hash_seed": R.sub_seed("hash")}


def run_one(case, sched, sched_seed, ff_seed, D, stats):
  """-> list of violations for one scheduler."""
  spec = case["spec"]
  faults = stats["fault_counts"]
  try:
    sim = C.Sim(spec, sched, sched_seed, case["hash_seed"] ^ sched_seed, ff_perm_seed=ff_seed)
  except Exception as e:
    return [C.exc_violation(e, "build/%s" % sched)]
  faults["sched." + sched] = faults.get("sched." + sched, 0) + 1
  if sim.info.get("ff_permutable"):
    faults["sched.ff_perm"] = faults.get("sched.ff_perm", 0) + 1
  stats["schedules"].append(_rng.digest(sim.sched_names()))
  top, ref, acc = sim.top, sim.ref, sim.acc
  inputs = set(ref.inputs) | {"s.reset"}
  try:
    sim.reset()
    cosim.compare(acc, ref, "after sim_reset")
    for t, st in enumerate(case["inputs"]):
      sim.set_inputs(st, faults)
      for _ in range(st.get("dup_eval", 1)):
        top.sim_eval_combinational()
      if st.get("dup_eval"):
        faults["dup.eval"] = faults.get("dup.eval", 0) + 1
      ref.eval_comb()
      snap = cosim.compare(acc, ref, "eval@%d" % t)
      D.add(t, sorted(snap.items()))
      if any(v for k, v in snap.items() if k not in inputs):
        stats["nonzero"] = True
      if "dup_block" in st:
        # duplicate delivery: re-invoke a seeded subset of blocks, one at a time
        key = lambda b: getattr(b, "__name__", "")
        ffs = top.get_all_update_ff()
        blks = sorted([b for b in top._dag.final_upblks if b not in ffs], key=key)
        r = random.Random(st["dup_block"])
        for b in r.sample(blks, min(len(blks), 6)):
          b()
          faults["dup.block"] = faults.get("dup.block", 0) + 1
          after = acc.snapshot()
          if after != snap:
            k = [k for k in snap if snap[k] != after[k]][0]
            return [C.viol("fixed_point", {"sched": sched, "cycle": t, "block": key(b), "signal": k,
                                           "before": snap[k], "after": after[k]})]
      top.sim_tick()
      ref.tick()
      snap = cosim.compare(acc, ref, "tick@%d" % t)
      D.add("t", t, sorted(snap.items()))
      stats["sim_cycles"] += 1
  except cosim.Mismatch as m:
    return [C.viol("value_mismatch", {"sched": sched, "sched_seed": sched_seed, "where": m.where,
                                      "signal": m.key, "got": hex(m.got), "want": hex(m.want),
                                      "schedule": sim.sched_names()[:60]})]
  except NotConverged:
    raise
  except Exception as e:
    return [C.exc_violation(e, "sim/%s" % sched)]
  return []


def run_case(case):
  D = _rng.Digest()
  stats = {"fault_counts": {}, "schedules": [], "sim_cycles": 0, "nonzero": False}
  viols = []
  for sched, sseed, fseed in case["scheds"]:
    d1 = _rng.Digest()
    v = run_one(case, sched, sseed, fseed, d1, stats)
    D.add(d1.hex())
    viols.extend(v)
    if v:
      break
  nblk = sum(1 for cd in case["spec"]["comps"].values() for it in cd["items"] if it["k"] in ("comb", "ff", "lambda"))
  nfault = sum(v for k, v in stats["fault_counts"].items() if not k.startswith("sched.") or k == "sched.ff_perm")
  nz = stats.pop("nonzero")
  stats["probes"] = {"designs_with_subcomponents": int(len(case["spec"]["comps"]) > 1),
                     "designs_with_structs": int(bool(case["spec"]["structs"])),
                     "blocks_ge_12": int(nblk >= 12)}
  return {"violations": viols, "digest": D.hex(), "nontrivial": nblk >= 3 and nfault > 0 and nz,
          "stats": stats}


def sample(case):
  from ..gen import emit
  src = emit.source(case["spec"])
  return {"profile": case["spec"].get("profile"), "scheds": case["scheds"],
          "n_cycles": len(case["inputs"]), "first_input": case["inputs"][0],
          "source_head": src[:1500]}


def shrink(case):
  yield from C.shrink_spec_case(case)
