"""C03 - translated SystemVerilog behaves exactly like the PyMTL simulation."""
from . import sv_cosim as S

ID = "C03"
LEVEL = "translation_validation"
RULE = ("program = one design (70% generated 'translatable' DesignSpec: operators, constant/variable slices, structs, "
        "packed arrays in structs, unpacked port/wire arrays, sub-components and lists of them, int/Bits closure "
        "constants, temporaries, for loops, if-expressions, lambdas, zext/sext/trunc/concat/reduce, constant and slice "
        "connections; 23% corpus of real RTL from pymtl3.stdlib and the examples incl. ProcRTL; 7% tiny probes of known "
        "findings) translated by the real VerilogTranslationPass, then co-simulated (svsim vs PyMTL) for 8..60 cycles of "
        "seeded inputs with glitches and mid-run resets under 2 seeded svsim process orders; non-trivial = translation "
        "accepted, text parsed/elaborated/statically clean, and >=1 non-zero output value compared; distinct = case digest")
TIERS = {"quick": {"runs": 1280, "budget_s": 110, "chunk": 4},
         "thorough": {"runs": 200000, "budget_s": 1800, "chunk": 8}}
REAL = ["BehavioralRTLIRGen/TypeCheck passes", "StructuralRTLIRGen", "VBehavioralTranslatorL1-L5",
        "VStructuralTranslatorL1-L4", "VerilogTranslationPass (file I/O bound to an in-memory directory)",
        "PyMTL simulation of the same design (DefaultPassGroup)"]
STUB = ["SV executed by /verif/dsim/svsim (our model of IEEE 1800 two-state semantics), not by Verilator",
        "design generator", "input driver", "port map derived from the PyMTL port type shapes"]
ASSUMPTIONS = ["svsim implements DESIGN.md Appendix A faithfully (172 unit tests; agreement with PyMTL on the corpus)",
               "designs rejected by the translator with its own error type are outside the property (counted)"]
BACKEND = "verilog"


def gen_case(R, tier):
  return S.gen_case(R, tier, BACKEND)


run_case = S.run_case
sample = S.sample
shrink = S.shrink


def evidence_extra(ev, agg):
  cov = ev["coverage"]
  oc = cov.get("outcomes", {})
  cov["programs"] = sum(v for k, v in oc.items() if k not in ("rejected_by_translator", "rejected_internal_error",
                                                              "harness_gap", "elaborate_error"))
  cov["disagreements_checked"] = ev.get("violations", 0) + len(cov.get("known_findings_hit", []))
  cov["explanation"] = ("programs = designs the translator accepted and svsim could execute; every disagreement is a "
                        "VIOLATION or a KNOWN-FINDING with a replay file")
