"""Shared pieces of the elaboration engines (C08 C09 C14 C15)."""
import copy

from ..gen import emit
from ..gen.refmodel import Inst


def reorder(spec, c, p_dup=0.3):
  """order.stmt / order.flip / dup.connect: a semantically identical spec whose
  statements are permuted, whose connects have re-drawn sides and some of
  which are issued twice."""
  sp = copy.deepcopy(spec)
  counts = {"order.stmt": 0, "order.flip": 0, "dup.connect": 0}
  for cd in sp["comps"].values():
    items = cd["items"]
    c.shuffle(items)
    counts["order.stmt"] += 1
    extra = []
    for it in items:
      if it["k"] == "connect":
        f = c.random() < 0.5
        if f != bool(it.get("flip")):
          counts["order.flip"] += 1
        it["flip"] = f
        if c.random() < p_dup and not isinstance(it["b"], dict):   # a second constant is a second driver
          d = dict(it)
          d["flip"] = c.random() < 0.5
          d["op"] = "connect"
          extra.append(d)
          counts["dup.connect"] += 1
    for d in extra:
      items.insert(c.randrange(len(items) + 1), d)
  return sp, counts


def full_name(prefix, path):
  """PyMTL's repr of the signal object a path names (bit index k is the slice [k:k+1])."""
  p2 = [["s", st[1], st[1] + 1] if st[0] == "b" else st for st in path]
  return prefix + emit.r_path(p2)[1:]


def expected_nets(spec):
  """Union-find over the connect statements of the spec.
  -> list of (writer_name or '<const>', frozenset(member names)) for nets with >= 2 members,
  clk / reset nets included."""
  top = Inst(spec, spec["top"], "s")
  parent = {}
  indeg = {}
  is_const = set()

  def find(x):
    while parent.setdefault(x, x) != x:
      parent[x] = parent[parent[x]]
      x = parent[x]
    return x

  def union(a, b):
    ra, rb = find(a), find(b)
    if ra != rb:
      parent[ra] = rb
  nconst = 0
  for inst in top.all_insts():
    for it in inst.cd["items"]:
      if it["k"] != "connect":
        continue
      a = full_name(inst.prefix, it["a"])
      if isinstance(it["b"], dict):
        b = "<const%d>" % nconst
        nconst += 1
        is_const.add(b)
      else:
        b = full_name(inst.prefix, it["b"])
      if (a, b) in indeg.setdefault("__edges__", set()):
        continue
      indeg["__edges__"].add((a, b))
      union(a, b)
      indeg[a] = indeg.get(a, 0) + 1
      indeg.setdefault(b, 0)
    # implicit clk / reset
    if inst.parent is not None:
      for nm in ("clk", "reset"):
        a, b = inst.prefix + "." + nm, inst.parent.prefix + "." + nm
        union(a, b)
        indeg[a] = indeg.get(a, 0) + 1
        indeg.setdefault(b, 0)
  indeg.pop("__edges__", None)
  groups = {}
  for x in list(parent):
    groups.setdefault(find(x), set()).add(x)
  out = []
  for members in groups.values():
    if len(members) < 2:
      continue
    roots = [m for m in members if indeg.get(m, 0) == 0]
    writer = roots[0] if len(roots) == 1 else None
    sig = frozenset(m for m in members if m not in is_const)
    out.append(("<const>" if writer in is_const else writer, sig))
  return out


def canon_nets(top):
  from pymtl3.dsl.Connectable import Const
  out = []
  for writer, members in top.get_all_value_nets():
    sig = frozenset(repr(m) for m in members if not isinstance(m, Const))
    w = "<const>" if isinstance(writer, Const) else (repr(writer) if writer is not None else None)
    if len(members) >= 2:
      out.append((w, sig))
  return out


def names_invariant(top):
  """C14: every object reachable through the DSL has a unique full name that
  evaluates back to the object; parent / host / level / top-level-signal
  metadata agree with the name.  -> (violation detail or None, name set)"""
  from pymtl3.dsl.Component import Component
  from pymtl3.dsl.Connectable import Interface, MethodPort, Signal
  objs = top.get_all_object_filter(lambda x: True)
  # struct-field and slice signals are created lazily and are not in all_named_objects:
  # walk them through the attribute dictionaries of the signals
  extra = []
  for o in list(objs):
    if isinstance(o, Signal):
      stack = [o]
      while stack:
        x = stack.pop()
        for k, v in x.__dict__.items():
          vs = []
          if isinstance(v, Signal):
            vs = [v]
          elif isinstance(v, list):
            q = [v]
            while q:
              l = q.pop()
              for e in l:
                if isinstance(e, list):
                  q.append(e)
                elif isinstance(e, Signal):
                  vs.append(e)
          for s2 in vs:
            if s2 is not x and s2 not in objs:
              extra.append(s2)
              stack.append(s2)
  allobjs = list(objs) + extra
  seen = {}
  env = {"s": top}
  for o in allobjs:
    name = repr(o)
    if name in seen and seen[name] is not o:
      return {"check": "name_not_unique", "name": name, "types": [type(o).__name__, type(seen[name]).__name__]}, None
    seen[name] = o
  compnames = {n: x for n, x in seen.items() if isinstance(x, Component)}
  for o in allobjs:
    name = repr(o)
    try:
      back = eval(name, env)
    except Exception as e:
      return {"check": "name_does_not_evaluate", "name": name, "exc": "%s: %s" % (type(e).__name__, str(e)[:120])}, None
    if back is not o:
      return {"check": "name_evaluates_to_other_object", "name": name, "got": repr(back)}, None
    if o is top:
      continue
    par = o.get_parent_object()
    pname = repr(par)
    if not (name.startswith(pname) and len(name) > len(pname) and name[len(pname)] in ".["):
      return {"check": "parent_not_prefix", "name": name, "parent": pname}, None
    # the last step of the name is the field name (plus indices)
    fn = o.get_field_name()
    tail = name[len(pname):]
    if not (tail.startswith("." + fn) or (tail.startswith("[") and isinstance(par, Signal))):
      return {"check": "field_name_not_in_name", "name": name, "field_name": fn, "parent": pname}, None
    if isinstance(o, (Signal, Interface, MethodPort)):
      host = o.get_host_component()
      hname = repr(host)
      if not isinstance(host, Component) or not (name.startswith(hname + ".")):
        return {"check": "host_not_prefix", "name": name, "host": hname}, None
      # the host is the deepest component whose name is a prefix
      deeper = [name[:i] for i, ch in enumerate(name) if ch == "." and i > len(hname) and name[:i] in compnames]
      if deeper:
        return {"check": "host_not_deepest", "name": name, "host": hname, "deeper": deeper[:2]}, None
    if isinstance(o, Signal):
      tl = o.get_top_level_signal()
      tname = repr(tl)
      if not name.startswith(tname):
        return {"check": "top_level_signal_not_prefix", "name": name, "top_level": tname}, None
      if o.is_top_level_signal() != (tl is o):
        return {"check": "is_top_level_signal_inconsistent", "name": name}, None
      if tl.get_parent_object() is not None and isinstance(tl.get_parent_object(), Signal):
        return {"check": "top_level_signal_has_signal_parent", "name": name}, None
    if isinstance(o, Component):
      lvl = o.get_component_level()
      # level = number of enclosing components (top is 0)
      depth = sum(1 for i, ch in enumerate(name) if ch in ".[" and name[:i] in compnames and
                  compnames[name[:i]] is not o and _is_ancestor(compnames[name[:i]], o))
      if lvl != depth:
        return {"check": "component_level", "name": name, "level": lvl, "ancestors": depth}, None
  return None, set(seen)


def _is_ancestor(a, o):
  p = o
  while True:
    try:
      p = p.get_parent_object()
    except Exception:
      return False
    if p is None:
      return False
    if p is a:
      return True
