"""C02 - within a cycle every reader runs after its writer, in every scheduler.

Sub-workloads (chosen by seed):
  dataflow   generated acyclic design; S7 block-order recorder; checks
             once (every block exactly once per evaluation), order (writer before
             reader for every overlapping bit, through nets), value_at_call (what
             a block saw when it was called is what the pass ended with)
  explicit   chain template with explicit U<U / RD / WR constraints incl.
             inversions of implicit pairs; checks once + every edge of the
             independently computed final order graph
  novar      pure constraint cycles without any signal: every scheduler must
             raise UpblkCyclicError
"""
import random

from ..core import rng as _rng, seams
from ..gen import cosim, designgen, emit
from ..gen.refmodel import Ref, item_rw
from . import common_rtl as C

ID = "C02"
LEVEL = "exploration"
RULE = ("case kinds: dataflow (generated design x scheduler x inputs: exact-once, writer-before-reader over bit "
        "sets computed by an independent static analysis of the spec incl. nets, value-at-call == value-at-end), "
        "explicit (template with seeded U<U, RD(x)<U, WR(x)>U constraints and inversions: every edge of the "
        "independently computed order graph holds), novar (signal-free constraint cycles must raise in all "
        "schedulers), methods (CL component with non-blocking methods and direct M(a)<M(b), U(x)<M(a), M(a)<U(x) "
        "constraints: every caller block of a before every caller block of b), greenlet (wrapped blocks keep their "
        "constraints), valcons (RD/WR value constraints on one signal declared by the owning child AND its parent), "
        "deep (a nested-struct wire handed whole to a child while driven only through pieces two levels down); non-trivial = >=1 ordered pair actually checked (or an error expected and seen); "
        "distinct = case digest")
TIERS = {"quick": {"runs": 1600, "budget_s": 100, "chunk": 4},
         "thorough": {"runs": 300000, "budget_s": 1800, "chunk": 8}}
REAL = ["GenDAGPass", "AstHelper read/write extraction", "all scheduling passes", "PrepareSimPass / UnrollSimPass"]
STUB = ["design generator", "static bit-level read/write analysis of the spec (refmodel.item_rw)",
        "sys.setprofile block recorder"]
ASSUMPTIONS = ["a block's may-read / may-write bit sets are over-approximated from the spec: both branches of "
               "every if, a variable index counts as the whole signal"]

SCHEDS = C.ALL_SCHEDS


# ---------------------------------------------------------------------------
# case generation
# ---------------------------------------------------------------------------

def gen_explicit(c):
  n = c.randint(4, 8)
  deps = {0: []}
  for i in range(1, n):
    k = c.randint(0, min(2, i))
    deps[i] = sorted(c.sample(range(i), k))
  impl = {(j, i) for i in range(n) for j in deps[i]}
  readers = {j: [i for i in range(n) if j in deps[i]] for j in range(n)}
  cons = []     # textual constraints
  expl = set()

  def final_edges(ex):
    return set(ex) | {(a, b) for (a, b) in impl if (b, a) not in ex}

  def acyclic(edges):
    adj = {i: [] for i in range(n)}
    ind = {i: 0 for i in range(n)}
    for a, b in edges:
      adj[a].append(b)
      ind[b] += 1
    q = [i for i in range(n) if not ind[i]]
    seen = 0
    while q:
      u = q.pop()
      seen += 1
      for v in adj[u]:
        ind[v] -= 1
        if not ind[v]:
          q.append(v)
    return seen == n

  for _ in range(c.randint(1, 5)):
    kind = c.choice(["uu", "uu", "inv", "rd", "wr"])
    new = set()
    if kind == "uu":
      a, b = c.sample(range(n), 2)
      new = {(a, b)}
      txt = "U(up%d) < U(up%d)" % (a, b)
    elif kind == "inv":
      if not impl:
        continue
      a, b = c.choice(sorted(impl))
      new = {(b, a)}
      txt = "U(up%d) < U(up%d)" % (b, a)
    elif kind == "rd":
      k = c.randrange(n)
      m = c.randrange(n)
      if c.random() < 0.5:
        new = {(r, m) for r in readers[k] if r != m}
        txt = "RD(s.w%d) < U(up%d)" % (k, m)
      else:
        new = {(m, r) for r in readers[k] if r != m}
        txt = "RD(s.w%d) > U(up%d)" % (k, m)
    else:
      k = c.randrange(n)
      m = c.randrange(n)
      if k == m:
        continue
      if c.random() < 0.5:
        new = {(m, k)}
        txt = "WR(s.w%d) > U(up%d)" % (k, m)
      else:
        new = {(k, m)}
        txt = "WR(s.w%d) < U(up%d)" % (k, m)
    if not new or new <= expl or txt in cons:
      continue
    # pymtl3 asserts on duplicated U-U pairs; also never state both directions
    if any((b, a) in expl for (a, b) in new):
      continue
    if kind in ("uu", "inv") and any(e in expl for e in new):
      continue
    if acyclic(final_edges(expl | new)):
      expl |= new
      cons.append(txt)
  ops = ["+", "^", "|", "&", "-"]
  blocks = []
  for i in range(n):
    terms = ["s.w%d" % j for j in deps[i]] + ["s.in0"]
    e = terms[0]
    for t in terms[1:]:
      e = "(%s %s %s)" % (e, c.choice(ops), t)
    blocks.append([i, "%s %s %d" % (e, c.choice(ops), c.randint(0, 255))])
  order = list(range(n))
  c.shuffle(order)
  return {"n": n, "deps": {str(k): v for k, v in deps.items()}, "blocks": blocks, "src_order": order,
          "constraints": cons, "final_edges": sorted(final_edges(expl)), "n_inverted": len(impl - final_edges(expl))}


def gen_novar(c):
  n = c.randint(2, 6)
  k = c.randint(2, n)
  cyc = c.sample(range(n), k)
  cons = ["U(up%d) < U(up%d)" % (cyc[i], cyc[(i + 1) % k]) for i in range(k)]
  extra = []
  for _ in range(c.randint(0, 2)):
    a, b = c.sample(range(n), 2)
    t = "U(up%d) < U(up%d)" % (a, b)
    if t not in cons and t not in extra:
      extra.append(t)
  c.shuffle(cons)
  # some blocks of the cycle also READ the wire written by their explicit successor: the implicit
  # writer-before-reader pair is inverted by the explicit constraint, so it is not an edge and the cycle
  # still carries no signal (must still be rejected, not wrapped in a fixed-point loop)
  inv = []
  if k >= 3:
    for i in range(k):
      a, b = cyc[i], cyc[(i + 1) % k]
      # (an extra constraint that restates the implicit direction b < a would make the pair a real,
      # value-carrying edge: keep the pair purely inverted)
      if c.random() < 0.4 and "U(up%d) < U(up%d)" % (b, a) not in cons + extra:
        inv.append([a, b])
  return {"n": n, "constraints": cons + extra, "inv_reads": inv}


def gen_methods(c):
  """CL component with k non-blocking methods and direct M(a)<M(b) / U(x)<M(a) / M(a)<U(x) constraints,
  all consistent with one hidden total order (so the constraint graph is acyclic); caller blocks in the top."""
  k = c.randint(2, 5)
  nb = c.randint(2, 6)
  calls = [c.randrange(k) for _ in range(nb)]              # caller block j calls method calls[j]
  nodes = ["m%d" % i for i in range(k)] + ["b%d" % j for j in range(nb)] + ["x0", "x1"]
  order = list(nodes)
  c.shuffle(order)
  pos = {n: i for i, n in enumerate(order)}
  cons = []
  for _ in range(c.randint(1, 6)):
    kind = c.choice(["mm", "mm", "um", "mu"])
    if kind == "mm":
      a, b = c.sample(range(k), 2)
      if pos["m%d" % a] > pos["m%d" % b]:
        a, b = b, a
      cons.append(["mm", a, b])
    elif kind == "um":
      x, m = c.choice(["x0", "x1"]), c.randrange(k)
      cons.append(["um", x, m] if pos[x] < pos["m%d" % m] else ["mu", m, x])
    else:
      x, m = c.choice(["x0", "x1"]), c.randrange(k)
      cons.append(["mu", m, x] if pos["m%d" % m] < pos[x] else ["um", x, m])
  # a caller block sits "at" its method in the hidden order: drop constraints that the callers' own
  # positions would contradict is unnecessary - callers have no constraints of their own
  uniq = []
  for x in cons:
    if x not in uniq:
      uniq.append(x)
  return {"k": k, "calls": calls, "constraints": uniq}


def methods_source(t, uid):
  k = t["k"]
  L = ["from pymtl3 import *", "", "class Callee_%s(Component):" % uid, "  def construct(s):", "    s.n = 0"]
  mm = [x for x in t["constraints"] if x[0] == "mm"]
  if mm:
    L.append("    s.add_constraints(%s)" % ", ".join("M(s.m%d) < M(s.m%d)" % (a, b) for _, a, b in mm))
  for i in range(k):
    L += ["  @non_blocking(lambda s: True)", "  def m%d(s, v):" % i, "    s.n += v"]
  L += ["", "class Top_%s(Component):" % uid, "  def construct(s):", "    s.c = Callee_%s()" % uid, "    s.z = 0"]
  for j, m in enumerate(t["calls"]):
    L += ["    @update_once", "    def b%d():" % j, "      s.c.m%d(%d)" % (m, j + 1)]
  for x in ("x0", "x1"):
    L += ["    @update_once", "    def %s():" % x, "      s.z += 1"]
  other = [x for x in t["constraints"] if x[0] != "mm"]
  if other:
    L.append("    s.add_constraints(%s)" % ", ".join(
      ("U(%s) < M(s.c.m%d)" % (x[1], x[2])) if x[0] == "um" else ("M(s.c.m%d) < U(%s)" % (x[1], x[2])) for x in other))
  return "\n".join(L) + "\n"


def gen_greenlet(c):
  """blocks that call a BLOCKING (FL) method and are therefore wrapped in greenlets: explicit U<U constraints
  consistent with a hidden order, writer/reader pairs on wires, some plain blocks in between"""
  n = c.randint(3, 10)
  order = list(range(n))
  c.shuffle(order)
  pos = {b: i for i, b in enumerate(order)}
  fl = [c.random() < 0.75 for _ in range(n)]        # does block i call the blocking method?
  if sum(fl) < 2:
    fl[0] = fl[1] = True
  uu = set()
  for _ in range(c.randint(1, n)):
    a, b = c.sample(range(n), 2)
    if pos[a] > pos[b]:
      a, b = b, a
    uu.add((a, b))
  pairs = []          # (writer, reader): reader reads the wire the writer writes
  for _ in range(c.randint(1, n // 2 + 1)):
    a, b = c.sample(range(n), 2)
    if pos[a] > pos[b]:
      a, b = b, a
    if not any(w == a for w, r in pairs):          # one wire per writer
      pairs.append((a, b))
  src_order = list(range(n))
  c.shuffle(src_order)
  return {"n": n, "fl": fl, "uu": sorted(uu), "pairs": pairs, "src_order": src_order, "in_sub": c.random() < 0.5}


def greenlet_source(t, uid):
  # the trace / observed values live in module globals: attribute accesses through `s` inside update blocks
  # are analysed by pymtl3 as hardware reads / writes
  L = ["from pymtl3 import *", "", "TRACE_%s = []" % uid, "SEEN_%s = {}" % uid, "",
       "class Rec_%s(Component):" % uid, "  @blocking", "  def log(s, tag):",
       "    TRACE_%s.append(tag)" % uid, "    return len(TRACE_%s)" % uid, "  def construct(s):", "    pass", ""]
  wr_of = {w: k for k, (w, r) in enumerate(t["pairs"])}
  rd_of = {}
  for k, (w, r) in enumerate(t["pairs"]):
    rd_of.setdefault(r, []).append(k)
  L += ["class Top_%s(Component):" % uid, "  def construct(s):", "    s.rec = Rec_%s()" % uid]
  for k in range(len(t["pairs"])):
    L.append("    s.x%d = Wire(Bits32)" % k)
  for i in range(t["n"]):
    if t["fl"][i]:
      L.append("    s.c%d = CallerIfcFL()" % i)
      L.append("    s.c%d //= s.rec.log" % i)
  for i in t["src_order"]:
    L += ["    @update_once", "    def b%d():" % i]
    if t["fl"][i]:
      L.append("      s.c%d(%d)" % (i, i))
    else:
      L.append("      TRACE_%s.append(%d)" % (uid, i))
    for k in rd_of.get(i, []):
      L.append("      SEEN_%s[%d] = int(s.x%d)" % (uid, k, k))
    if i in wr_of:
      L.append("      s.x%d @= s.x%d + %d" % (wr_of[i], wr_of[i], wr_of[i] + 1))
  if t["uu"]:
    L.append("    s.add_constraints(%s)" % ", ".join("U(b%d) < U(b%d)" % (a, b) for a, b in t["uu"]))
  return "\n".join(L) + "\n"


def run_greenlet(case, stats):
  from ..sched import harness
  t = case["tmpl"]
  for sched, sseed in case["scheds"]:
    seams.set_hash_stream(case["hash_seed"] ^ sseed)
    try:
      ns, cls, _ = emit.build({"uid": case["uid"], "top": "Top"}, src=greenlet_source(t, case["uid"]))
      top = cls()
      top.elaborate()
      harness.prepare(top, sched, sseed)
      top.sim_reset()
    except Exception as e:
      return [C.exc_violation(e, "build/%s" % sched)]
    stats["fault_counts"]["sched." + sched] = stats["fault_counts"].get("sched." + sched, 0) + 1
    vals = {k: int(getattr(top, "x%d" % k)) for k in range(len(t["pairs"]))}
    trace, seen = ns["TRACE_" + case["uid"]], ns["SEEN_" + case["uid"]]
    for cyc in range(3):
      del trace[:]
      seen.clear()
      try:
        top.sim_tick()
      except Exception as e:
        return [C.exc_violation(e, "sim/%s" % sched)]
      tr = list(trace)
      stats["schedules"].append(_rng.digest(tr))
      for i in range(t["n"]):
        if tr.count(i) != 1:
          return [C.viol("exactly_once", {"sched": sched, "block": "b%d" % i, "count": tr.count(i), "kind": "greenlet",
                                          "trace": tr})]
      pos = {b: i for i, b in enumerate(tr)}
      for a, b in t["uu"]:
        stats["pairs_checked"] += 1
        if pos[a] > pos[b]:
          return [C.viol("explicit_order", {"sched": sched, "sched_seed": sseed, "before": "b%d" % a, "after": "b%d" % b,
                                            "kind": "greenlet", "trace": tr})]
      for k, (w, r) in enumerate(t["pairs"]):
        stats["pairs_checked"] += 1
        vals[k] = (vals[k] + k + 1) & 0xffffffff
        if pos[w] > pos[r]:
          return [C.viol("writer_before_reader", {"sched": sched, "sched_seed": sseed, "writer": "b%d" % w,
                                                  "reader": "b%d" % r, "kind": "greenlet", "trace": tr})]
        stats["value_samples"] += 1
        if seen.get(k) != vals[k]:
          return [C.viol("value_at_call", {"sched": sched, "sched_seed": sseed, "wire": "x%d" % k, "kind": "greenlet",
                                           "got": seen.get(k), "want": vals[k]})]
  return []


def gen_valcons(c):
  """RD(x) / WR(x) value constraints on ONE signal declared by TWO components (the child that owns it and its
  parent): every declaration must survive the merge of the per-component tables"""
  return {"child_early": c.randint(0, 2), "parent_early": c.randint(1, 2), "child_late": c.randint(0, 1),
          "parent_late": c.randint(0, 2), "early_reads": [c.random() < 0.5 for _ in range(4)],
          "spelling": [c.random() < 0.5 for _ in range(8)], "one_call": c.random() < 0.5}


def valcons_source(t, uid):
  L = ["from pymtl3 import *", "", "TRACE_%s = []" % uid, "",
       "class Child_%s(Component):" % uid, "  def construct(s):", "    s.in_ = InPort(Bits8)", "    s.out = OutPort(Bits8)",
       "    s.t = [Wire(Bits8) for _ in range(4)]",
       "    @update", "    def c_wr():", "      TRACE_%s.append('c_wr')" % uid, "      s.out @= s.in_ + 1",
       "    @update", "    def c_rd():", "      TRACE_%s.append('c_rd')" % uid, "      s.t[3] @= s.out"]
  cons = []
  k = 0
  for i in range(t["child_early"]):
    L += ["    @update", "    def c_early%d():" % i, "      TRACE_%s.append('c_early%d')" % (uid, i),
          "      s.t[%d] @= %s" % (i, "s.out" if t["early_reads"][i] else "s.in_")]
    cons.append("U(c_early%d) < WR(s.out)" % i if t["spelling"][k] else "WR(s.out) > U(c_early%d)" % i)
    k += 1
  for i in range(t["child_late"]):
    L += ["    @update", "    def c_late%d():" % i, "      TRACE_%s.append('c_late%d')" % (uid, i), "      s.t[2] @= s.in_"]
    cons.append("RD(s.out) < U(c_late%d)" % i if t["spelling"][k] else "U(c_late%d) > RD(s.out)" % i)
    k += 1
  if cons:
    L.append("    s.add_constraints(%s)" % ", ".join(cons) if t["one_call"] else
             "\n".join("    s.add_constraints(%s)" % x for x in cons))
  L += ["", "class Top_%s(Component):" % uid, "  def construct(s):", "    s.in_ = InPort(Bits8)", "    s.child = Child_%s()" % uid,
        "    s.child.in_ //= s.in_", "    s.u = [Wire(Bits8) for _ in range(4)]"]
  cons = []
  for i in range(t["parent_early"]):
    L += ["    @update", "    def p_early%d():" % i, "      TRACE_%s.append('p_early%d')" % (uid, i),
          "      s.u[%d] @= %s" % (i, "s.child.out" if t["early_reads"][2 + i] else "s.in_")]
    cons.append("U(p_early%d) < WR(s.child.out)" % i if t["spelling"][k] else "WR(s.child.out) > U(p_early%d)" % i)
    k += 1
  for i in range(t["parent_late"]):
    L += ["    @update", "    def p_late%d():" % i, "      TRACE_%s.append('p_late%d')" % (uid, i), "      s.u[%d] @= s.in_" % (2 + i)]
    cons.append("RD(s.child.out) < U(p_late%d)" % i if t["spelling"][k] else "U(p_late%d) > RD(s.child.out)" % i)
    k += 1
  L.append("    s.add_constraints(%s)" % ", ".join(cons) if t["one_call"] else
           "\n".join("    s.add_constraints(%s)" % x for x in cons))
  return "\n".join(L) + "\n"


def run_valcons(case, stats):
  from ..sched import harness
  from pymtl3 import Bits8
  t = case["tmpl"]
  early = ["c_early%d" % i for i in range(t["child_early"])] + ["p_early%d" % i for i in range(t["parent_early"])]
  late = ["c_late%d" % i for i in range(t["child_late"])] + ["p_late%d" % i for i in range(t["parent_late"])]
  for sched, sseed in case["scheds"]:
    seams.set_hash_stream(case["hash_seed"] ^ sseed)
    try:
      ns, cls, _ = emit.build({"uid": case["uid"], "top": "Top"}, src=valcons_source(t, case["uid"]))
      top = cls()
      top.elaborate()
      harness.prepare(top, sched, sseed)
      top.sim_reset()
    except Exception as e:
      return [C.exc_violation(e, "build/%s" % sched)]
    stats["fault_counts"]["sched." + sched] = stats["fault_counts"].get("sched." + sched, 0) + 1
    trace = ns["TRACE_" + case["uid"]]
    for cyc in range(2):
      del trace[:]
      top.in_ @= Bits8(17 * cyc + 3)
      try:
        top.sim_eval_combinational()
      except Exception as e:
        return [C.exc_violation(e, "sim/%s" % sched)]
      tr = list(trace)
      stats["schedules"].append(_rng.digest(tr))
      for n in early + late + ["c_wr", "c_rd"]:
        if tr.count(n) != 1:
          return [C.viol("exactly_once", {"sched": sched, "block": n, "count": tr.count(n), "kind": "valcons", "trace": tr})]
      pos = {b: i for i, b in enumerate(tr)}
      for e in early:
        stats["pairs_checked"] += 1
        if pos[e] > pos["c_wr"]:
          return [C.viol("explicit_order", {"sched": sched, "sched_seed": sseed, "before": e, "after": "c_wr (writer of s.child.out)",
                                            "kind": "valcons", "trace": tr})]
      for l in late:
        stats["pairs_checked"] += 1
        # after every reader of the signal: c_rd always reads it, early blocks that read it as well
        readers = ["c_rd"] + [e for j, e in enumerate(early) if t["early_reads"][j if e.startswith("c_") else 2 + int(e[-1])]]
        for rdr in readers:
          if pos[rdr] > pos[l]:
            return [C.viol("explicit_order", {"sched": sched, "sched_seed": sseed, "before": rdr + " (reader)", "after": l,
                                              "kind": "valcons", "trace": tr})]
  return []


def gen_deep(c):
  """a struct wire handed WHOLE to a child (a net of whole top-level signals) while it is driven only through
  pieces two levels down (leaves of a nested struct, slices of a field), by blocks and / or connections"""
  return {"how": [c.choice(["blk", "blk", "conn"]) for _ in range(4)], "one_block": c.random() < 0.5,
          "order": c.sample(range(3), 3), "inputs": [c.getrandbits(16) for _ in range(c.randint(2, 5))],
          "extra_child_level": c.random() < 0.3}


def deep_source(t, uid):
  L = ["from pymtl3 import *", "", "TRACE_%s = []" % uid,
       "Hdr_%s = mk_bitstruct('Hdr_%s', {'src': Bits4, 'dst': Bits4})" % (uid, uid),
       "Pkt_%s = mk_bitstruct('Pkt_%s', {'hdr': Hdr_%s, 'pay': Bits8})" % (uid, uid, uid), "",
       "class Child_%s(Component):" % uid, "  def construct(s):", "    s.in_ = InPort(Pkt_%s)" % uid, "    s.out = OutPort(Bits16)",
       "    @update", "    def c_rd():", "      TRACE_%s.append('c_rd')" % uid,
       "      s.out @= concat(s.in_.hdr.src, s.in_.hdr.dst, s.in_.pay)", ""]
  if t["extra_child_level"]:
    L += ["class Mid_%s(Component):" % uid, "  def construct(s):", "    s.in_ = InPort(Pkt_%s)" % uid, "    s.out = OutPort(Bits16)",
          "    s.c = Child_%s()" % uid, "    s.c.in_ //= s.in_", "    s.out //= s.c.out", ""]
  pieces = [("s.pkt.hdr.src", "s.x[12:16]"), ("s.pkt.hdr.dst", "s.x[8:12]"), ("s.pkt.pay[4:8]", "s.x[4:8]"), ("s.pkt.pay[0:4]", "s.x[0:4]")]
  # connect(), not //=: `s.pkt.hdr.dst //= ...` on a field of a field is known finding F10
  conns = ["connect(%s, %s)" % p for p, h in zip(pieces, t["how"]) if h == "conn"]
  blks = [p for p, h in zip(pieces, t["how"]) if h == "blk"]
  parts = [conns, [], ["s.child.in_ //= s.pkt", "s.out //= s.child.out"]]
  if blks:
    if t["one_block"]:
      parts[1] = ["@update", "def p_wr0():", "  TRACE_%s.append('p_wr0')" % uid] + ["  %s @= %s" % p for p in blks]
    else:
      for i, p in enumerate(blks):
        parts[1] += ["@update", "def p_wr%d():" % i, "  TRACE_%s.append('p_wr%d')" % (uid, i), "  %s @= %s" % p]
  L += ["class Top_%s(Component):" % uid, "  def construct(s):", "    s.x = InPort(Bits16)", "    s.out = OutPort(Bits16)",
        "    s.pkt = Wire(Pkt_%s)" % uid, "    s.child = %s_%s()" % ("Mid" if t["extra_child_level"] else "Child", uid)]
  for i in t["order"]:
    L += ["    " + x for x in parts[i]]
  return "\n".join(L) + "\n"


def run_deep(case, stats):
  from ..sched import harness
  from pymtl3 import Bits16
  t = case["tmpl"]
  for sched, sseed in case["scheds"]:
    seams.set_hash_stream(case["hash_seed"] ^ sseed)
    try:
      ns, cls, _ = emit.build({"uid": case["uid"], "top": "Top"}, src=deep_source(t, case["uid"]))
      top = cls()
      top.elaborate()
      harness.prepare(top, sched, sseed)
      top.sim_reset()
    except Exception as e:
      return [C.exc_violation(e, "build/%s" % sched)]
    stats["fault_counts"]["sched." + sched] = stats["fault_counts"].get("sched." + sched, 0) + 1
    trace = ns["TRACE_" + case["uid"]]
    for cyc, x in enumerate(t["inputs"]):
      del trace[:]
      top.x @= Bits16(x)
      try:
        top.sim_eval_combinational()
      except Exception as e:
        return [C.exc_violation(e, "sim/%s" % sched)]
      tr = list(trace)
      stats["schedules"].append(_rng.digest(tr))
      if tr.count("c_rd") != 1:
        return [C.viol("exactly_once", {"sched": sched, "block": "c_rd", "count": tr.count("c_rd"), "kind": "deep", "trace": tr})]
      for b in tr:
        if b != "c_rd":
          stats["pairs_checked"] += 1
          if tr.index(b) > tr.index("c_rd"):
            return [C.viol("writer_before_reader", {"sched": sched, "sched_seed": sseed, "writer": b, "reader": "c_rd",
                                                    "kind": "deep", "trace": tr})]
      stats["pairs_checked"] += 1
      if int(top.out) != x:
        # pieces driven through connections have no traced block: the value at the end of ONE pass decides
        return [C.viol("value_at_end", {"sched": sched, "sched_seed": sseed, "cycle": cyc, "got": int(top.out), "want": x,
                                        "kind": "deep", "trace": tr})]
  return []


def run_methods(case, stats):
  from ..sched import harness
  t = case["tmpl"]
  callers = {}
  for j, m in enumerate(t["calls"]):
    callers.setdefault(m, []).append("b%d" % j)
  edges = []
  for x in t["constraints"]:
    if x[0] == "mm":
      edges += [(a, b) for a in callers.get(x[1], []) for b in callers.get(x[2], [])]
    elif x[0] == "um":
      edges += [(x[1], b) for b in callers.get(x[2], [])]
    else:
      edges += [(a, x[2]) for a in callers.get(x[1], [])]
  for sched, sseed in case["scheds"]:
    seams.set_hash_stream(case["hash_seed"] ^ sseed)
    try:
      ns, cls, _ = emit.build({"uid": case["uid"], "top": "Top"}, src=methods_source(t, case["uid"]))
      top = cls()
      top.elaborate()
      harness.prepare(top, sched, sseed)
      top.sim_reset()
    except Exception as e:
      return [C.exc_violation(e, "build/%s" % sched)]
    stats["fault_counts"]["sched." + sched] = stats["fault_counts"].get("sched." + sched, 0) + 1
    for cyc in range(2):
      with harness.BlockRecorder(top) as rec:
        top.sim_tick()
      names = [b.__name__ for b in rec.log]
      stats["schedules"].append(_rng.digest(names))
      want = ["b%d" % j for j in range(len(t["calls"]))] + ["x0", "x1"]
      for n in want:
        if names.count(n) != 1:
          return [C.viol("exactly_once", {"sched": sched, "block": n, "count": names.count(n), "kind": "methods"})]
      pos = {n: i for i, n in enumerate(names)}
      for a, b in edges:
        stats["pairs_checked"] += 1
        if pos[a] > pos[b]:
          return [C.viol("method_constraint_order", {"sched": sched, "sched_seed": sseed, "before": a, "after": b,
                                                     "order": names, "constraints": t["constraints"],
                                                     "calls": t["calls"]})]
      stats["sim_cycles"] += 1
  return []


def gen_case(R, tier):
  c = R("case")
  s = R("sched")
  r = c.random()
  base = {"hash_seed": R.sub_seed("hash")}
  if R("fam").random() < 0.04:
    d = R("deep")
    base.update(kind="deep", tmpl=gen_deep(d), uid="w%x" % (R.seed & 0xffffff),
                scheds=[[x, d.getrandbits(32)] for x in d.sample(
                  ("default", "default_s2", "mamba", "mamba_s2", "simple", "simple_s2", "unroll", "heutopo", "forced"), 3)])
    return base
  if r < 0.03:
    base.update(kind="valcons", tmpl=gen_valcons(c), uid="v%x" % (R.seed & 0xffffff),
                scheds=[[x, s.getrandbits(32)] for x in s.sample(
                  ("default", "default_s2", "mamba", "mamba_s2", "simple", "simple_s2", "unroll", "heutopo", "forced"), 3)])
    return base
  if r < 0.05:
    base.update(kind="greenlet", tmpl=gen_greenlet(c), uid="g%x" % (R.seed & 0xffffff),
                scheds=[[x, s.getrandbits(32)] for x in s.sample(
                  ("default", "default_s2", "mamba", "mamba_s2", "simple", "simple_s2", "unroll"), 3)])
    return base
  if r < 0.12:
    base.update(kind="methods", tmpl=gen_methods(c), uid="m%x" % (R.seed & 0xffffff),
                scheds=[[x, s.getrandbits(32)] for x in s.sample(
                  ("default", "default_s2", "mamba", "mamba_s2", "simple", "simple_s2", "heutopo", "forced",
                   "adversarial"), 3)])
    return base
  if r < 0.62:
    prof = c.choice(["acyclic", "shapes", "shapes", "big", "ff_heavy"])
    spec = designgen.DesignGen(c, prof, uid="d%x" % (R.seed & 0xffffff)).gen()
    seq = designgen.gen_inputs(spec, R("input"), R("input").randint(3, 6))
    scheds = s.sample(SCHEDS, 2)
    base.update(kind="dataflow", spec=spec, inputs=seq,
                scheds=[[x, s.getrandbits(32)] for x in scheds])
  elif r < 0.88:
    base.update(kind="explicit", tmpl=gen_explicit(c), uid="e%x" % (R.seed & 0xffffff),
                scheds=[[x, s.getrandbits(32)] for x in s.sample(SCHEDS, 3)],
                inputs=[R("input").getrandbits(8) for _ in range(4)])
  else:
    base.update(kind="novar", tmpl=gen_novar(c), uid="n%x" % (R.seed & 0xffffff),
                scheds=[[x, s.getrandbits(32)] for x in s.sample(
                  ("default", "simple", "unroll", "heutopo", "mamba", "default_s2", "simple_s2",
                   "heutopo_s2", "mamba_s2"), 4)])
  return base


# ---------------------------------------------------------------------------
# dataflow
# ---------------------------------------------------------------------------

def lambda_name(inst, path):
  full = inst.prefix + emit.r_path(_bits_as_slices(path))[1:]
  return "_lambda__" + full.replace(".", "_").replace("[", "_").replace("]", "_").replace(":", "_")


def _bits_as_slices(path):
  return [["s", st[1], st[1] + 1] if st[0] == "b" else st for st in path]


def analyse(spec):
  """Independent static analysis: per block (host, name) -> direct reads / writes as
  {(key, bit)}; alias map through connection items."""
  ref = Ref(spec)
  rw = item_rw(ref)
  alias = {}
  blocks = {}
  for inst, it, reads, writes in rw:
    if it["k"] == "connect":
      if isinstance(it["b"], dict):
        continue
      ak, alo, aw, _ = ref.resolve(inst, it["a"], {})
      bk, blo, bw, _ = ref.resolve(inst, it["b"], {})
      for i in range(aw):
        alias[(ak, alo + i)] = (bk, blo + i)
    else:
      name = it["name"] if it["k"] in ("comb", "ff") else lambda_name(inst, it["t"])
      blocks[(inst.prefix, name)] = (it["k"], reads, writes)

  def root(b):
    n = 0
    while b in alias and n < 1000:
      b = alias[b]
      n += 1
    return b
  return ref, blocks, root


def run_dataflow(case, stats):
  from ..sched import harness
  spec = case["spec"]
  ref0, blocks, root = analyse(spec)
  # pairs A -> B that must be ordered
  comb = {k: v for k, v in blocks.items() if v[0] in ("comb", "lambda")}
  eff_reads = {k: {root(b) for b in v[1]} for k, v in comb.items()}
  writer_of = {}
  for k, v in comb.items():
    for b in v[2]:
      writer_of.setdefault(b, set()).add(k)
  must = set()
  for kb, rs in eff_reads.items():
    own_w = comb[kb][2]
    for b in rs:
      for ka in writer_of.get(b, ()):
        if ka != kb:
          must.add((ka, kb))
  viols = []
  for sched, sseed in case["scheds"]:
    try:
      sim = C.Sim(spec, sched, sseed, case["hash_seed"] ^ sseed)
    except Exception as e:
      return [C.exc_violation(e, "build/%s" % sched)]
    top, acc = sim.top, sim.acc
    stats["fault_counts"]["sched." + sched] = stats["fault_counts"].get("sched." + sched, 0) + 1
    ffs = top.get_all_update_ff()
    name_of = {}
    for blk in top.get_all_update_blocks():
      name_of[blk] = (repr(top.get_update_block_host_component(blk)), blk.__name__)
    comb_blks = [b for b in top._dag.final_upblks if b not in ffs]
    # read masks per block for value-at-call
    masks = {}
    for blk, key in name_of.items():
      if key in comb:
        m = {}
        own = comb[key][2]
        for (k, bit) in comb[key][1]:
          if (k, bit) not in own:
            m[k] = m.get(k, 0) | (1 << bit)
        masks[blk] = m
    samples = []

    def on_call(blk):
      m = masks.get(blk)
      if m:
        samples.append((blk, {k: acc.get(k) for k in m}))

    try:
      sim.reset()
      for t, st in enumerate(case["inputs"]):
        sim.set_inputs(st)
        del samples[:]
        with harness.BlockRecorder(top, on_call) as rec:
          top.sim_eval_combinational()
        log = rec.log
        stats["schedules"].append(_rng.digest([name_of.get(b, ("", getattr(b, "__name__", "?"))) for b in log]))
        # 1. exactly once
        cnt = {}
        for b in log:
          cnt[b] = cnt.get(b, 0) + 1
        for b in comb_blks:
          if getattr(b, "__code__", None) is None:
            continue
          rep = rec.group[b]
          if cnt.get(rep, 0) != rec.group_size[rep]:
            return [C.viol("exactly_once", {"sched": sched, "cycle": t, "block": getattr(b, "__name__", "?"),
                                            "count": cnt.get(rep, 0), "want": rec.group_size[rep]})]
        # 2. writer before reader
        pos = {}
        for i, b in enumerate(log):
          pos.setdefault(name_of.get(b), i)
        if any(k not in pos for k in comb):
          missing = [k for k in comb if k not in pos][0]
          return [C.viol("exactly_once", {"sched": sched, "cycle": t, "block": missing, "count": 0})]
        for (ka, kb) in must:
          stats["pairs_checked"] += 1
          if pos[ka] > pos[kb]:
            return [C.viol("writer_before_reader", {"sched": sched, "sched_seed": sseed, "cycle": t,
                                                    "writer": ka, "reader": kb})]
        # 4. value at call == value at end of the pass
        final = acc.snapshot()
        for blk, seen in samples:
          for k, v in seen.items():
            stats["value_samples"] += 1
            if (v ^ final[k]) & masks[blk][k]:
              return [C.viol("value_at_call", {"sched": sched, "sched_seed": sseed, "cycle": t,
                                               "block": name_of[blk], "signal": k, "seen": hex(v),
                                               "final": hex(final[k])})]
        with harness.BlockRecorder(top) as rec:
          top.sim_tick()
        cnt = {}
        for b in rec.log:
          cnt[b] = cnt.get(b, 0) + 1
        for b in top._dag.final_upblks:
          if getattr(b, "__code__", None) is None:
            continue
          rep = rec.group[b]
          want = (1 if b in ffs else 2) * rec.group_size[rep]
          if cnt.get(rep, 0) != want:
            return [C.viol("tick_call_count", {"sched": sched, "cycle": t, "block": getattr(b, "__name__", "?"),
                                               "count": cnt.get(rep, 0), "want": want})]
        stats["sim_cycles"] += 1
    except Exception as e:
      return [C.exc_violation(e, "sim/%s" % sched)]
  return viols


# ---------------------------------------------------------------------------
# explicit / novar
# ---------------------------------------------------------------------------

def tmpl_source(kind, tmpl, uid):
  L = ["from pymtl3 import *", "", "class T_%s(Component):" % uid, "  def construct(s):"]
  B = []
  n = tmpl["n"]
  if kind == "explicit":
    B.append("s.in0 = InPort(Bits8)")
    for i in range(n):
      B.append("s.w%d = Wire(Bits8)" % i)
    for i in tmpl["src_order"]:
      B.append("@update")
      B.append("def up%d():" % i)
      B.append("  s.w%d @= %s" % (i, tmpl["blocks"][i][1]))
  else:
    B.append("s.in0 = InPort(Bits8)")
    for i in range(n):
      B.append("s.w%d = Wire(Bits8)" % i)
    for i in range(n):
      B.append("@update")
      B.append("def up%d():" % i)
      B.append("  s.w%d @= s.in0 + %d%s" % (i, i, "".join(" + s.w%d" % b for a, b in tmpl.get("inv_reads", []) if a == i)))
  if tmpl["constraints"]:
    B.append("s.add_constraints(%s)" % ", ".join(tmpl["constraints"]))
  L.extend("    " + b for b in B)
  return "\n".join(L) + "\n"


def build_tmpl(kind, tmpl, uid):
  src = tmpl_source(kind, tmpl, uid)
  ns, cls, _ = emit.build({"uid": uid, "top": "T"}, src=src)
  return cls


def run_explicit(case, stats):
  from ..sched import harness
  from pymtl3 import Bits8
  tmpl = case["tmpl"]
  for sched, sseed in case["scheds"]:
    seams.set_hash_stream(case["hash_seed"] ^ sseed)
    try:
      top = build_tmpl("explicit", tmpl, case["uid"])()
      top.elaborate()
      harness.prepare(top, sched, sseed)
      top.sim_reset()
    except Exception as e:
      return [C.exc_violation(e, "build/%s" % sched)]
    stats["fault_counts"]["sched." + sched] = stats["fault_counts"].get("sched." + sched, 0) + 1
    for t, v in enumerate(case["inputs"]):
      top.in0 @= Bits8(v)
      with harness.BlockRecorder(top) as rec:
        top.sim_eval_combinational()
      names = [b.__name__ for b in rec.log]
      stats["schedules"].append(_rng.digest(names))
      for i in range(tmpl["n"]):
        if names.count("up%d" % i) != 1:
          return [C.viol("exactly_once", {"sched": sched, "block": "up%d" % i, "count": names.count("up%d" % i)})]
      pos = {nm: i for i, nm in enumerate(names)}
      for a, b in tmpl["final_edges"]:
        stats["pairs_checked"] += 1
        if pos["up%d" % a] > pos["up%d" % b]:
          return [C.viol("explicit_order", {"sched": sched, "sched_seed": sseed, "before": "up%d" % a,
                                            "after": "up%d" % b, "order": names, "constraints": tmpl["constraints"]})]
      top.sim_tick()
      stats["sim_cycles"] += 1
  return []


def run_novar(case, stats):
  from ..sched import harness
  from pymtl3.dsl.errors import UpblkCyclicError
  tmpl = case["tmpl"]
  for sched, sseed in case["scheds"]:
    seams.set_hash_stream(case["hash_seed"] ^ sseed)
    top = build_tmpl("novar", tmpl, case["uid"])()
    try:
      top.elaborate()
      harness.prepare(top, sched, sseed)
    except UpblkCyclicError:
      stats["expected_errors"] += 1
      continue
    except Exception as e:
      return [C.viol("novar_cycle_wrong_error", {"sched": sched, "exc": "%s: %s" % (type(e).__name__, str(e)[:300]),
                                                 "constraints": tmpl["constraints"]})]
    return [C.viol("novar_cycle_scheduled", {"sched": sched, "constraints": tmpl["constraints"],
                                             "schedule": [b.__name__ for b in top._sched.update_schedule]})]
  return []


def run_case(case):
  stats = {"fault_counts": {}, "schedules": [], "sim_cycles": 0, "pairs_checked": 0,
           "value_samples": 0, "expected_errors": 0}
  kind = case["kind"]
  if kind == "dataflow":
    v = run_dataflow(case, stats)
  elif kind == "explicit":
    v = run_explicit(case, stats)
  elif kind == "methods":
    v = run_methods(case, stats)
  elif kind == "greenlet":
    v = run_greenlet(case, stats)
  elif kind == "valcons":
    v = run_valcons(case, stats)
  elif kind == "deep":
    v = run_deep(case, stats)
  else:
    v = run_novar(case, stats)
  stats["fault_counts"]["kind." + kind] = 1
  if kind == "explicit":
    stats["probes"] = {"explicit_inversions": case["tmpl"]["n_inverted"]}
  D = _rng.Digest()
  D.add(kind, stats["pairs_checked"], stats["value_samples"], stats["expected_errors"], len(v))
  return {"violations": v, "digest": D.hex(),
          "nontrivial": stats["pairs_checked"] > 0 or stats["expected_errors"] > 0, "stats": stats}


def sample(case):
  if case["kind"] == "dataflow":
    return {"kind": "dataflow", "scheds": case["scheds"], "source_head": emit.source(case["spec"])[:1200]}
  if case["kind"] == "methods":
    return {"kind": "methods", "scheds": case["scheds"], "source": methods_source(case["tmpl"], case["uid"])}
  if case["kind"] == "deep":
    return {"kind": "deep", "scheds": case["scheds"], "source": deep_source(case["tmpl"], case["uid"])}
  if case["kind"] == "valcons":
    return {"kind": "valcons", "scheds": case["scheds"], "source": valcons_source(case["tmpl"], case["uid"])}
  if case["kind"] == "greenlet":
    return {"kind": "greenlet", "scheds": case["scheds"], "source": greenlet_source(case["tmpl"], case["uid"])}
  return {"kind": case["kind"], "scheds": case["scheds"],
          "source": tmpl_source(case["kind"], case["tmpl"], case["uid"])}


def shrink(case):
  if case["kind"] == "dataflow":
    yield from C.shrink_spec_case(case)
  else:
    if len(case["scheds"]) > 1:
      for s in case["scheds"]:
        yield dict(case, scheds=[s])
    t = case["tmpl"]
    if case["kind"] == "deep":
      if len(t["inputs"]) > 1:
        yield dict(case, tmpl=dict(t, inputs=t["inputs"][:1]))
        yield dict(case, tmpl=dict(t, inputs=t["inputs"][1:]))
      if len(case["scheds"]) > 1:
        for s_ in case["scheds"]:
          yield dict(case, scheds=[s_])
      return
    if case["kind"] == "valcons":
      for key in ("child_early", "parent_early", "child_late", "parent_late"):
        if t[key] > (1 if key == "parent_early" else 0):
          yield dict(case, tmpl=dict(t, **{key: t[key] - 1}))
      return
    if case["kind"] == "greenlet":
      for i in range(len(t["uu"])):
        yield dict(case, tmpl=dict(t, uu=t["uu"][:i] + t["uu"][i + 1:]))
      for i in range(len(t["pairs"])):
        yield dict(case, tmpl=dict(t, pairs=t["pairs"][:i] + t["pairs"][i + 1:]))
      return
    for i in range(len(t["constraints"])):
      if case["kind"] == "novar":
        t2 = dict(t, constraints=t["constraints"][:i] + t["constraints"][i + 1:])
        yield dict(case, tmpl=t2)
