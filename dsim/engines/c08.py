"""C08 - connected signals form single-writer nets independent of connect order."""
import random

from ..core import rng as _rng, seams
from ..gen import cosim, designgen
from . import common_rtl as C, elab_common as E

ID = "C08"
LEVEL = "exploration"
RULE = ("case = generated design biased to connections (whole signals, slices, bits, struct fields, constants, "
        "through ports across a 3-level hierarchy, chains whose writer is a slice/field of an earlier net's reader) x "
        "5 orderings (order.stmt permutation of all statements per component, order.flip of connect sides, "
        "dup.connect, order.hash object-hash stream) x 2 schedulers x 4..8 cycles; non-trivial = >=3 nets with >=2 "
        "signal members (clk/reset excluded) and >=1 net whose writer is a slice or field; distinct = case digest. "
        "4% of the cases: the driver of a net is written only inside a helper function reached through 1-3 call levels")
TIERS = {"quick": {"runs": 960, "budget_s": 100, "chunk": 4},
         "thorough": {"runs": 120000, "budget_s": 1800, "chunk": 8}}
REAL = ["connect / //= (ComponentLevel3._connect_*)", "_collect_vars adjacency merge", "_floodfill_nets",
        "_resolve_value_connections", "GenDAGPass._generate_net_blocks", "PrepareSimPass.lock_in_simulation"]
STUB = ["design generator", "union-find over the spec's connect statements", "integer reference evaluator"]
ASSUMPTIONS = ["only legal specs (illegal ones belong to C09)"]


def gen_funcw(c, uid):
  """the driver of a net is a signal written only inside a helper function reached through 1..3 levels of calls"""
  depth = c.randint(1, 3)
  return {"uid": uid, "depth": depth, "via_child": c.random() < 0.5, "slice": c.random() < 0.4,
          "order": c.sample(range(4), 4), "flip": [c.random() < 0.5 for _ in range(4)],
          "other_write_in_mid": c.random() < 0.5, "inputs": [c.getrandbits(8) for _ in range(4)]}


def funcw_source(t):
  uid = t["uid"]
  L = ["from pymtl3 import *", "", "class In_%s(Component):" % uid, "  def construct(s):", "    s.in_ = InPort(Bits8)",
       "    s.out = OutPort(Bits8)", "    s.q = Wire(Bits8)", "    s.r = Wire(Bits8)", "    s.m = Wire(Bits8)"]
  # chain of helpers: f0 writes s.q; f1 calls f0 ... ; the block calls the outermost
  L += ["    @s.func", "    def f0():", "      s.q @= s.in_ + 1"]
  for d in range(1, t["depth"]):
    L += ["    @s.func", "    def f%d():" % d] + (["      s.m @= s.in_"] if t["other_write_in_mid"] and d == 1 else []) + ["      f%d()" % (d - 1)]
  L += ["    @update", "    def up():", "      f%d()" % (t["depth"] - 1)]
  conns = [("s.r", "s.q"), ("s.out", "s.r[0:8]" if False else "s.r")]
  if t["slice"]:
    L += ["    s.lo = OutPort(Bits4)"]
    conns.append(("s.lo", "s.q[0:4]"))
  stmts = ["connect(%s, %s)" % ((a, b) if not t["flip"][i] else (b, a)) for i, (a, b) in enumerate(conns)]
  stmts = [stmts[i] for i in t["order"] if i < len(stmts)]
  L += ["    " + x for x in stmts]
  L += ["", "class Top_%s(Component):" % uid, "  def construct(s):", "    s.in_ = InPort(Bits8)", "    s.out = OutPort(Bits8)",
        "    s.w = Wire(Bits8)", "    s.c = In_%s()" % uid]
  tc = ["connect(s.c.in_, s.in_)" if t["flip"][3] else "connect(s.in_, s.c.in_)"]
  tc += ["connect(s.w, s.c.out)", "connect(s.out, s.w)"] if t["via_child"] else ["connect(s.out, s.c.out)"]
  L += ["    " + x for x in tc]
  return "\n".join(L) + "\n"


def run_funcw(case):
  from ..gen import emit
  from ..sched import harness
  from pymtl3 import Bits8
  t = case["tmpl"]
  D = _rng.Digest()
  stats = {"fault_counts": {"family.funcw": 1}, "sim_cycles": 0,
           "probes": {"nets_multi_member": 3, "writer_is_slice_or_field": int(t["slice"]), "const_writer": 0}}
  viols = []
  for k, (sched, sseed) in enumerate(case["scheds"]):
    seams.set_hash_stream(case["orderings"][k][1])
    try:
      ns, cls, _ = emit.build({"uid": t["uid"], "top": "Top"}, src=funcw_source(t))
      top = cls()
      top.elaborate()
    except Exception as e:
      viols.append(C.exc_violation(e, "elaborate/funcw"))
      break
    nets = {repr(w): sorted(repr(x) for x in net) for w, net in top.get_all_value_nets()}
    qnet = [w for w, ms in nets.items() if "s.c.q" in ms]
    if qnet != ["s.c.q"]:
      viols.append(C.viol("net_writer", {"members": nets.get(qnet[0] if qnet else "", [])[:6], "got": qnet, "want": "s.c.q",
                                         "family": "funcw"}))
      break
    if not {"s.c.q", "s.c.r", "s.c.out", "s.out"} <= set(nets["s.c.q"]):
      viols.append(C.viol("net_members", {"got": nets["s.c.q"], "family": "funcw"}))
      break
    try:
      harness.prepare(top, sched, sseed)
      top.sim_reset()
      for x in t["inputs"]:
        top.in_ @= Bits8(x)
        top.sim_eval_combinational()
        got = int(top.out)
        D.add(k, got)
        stats["sim_cycles"] += 1
        if got != (x + 1) & 0xff or (t["slice"] and int(top.c.lo) != (x + 1) & 15):
          viols.append(C.viol("net_value", {"sched": sched, "got": hex(got), "want": hex((x + 1) & 0xff), "family": "funcw"}))
          break
        top.sim_tick()
    except Exception as e:
      viols.append(C.exc_violation(e, "sim/funcw"))
    if viols:
      break
  return {"violations": viols[:1], "digest": D.hex(), "nontrivial": not viols, "stats": stats}


def gen_case(R, tier):
  if R("fam").random() < 0.04:
    o = R("order")
    return {"family": "funcw", "tmpl": gen_funcw(R("funcw"), "n%x" % (R.seed & 0xffffff)),
            "orderings": [[o.getrandbits(32), o.getrandbits(32)] for _ in range(2)],
            "scheds": [[x, R("sched").getrandbits(32)] for x in R("sched").sample(C.ALL_SCHEDS, 2)]}
  c = R("case")
  prof = designgen.profile(c.choice(["shapes", "acyclic"]))
  prof.update(p_connect=0.55, p_lambda=0.05, n_wire=(2, 7))
  spec = designgen.DesignGen(c, prof, uid="n%x" % (R.seed & 0xffffff)).gen()
  if c.random() < 0.1:
    from ..gen import templates
    spec = templates.struct_by_slices(c, "n%x" % (R.seed & 0xffffff))
  o = R("order")
  return {"spec": spec, "orderings": [[o.getrandbits(32), o.getrandbits(32)] for _ in range(5)],
          "inputs": designgen.gen_inputs(spec, R("input"), R("input").randint(4, 8)),
          "scheds": [[x, R("sched").getrandbits(32)] for x in R("sched").sample(C.ALL_SCHEDS, 2)]}


def run_case(case):
  if case.get("family") == "funcw":
    return run_funcw(case)
  spec0 = case["spec"]
  D = _rng.Digest()
  stats = {"fault_counts": {}, "sim_cycles": 0, "probes": {"nets_multi_member": 0, "writer_is_slice_or_field": 0,
                                                            "const_writer": 0}}
  want = sorted(E.expected_nets(spec0), key=lambda n: sorted(n[1]))
  if any(w is None for w, _ in want):
    return {"violations": [C.viol("harness_spec_without_unique_writer", {})], "digest": D.hex(),
            "nontrivial": False, "stats": stats}
  real = [n for n in want if not any(m.endswith((".clk", ".reset")) for m in n[1])]
  stats["probes"]["nets_multi_member"] = len(real)
  stats["probes"]["writer_is_slice_or_field"] = sum(1 for w, _ in real if w != "<const>" and
                                                    (w.endswith("]") and ":" in w.split("[")[-1] or
                                                     w.count(".") > w.rsplit(".", 1)[0].count(".") and False))
  stats["probes"]["const_writer"] = sum(1 for w, _ in real if w == "<const>")
  D.add([(w, sorted(m)) for w, m in want])
  viols = []
  for k, (oseed, hseed) in enumerate(case["orderings"]):
    r = random.Random(oseed)
    sp, counts = (spec0, {}) if k == 0 else E.reorder(spec0, r)
    for kk, vv in counts.items():
      stats["fault_counts"][kk] = stats["fault_counts"].get(kk, 0) + vv
    stats["fault_counts"]["order.hash"] = stats["fault_counts"].get("order.hash", 0) + 1
    seams.set_hash_stream(hseed)
    try:
      top, ns, src = cosim.build_top(sp)
    except Exception as e:
      viols.append(C.exc_violation(e, "elaborate/ordering%d" % k))
      break
    got = sorted(E.canon_nets(top), key=lambda n: sorted(n[1]))
    if [m for _, m in got] != [m for _, m in want]:
      gs, ws = {m for _, m in got}, {m for _, m in want}
      viols.append(C.viol("net_members", {"ordering": k, "missing": [sorted(x) for x in list(ws - gs)[:2]],
                                           "unexpected": [sorted(x) for x in list(gs - ws)[:2]]}))
      break
    bad = [(g, w) for g, w in zip(got, want) if g[0] != w[0]]
    if bad:
      g, w = bad[0]
      viols.append(C.viol("net_writer", {"ordering": k, "members": sorted(g[1])[:6], "got": g[0], "want": w[0]}))
      break
    if k < 2:
      # simulate: every member carries the writer's value (all signals == reference evaluator)
      sched, sseed = case["scheds"][k]
      try:
        sim = C.Sim(sp, sched, sseed, hseed)
        sim.reset()
        cosim.compare(sim.acc, sim.ref, "after reset")
        for t, st in enumerate(case["inputs"]):
          sim.set_inputs(st)
          sim.top.sim_eval_combinational()
          sim.ref.eval_comb()
          snap = cosim.compare(sim.acc, sim.ref, "eval@%d" % t)
          # explicit net check on the PyMTL side alone: members equal the writer's bits
          sim.top.sim_tick()
          sim.ref.tick()
          cosim.compare(sim.acc, sim.ref, "tick@%d" % t)
          stats["sim_cycles"] += 1
        stats["fault_counts"]["sched." + sched] = 1
      except cosim.Mismatch as m:
        viols.append(C.viol("net_value", {"ordering": k, "sched": sched, "where": m.where, "signal": m.key,
                                          "got": hex(m.got), "want": hex(m.want)}))
        break
      except Exception as e:
        viols.append(C.exc_violation(e, "sim/ordering%d" % k))
        break
  slice_writers = sum(1 for w, _ in real if w and w != "<const>" and
                      (w.rstrip("]").split("[")[-1].count(":") == 1 or _is_field(spec0, w)))
  stats["probes"]["writer_is_slice_or_field"] = slice_writers
  return {"violations": viols, "digest": D.hex(), "nontrivial": len(real) >= 3 and slice_writers >= 1, "stats": stats}


def _is_field(spec, name):
  last = name.rsplit(".", 1)[-1].split("[")[0]
  return any(last == f for fs in spec["structs"].values() for f, _ in fs)


def sample(case):
  from ..gen import emit
  if case.get("family") == "funcw":
    return {"family": "funcw", "scheds": case["scheds"], "source": funcw_source(case["tmpl"])}
  return {"orderings": case["orderings"], "scheds": case["scheds"],
          "expected_nets": [[w, sorted(m)] for w, m in E.expected_nets(case["spec"])][:6],
          "source_head": emit.source(case["spec"])[:1200]}


def shrink(case):
  if case.get("family") == "funcw":
    if case["tmpl"]["depth"] > 2:
      yield dict(case, tmpl=dict(case["tmpl"], depth=2))
    return
  if len(case["orderings"]) > 1:
    for i in range(1, len(case["orderings"])):
      yield dict(case, orderings=[case["orderings"][0], case["orderings"][i]])
  yield from C.shrink_spec_case(case, keep_sched_key="_none")
