"""C18 - magic memories act as one in-order memory whatever the timing parameters.

DUTs: MagicMemoryCL (CL ports, DelayPipe/StallCL), stream.MagicMemoryRTL
(val/rdy ports, RandomStall, InelasticDelayPipe), MagicMemoryFL (blocking
interface).  Our own sources (seeded gaps) and recording sinks (seeded
back-pressure); stall randomness of the code under test comes from the seeded
stall stream (S5) and stops at a seeded cycle T.
Oracle: the order in which the memory *processed* requests is recorded by
wrappers on the MagicMemoryFL instance (port taken from the caller frame of
up_mem); (1) per port that order is the request order, (2) responses per port
in request order with the request's type and opaque, (3) response data equals
a byte-dictionary model applied in processed order, (4) final image equals the
model, (5) after T everything outstanding completes within a bound, (6) a
single-port run repeated with other timing parameters gives identical
response contents.
"""
import sys

from pymtl3 import *
from pymtl3.stdlib.mem.MemMsg import mk_mem_msg
from pymtl3.stdlib.stream.ifcs import RecvIfcRTL as SRecvIfcRTL, SendIfcRTL as SSendIfcRTL

from ..core import rng as _rng, seams
from ..models import memory as MM
from . import common_rtl as C

ID = "C18"
LEVEL = "exploration"
RULE = ("case = DUT (MagicMemoryCL | stream.MagicMemoryRTL | MagicMemoryFL) x ports 1..4 x latency 0..8 x stall "
        "probability {0,.2,.5,.8} x per-port seeded streams of READ/WRITE (len 1..4, straddling, overlapping in a "
        "64-byte window) and word AMOs (in half of the cases a pool of 1-3 values shared by full-word writes and AMO "
        "operands on three hot words, so that an operand regularly equals the stored word) x source gaps x sink back-pressure x scheduler; faults stop at a seeded cycle; "
        "non-trivial = >=2 ports touched a common byte with at least one write, or >=1 read returned non-zero data "
        "written earlier; distinct = case digest")
TIERS = {"quick": {"runs": 2400, "budget_s": 100, "chunk": 4},
         "thorough": {"runs": 1000000, "budget_s": 1800, "chunk": 8}}
REAL = ["MagicMemoryCL", "stream.MagicMemoryRTL (RandomStall, InelasticDelayPipe)", "MagicMemoryFL + AMO_FUNS",
        "fast_bytearray_funcs", "DelayPipeDeqCL / DelayPipeSendCL / StallCL", "MemMsg", "schedulers, greenlets for FL"]
STUB = ["sources / recording sinks", "seeded Random behind StallCL / RandomStall (S5)", "byte-dictionary model",
        "processed-order recorder on the MagicMemoryFL instance"]
ASSUMPTIONS = ["sub-word AMOs are outside the property (the implementation adds a 32-bit operand to an 8*len-bit value "
               "and raises; AMOs are defined at the architecture width)"]

BASE = 0x1000
WIN = 64
ReqT, RespT = mk_mem_msg(8, 32, 32)
TYPES = {32: (ReqT, RespT), 64: mk_mem_msg(8, 32, 64), 16: mk_mem_msg(8, 32, 16)}     # per-port data widths


def _types(widths, nports):
  return [TYPES[w] for w in (widths or [32] * nports)]


# ---------------------------------------------------------------------------
# harness components (ours)
# ---------------------------------------------------------------------------

class SrcCL(Component):
  def construct(s, msgs, gaps, ctl, log, port, ReqT=ReqT):
    s.send = CallerIfcCL(Type=ReqT)
    s.idx = 0
    s.wait = gaps[0] if gaps else 0

    @update_once
    def up_src():
      if s.idx < len(msgs):
        if s.wait > 0 and not ctl["stopped"]:
          s.wait -= 1
        elif s.send.rdy():
          s.send(msgs[s.idx])
          log.append(("req", port, s.idx, ctl["cycle"]))
          s.idx += 1
          s.wait = gaps[s.idx] if s.idx < len(gaps) else 0


class SinkCL(Component):
  def construct(s, pattern, ctl, log, port):
    s.ok = True

    @update_once
    def up_sink():
      c = ctl["cycle"]
      s.ok = ctl["stopped"] or pattern[c % len(pattern)]

    s.add_constraints(U(up_sink) < M(s.recv), U(up_sink) < M(s.recv.rdy))
    s._log = log
    s._port = port
    s._ctl = ctl

  @non_blocking(lambda s: s.ok)
  def recv(s, msg):
    s._log.append(("resp", s._port, (int(msg.type_), int(msg.opaque), int(msg.len), int(msg.data)), s._ctl["cycle"]))


class Clock(Component):
  def construct(s, ctl, T):
    @update_once
    def up_clock():
      ctl["cycle"] += 1
      if ctl["cycle"] >= T:
        ctl["stopped"] = True


class TopCL(Component):
  def construct(s, nports, stall_prob, latency, msgs, gaps, patterns, ctl, log, T, widths=None):
    from pymtl3.stdlib.mem.MagicMemoryCL import MagicMemoryCL
    ty = _types(widths, nports)
    s.srcs = [SrcCL(msgs[i], gaps[i], ctl, log, i, ty[i][0]) for i in range(nports)]
    s.mem = MagicMemoryCL(nports, ty, stall_prob, latency)
    s.sinks = [SinkCL(patterns[i], ctl, log, i) for i in range(nports)]
    for i in range(nports):
      connect(s.srcs[i].send, s.mem.ifc[i].req)
      connect(s.mem.ifc[i].resp, s.sinks[i].recv)


class SrcEnRdyRTL(Component):
  """an en/rdy RTL master in front of the CL memory (connect() inserts the RTL-to-CL adapter): the request is
  a SIGNAL, i.e. one message object that is overwritten in place with the next request"""
  def construct(s, msgs, gaps, ctl, log, port, ReqT=ReqT):
    from pymtl3.stdlib.ifcs import SendIfcRTL as ESendIfcRTL
    s.send = ESendIfcRTL(ReqT)
    s.idx = 0
    s.wait = gaps[0] if gaps else 0
    s.have = Wire(Bits1)

    @update_ff
    def up_src_ff():
      if s.reset:
        s.idx = 0
        s.wait = gaps[0] if gaps else 0
        s.have <<= 0
      else:
        if s.send.en:
          log.append(("req", port, s.idx, ctl["cycle"]))
          s.idx += 1
          s.wait = gaps[s.idx] if s.idx < len(gaps) else 0
        if s.wait > 0 and not ctl["stopped"]:
          s.wait -= 1
          s.have <<= 0
        else:
          s.have <<= 1 if s.idx < len(msgs) else 0

    @update
    def up_src_comb():
      s.send.en @= s.have & s.send.rdy
      if s.idx < len(msgs):
        s.send.msg @= msgs[s.idx]


class TopCLR(Component):
  def construct(s, nports, stall_prob, latency, msgs, gaps, patterns, ctl, log, T, widths=None):
    from pymtl3.stdlib.mem.MagicMemoryCL import MagicMemoryCL
    ty = _types(widths, nports)
    s.srcs = [SrcEnRdyRTL(msgs[i], gaps[i], ctl, log, i, ty[i][0]) for i in range(nports)]
    s.mem = MagicMemoryCL(nports, ty, stall_prob, latency)
    s.sinks = [SinkCL(patterns[i], ctl, log, i) for i in range(nports)]
    for i in range(nports):
      connect(s.srcs[i].send, s.mem.ifc[i].req)
      connect(s.mem.ifc[i].resp, s.sinks[i].recv)


class SrcRTL(Component):
  def construct(s, msgs, gaps, ctl, log, port, ReqT=ReqT):
    s.send = SSendIfcRTL(ReqT)
    s.idx = 0
    s.wait = 0

    @update_ff
    def up_src():
      if s.reset:
        s.idx = 0
        s.wait = gaps[0] if gaps else 0
        s.send.val <<= 0
      else:
        if s.send.val & s.send.rdy:
          log.append(("req", port, s.idx, ctl["cycle"]))
          s.idx += 1
          s.wait = gaps[s.idx] if s.idx < len(gaps) else 0
        if s.wait > 0 and not ctl["stopped"]:
          s.wait -= 1
          s.send.val <<= 0
        elif s.idx < len(msgs):
          s.send.val <<= 1
          s.send.msg <<= msgs[s.idx]
        else:
          s.send.val <<= 0


class SinkRTL(Component):
  def construct(s, pattern, ctl, log, port, RespT=RespT):
    s.recv = SRecvIfcRTL(RespT)

    @update_ff
    def up_sink():
      if s.reset:
        s.recv.rdy <<= 0
      else:
        if s.recv.val & s.recv.rdy:
          m = s.recv.msg
          log.append(("resp", port, (int(m.type_), int(m.opaque), int(m.len), int(m.data)), ctl["cycle"]))
        c = ctl["cycle"]
        s.recv.rdy <<= 1 if (ctl["stopped"] or pattern[c % len(pattern)]) else 0


class ClockRTL(Component):
  def construct(s, ctl, T):
    @update_ff
    def up_clock():
      ctl["cycle"] += 1
      if ctl["cycle"] >= T:
        ctl["stopped"] = True


class TopRTL(Component):
  def construct(s, nports, stall_prob, latency, msgs, gaps, patterns, ctl, log, T, widths=None):
    from pymtl3.stdlib.stream.magic_memory import MagicMemoryRTL
    ty = _types(widths, nports)
    s.srcs = [SrcRTL(msgs[i], gaps[i], ctl, log, i, ty[i][0]) for i in range(nports)]
    s.mem = MagicMemoryRTL(nports, ty, stall_prob, latency)
    s.sinks = [SinkRTL(patterns[i], ctl, log, i, ty[i][1]) for i in range(nports)]
    for i in range(nports):
      connect(s.srcs[i].send, s.mem.ifc[i].req)
      connect(s.mem.ifc[i].resp, s.sinks[i].recv)


class MasterFL(Component):
  def construct(s, reqs, per_cycle, log):
    from pymtl3.stdlib.mem.mem_ifcs import MemMasterIfcFL
    s.mem = MemMasterIfcFL()
    s.idx = 0
    s.cyc = 0

    @update_once
    def up_master():
      s.cyc += 1
      n = max(per_cycle[s.cyc % len(per_cycle)], 1 if s.cyc % 5 == 0 else 0) if s.idx < len(reqs) else 0
      for _ in range(n):
        if s.idx >= len(reqs):
          break
        typ, off, ln, data, opq = reqs[s.idx]
        nbytes = ln or 4
        if typ == MM.READ:
          r = int(s.mem.read(BASE + off, nbytes))
        elif typ == MM.WRITE:
          s.mem.write(BASE + off, nbytes, mk_bits(nbytes * 8)(data & ((1 << (8 * nbytes)) - 1)))
          r = 0
        else:
          r = int(s.mem.amo(typ, BASE + off, nbytes, Bits32(data)))
        log.append(("resp", 0, (typ, opq, 0, r), 0))
        s.idx += 1


class TopFL(Component):
  def construct(s, reqs, per_cycle, log):
    from pymtl3.stdlib.mem.MagicMemoryFL import MagicMemoryFL
    s.master = MasterFL(reqs, per_cycle, log)
    s.mem = MagicMemoryFL(1 << 14)
    connect(s.master.mem, s.mem.ifc)


# ---------------------------------------------------------------------------
# S5: seeded stall randomness
# ---------------------------------------------------------------------------

class SeededRandomFactory:
  def __init__(self, seed, ctl, counter):
    self.seed, self.ctl, self.counter = seed, ctl, counter

  def __call__(self, stall_seed=0):
    import random
    factory = self

    class R(random.Random):
      def random(self_inner):
        if factory.ctl["stopped"]:
          return 1.0
        v = random.Random.random(self_inner)
        factory.counter["draws"] += 1
        return v
    return R(_rng.h64("stall", self.seed, stall_seed))


# ---------------------------------------------------------------------------
# case generation
# ---------------------------------------------------------------------------

def gen_reqs(inp, n, opq0, width=32):
  out = []
  nb = width // 8
  for k in range(n):
    r = inp.random()
    if r < 0.42:
      typ = MM.READ
    elif r < 0.84 or width != 32:          # AMOs are defined for 32-bit ports
      typ = MM.WRITE if r >= 0.42 else MM.READ
    else:
      typ = inp.choice(MM.AMOS)
    if typ in MM.AMOS:
      ln = 0
      off = inp.randrange(0, WIN - 4)
    else:
      ln = inp.choice([0, 0] + list(range(1, nb)))      # 0 = the port's full data width
      off = inp.randrange(0, WIN - nb)
    # bias to a few hot addresses so that ports interact
    if inp.random() < 0.5:
      off = inp.choice([0, 2, 4, 5, 8])
    data = inp.getrandbits(32) if inp.random() < 0.8 else inp.choice([0, 0xffffffff, 0x80000000, 0x7fffffff])
    if width != 32:
      data = inp.getrandbits(width)
    out.append([typ, off, ln, data, (opq0 + k) & 0xff])
  return out


def pool_values(R, reqs_per_port, widths):
  """a few data values shared by full-word writes and AMO operands on a few word-aligned hot addresses (all
  ports), so that an AMO operand regularly EQUALS the word it meets in memory (x ^ x, min(x, x), swap(x, x)...)"""
  p = R("pool")
  if p.random() < 0.5:
    return
  pool = [p.getrandbits(32) | 1 for _ in range(p.randint(1, 3))]
  hot = [0, 4, 8]
  for reqs, w in zip(reqs_per_port, widths):
    if w != 32:
      continue
    for q in reqs:
      if (q[0] == MM.WRITE or q[0] in MM.AMOS) and p.random() < 0.45:
        q[1], q[2], q[3] = p.choice(hot), 0, p.choice(pool)


def gen_case(R, tier):
  case = _gen_case(R, tier)
  pool_values(R, case["reqs"], case.get("widths") or [32] * len(case["reqs"]))
  return case


def _gen_case(R, tier):
  c = R("case")
  inp = R("input")
  flt = R("fault")
  s = R("sched")
  r = c.random()
  dut = "cl" if r < 0.4 else "clr" if r < 0.5 else ("rtl" if r < 0.9 else "fl")
  if dut == "fl":
    reqs = gen_reqs(inp, inp.randint(10, 60), 0)
    return {"dut": "fl", "reqs": [reqs], "per_cycle": [inp.randint(0, 3) for _ in range(8)],
            "sched": [s.choice(("default", "default_s2", "mamba", "mamba_s2")), s.getrandbits(32)],
            "hash_seed": R.sub_seed("hash")}
  nports = c.choice([1, 1, 2, 2, 3, 4]) if dut in ("cl", "clr") else c.choice([1, 2, 2, 3])
  lat = c.choice([0, 1, 1, 2, 3, 5, 8]) if dut == "cl" else c.choice([0, 0, 1, 2, 4, 6])
  nreq = [inp.randint(5, 30) for _ in range(nports)]
  # ports of one memory may carry different data widths (len == 0 means the PORT's full width)
  widths = [32] * nports
  if c.random() < 0.3:
    widths = [c.choice([32, 64, 64, 16]) for _ in range(nports)]
  reqs = [gen_reqs(inp, nreq[i], 64 * i, widths[i]) for i in range(nports)]
  gaps = [[flt.choice([0, 0, 0, 1, 2, 5]) for _ in range(nreq[i] + 1)] for i in range(nports)]
  pprob = flt.choice([1.0, 0.8, 0.5, 0.3])
  patterns = [[1 if flt.random() < pprob else 0 for _ in range(37)] for _ in range(nports)]
  for p in patterns:
    if not any(p):
      p[0] = 1
  T = flt.randint(20, 150)
  scheds = ("default", "default_s2", "mamba", "mamba_s2", "simple", "simple_s2", "heutopo", "unroll", "forced")
  return {"dut": dut, "nports": nports, "latency": lat, "stall_prob": flt.choice([0, 0.2, 0.5, 0.8]),
          "reqs": reqs, "widths": widths, "gaps": gaps, "patterns": patterns, "T": T, "stall_seed": R.sub_seed("stall"),
          "sched": [s.choice(scheds), s.getrandbits(32)], "hash_seed": R.sub_seed("hash"),
          "alt": {"latency": c.choice([0, 1, 2, 4]), "stall_prob": flt.choice([0, 0.5]),
                  "stall_seed": R.sub_seed("stall2")}}


# ---------------------------------------------------------------------------
# running
# ---------------------------------------------------------------------------

def mk_msgs(reqs, width=32):
  R = TYPES[width][0]
  return [R(typ, opq, BASE + off, ln, data) for (typ, off, ln, data, opq) in reqs]


def install_recorder(flmem, plog):
  """Wrap read/write/amo of one MagicMemoryFL instance; log processed ops
  with the port taken from the caller frame of up_mem."""
  depth = [0]

  def port_of():
    f = sys._getframe(2)
    while f is not None:
      if f.f_code.co_name == "up_mem":
        req = f.f_locals.get("req")
        return (f.f_locals.get("i"), int(req.opaque) if req is not None else None)
      f = f.f_back
    return (None, None)

  o_read, o_write, o_amo = flmem.read, flmem.write, flmem.amo

  def read(addr, nbytes):
    ret = o_read(addr, nbytes)
    if depth[0] == 0:
      plog.append((port_of(), "rd", int(addr), int(nbytes), 0, int(ret)))
    return ret

  def write(addr, nbytes, data):
    if depth[0] == 0:
      plog.append((port_of(), "wr", int(addr), int(nbytes), int(data), 0))
    return o_write(addr, nbytes, data)

  def amo(op, addr, nbytes, data):
    p = port_of()
    depth[0] += 1
    try:
      ret = o_amo(op, addr, nbytes, data)
    finally:
      depth[0] -= 1
    plog.append((p, "amo%d" % int(op), int(addr), int(nbytes), int(data), int(ret)))
    return ret

  flmem.__dict__["read"] = read
  flmem.__dict__["write"] = write
  flmem.__dict__["amo"] = amo


def simulate(case, latency, stall_prob, stall_seed, stats):
  """-> (log, plog, final_image, cycles, error_violation_or_None)"""
  from ..sched import harness
  from pymtl3.dsl.errors import UpblkCyclicError
  dut = case["dut"]
  ctl = {"cycle": 0, "stopped": False}
  log, plog = [], []
  counter = {"draws": 0}
  seams.set_hash_stream(case["hash_seed"])
  factory = SeededRandomFactory(stall_seed, ctl, counter)
  mods = ["pymtl3.stdlib.delays.StallCL", "pymtl3.stdlib.stream.magic_memory"]
  for m in mods:
    __import__(m)
  saved = {m: sys.modules[m].Random for m in mods}
  for m in mods:
    sys.modules[m].Random = factory
  sched, sseed = case["sched"]
  try:
    nports = case["nports"]
    widths = case.get("widths") or [32] * nports
    msgs = [mk_msgs(r, widths[i]) for i, r in enumerate(case["reqs"])]
    Top = TopCL if dut == "cl" else TopCLR if dut == "clr" else TopRTL

    def build():
      return Top(nports, stall_prob, latency, msgs, case["gaps"], case["patterns"], ctl, log, case["T"], widths)
    top = build()
    top.elaborate()
    try:
      harness.prepare(top, sched, sseed)
    except UpblkCyclicError:
      if sched not in harness.ACYCLIC_ONLY:
        raise
      sched = "default_s2"
      seams.set_hash_stream(case["hash_seed"])
      ctl.update(cycle=0, stopped=False)
      top = build()
      top.elaborate()
      harness.prepare(top, sched, sseed)
    stats["fault_counts"]["sched." + sched] = stats["fault_counts"].get("sched." + sched, 0) + 1
    install_recorder(top.mem.mem, plog)
    top.sim_reset()
    ctl["cycle"] = 0
    ctl["stopped"] = False
    total = sum(len(r) for r in case["reqs"])
    maxn = max(len(r) for r in case["reqs"])
    # generous global cap; the liveness bound itself is checked on the log
    cap = case["T"] + 3 * maxn + 4 * latency + 60
    ncyc = 0
    nresp = 0
    while ncyc < cap:
      ctl["cycle"] = ncyc
      ctl["stopped"] = ncyc >= case["T"]
      top.sim_tick()
      ncyc += 1
      nresp = sum(1 for e in log if e[0] == "resp")
      if nresp >= total and ncyc > case["T"]:
        break
    image = bytes(top.mem.read_mem(BASE, WIN))
    stats["sim_cycles"] += ncyc
    stats["fault_counts"]["stall.rand_draws"] = stats["fault_counts"].get("stall.rand_draws", 0) + counter["draws"]
    return log, plog, image, ncyc, None
  except Exception as e:
    return log, plog, b"", 0, C.exc_violation(e, "sim/%s/%s" % (dut, sched))
  finally:
    for m in mods:
      sys.modules[m].Random = saved[m]


def check_history(case, log, plog, image, ncyc, latency, stats):
  """plog events: ((port, opaque), op, addr, nbytes, data, ret).  A request may be
  processed more than once while its response cannot be accepted yet (events with the
  same (port, opaque) in a row); the model mirrors every event, the delivered response
  is the one of the last event, and a multi-event AMO is checked against a single
  application when nobody else wrote its bytes in between."""
  viols = []
  nports = case["nports"]
  reqs = case["reqs"]
  T = case["T"]

  def bad(check, **kw):
    viols.append(C.viol(check, dict(kw, dut=case["dut"], latency=latency, nports=nports), dut=case["dut"]))

  by_opq = [{r[4]: k for k, r in enumerate(reqs[p])} for p in range(nports)]
  cur = [-1] * nports          # index of the request each port is currently processing
  model = MM.MemModel()
  last_writer = {}             # byte -> (port, index) of the last event that wrote it
  expect = [dict() for _ in range(nports)]
  amo_first = {}               # (port, index) -> (value before first event, n_events)
  for ((p, opq), op, addr, nbytes, data, ret) in plog:
    if p is None or not 0 <= p < nports or opq not in by_opq[p]:
      bad("processed_unknown_request", port=p, opaque=opq, op=op)
      return viols
    k = by_opq[p][opq]
    if k != cur[p]:
      if k != cur[p] + 1:
        bad("processed_order", port=p, got_index=k, want_index=cur[p] + 1)
        return viols
      cur[p] = k
    else:
      stats["probes"]["reprocessed_events"] += 1
    typ, off, ln, rdata, _ = reqs[p][k]
    n = ln or (case.get("widths") or [32] * nports)[p] // 8
    want_op = "rd" if typ == MM.READ else ("wr" if typ == MM.WRITE else "amo%d" % typ)
    want_data = 0 if typ == MM.READ else (rdata & ((1 << (8 * n)) - 1) if typ == MM.WRITE else rdata)
    if (op, addr, nbytes) != (want_op, BASE + off, n) or (typ != MM.READ and data != want_data):
      bad("processed_wrong_operation", port=p, index=k, got=[op, addr, nbytes, data],
          want=[want_op, BASE + off, n, want_data])
      return viols
    if typ in MM.AMOS:
      v0 = model.read(addr, 4)
      if (p, k) not in amo_first:
        amo_first[(p, k)] = [v0, 1, True]
      else:
        amo_first[(p, k)][1] += 1
    val = model.apply(typ, addr, n, rdata)
    if typ != MM.WRITE and ret != val:
      bad("memory_value", port=p, index=k, op=op, addr=addr, got=ret, want=val)
      return viols
    if typ != MM.READ:
      for i in range(n):
        b = addr + i
        prev = last_writer.get(b)
        last_writer[b] = (p, k)
        # a write by somebody else between two events of a multi-event AMO marks it as interfered
        for key, ent in amo_first.items():
          if key != (p, k) and key[0] != p and cur[key[0]] == key[1] and \
             reqs[key[0]][key[1]][1] + BASE <= b < reqs[key[0]][key[1]][1] + BASE + 4:
            ent[2] = False
    expect[p][k] = val
    if typ in MM.AMOS:
      ent = amo_first[(p, k)]
      if ent[1] > 1 and ent[2]:
        once = MM.MemModel()
        once.write(addr, 4, ent[0])
        once.amo(typ, addr, rdata)
        if model.read(addr, 4) != once.read(addr, 4) or val != ent[0]:
          bad("amo_applied_more_than_once", port=p, index=k, amo=typ, addr=addr, operand=rdata,
              value_before=ent[0], times=ent[1], stored=model.read(addr, 4), want_stored=once.read(addr, 4),
              returned_old=val)
          return viols
  # (2)+(3) responses per port
  got = [[] for _ in range(nports)]
  arrive = [[] for _ in range(nports)]
  for e in log:
    if e[0] == "resp":
      got[e[1]].append(e[2])
      arrive[e[1]].append(e[3])
  for p in range(nports):
    for k, (typ, opq, ln, data) in enumerate(got[p]):
      if k >= len(reqs[p]):
        bad("extra_response", port=p, index=k)
        return viols
      rtyp, off, rln, rdata, ropq = reqs[p][k]
      if typ != rtyp or opq != ropq:
        bad("response_order", port=p, index=k, got=[typ, opq], want=[rtyp, ropq])
        return viols
      if k not in expect[p]:
        bad("response_before_processing", port=p, index=k)
        return viols
      if data != expect[p][k]:
        bad("response_data", port=p, index=k, type=typ, got=data, want=expect[p][k])
        return viols
      if typ == MM.READ and ln != rln:
        bad("response_len", port=p, index=k, got=ln, want=rln)
        return viols
  # (5) bounded liveness after faults stop
  for p in range(nports):
    if len(got[p]) != len(reqs[p]):
      bad("liveness_missing_responses", port=p, got=len(got[p]), want=len(reqs[p]), cycles=ncyc, T=T)
      return viols
    before = sum(1 for a in arrive[p] if a < T)
    outstanding = len(reqs[p]) - before
    last = max(arrive[p]) if arrive[p] else 0
    slack = last - (T + outstanding + latency)
    if outstanding:
      stats["max_slack"] = max(stats.get("max_slack", -99), slack)
    if outstanding and slack > 4:
      bad("liveness_bound", port=p, outstanding=outstanding, last_arrival=last, T=T, slack=slack)
      return viols
  # (4) final image
  want = bytes(model.b.get(BASE + i, 0) for i in range(WIN))
  if image != want:
    i = [i for i in range(WIN) if image[i] != want[i]][0]
    bad("final_image", offset=i, got=image[i], want=want[i])
  return viols


def run_fl(case, stats):
  from ..sched import harness
  D = _rng.Digest()
  log, plog = [], []
  seams.set_hash_stream(case["hash_seed"])
  sched, sseed = case["sched"]
  reqs = case["reqs"][0]
  try:
    top = TopFL(reqs, case["per_cycle"], log)
    top.elaborate()
    harness.prepare(top, sched, sseed)
    stats["fault_counts"]["sched." + sched] = 1
    top.sim_reset()
    n = 0
    while top.master.idx < len(reqs) and n < 4 * len(reqs) + 20:
      top.sim_tick()
      n += 1
    stats["sim_cycles"] += n
    image = bytes(top.mem.read_mem(BASE, WIN))
  except Exception as e:
    return [C.exc_violation(e, "sim/fl/%s" % sched)], D
  model = MM.MemModel()
  got = [e[2] for e in log]
  viols = []
  if len(got) != len(reqs):
    return [C.viol("liveness_missing_responses", {"dut": "fl", "got": len(got), "want": len(reqs)}, dut="fl")], D
  for k, (typ, off, ln, data, opq) in enumerate(reqs):
    val = model.apply(typ, BASE + off, ln, data)
    D.add(k, got[k])
    if got[k][0] != typ or got[k][1] != opq:
      return [C.viol("response_order", {"dut": "fl", "index": k}, dut="fl")], D
    if typ != MM.WRITE and got[k][3] != val:
      return [C.viol("response_data", {"dut": "fl", "index": k, "type": typ, "got": got[k][3], "want": val},
                     dut="fl")], D
    if val:
      stats["nonzero_reads"] += 1
  want = bytes(model.b.get(BASE + i, 0) for i in range(WIN))
  if image != want:
    viols.append(C.viol("final_image", {"dut": "fl"}, dut="fl"))
  return viols, D


def run_case(case):
  stats = {"fault_counts": {"dut." + case["dut"]: 1}, "sim_cycles": 0, "nonzero_reads": 0,
           "probes": {"ports_share_written_byte": 0, "straddling_access": 0, "amo": 0, "timing_rerun": 0,
                      "reprocessed_events": 0}}
  if case["dut"] == "fl":
    v, D = run_fl(case, stats)
    return {"violations": v, "digest": D.hex(), "nontrivial": stats["nonzero_reads"] > 0, "stats": stats}
  D = _rng.Digest()
  log, plog, image, ncyc, err = simulate(case, case["latency"], case["stall_prob"], case["stall_seed"], stats)
  if err:
    return {"violations": [err], "digest": D.hex(), "nontrivial": False, "stats": stats}
  stats["fault_counts"]["delay.latency=%d" % case["latency"]] = 1
  if len(set(case.get("widths") or [32])) > 1 or set(case.get("widths") or [32]) != {32}:
    stats["fault_counts"]["config.non_32bit_or_mixed_port_widths"] = 1
  stats["fault_counts"]["stall.prob=%s" % case["stall_prob"]] = 1
  stats["fault_counts"]["stall.sink_backpressure_cycles"] = sum(p.count(0) for p in case["patterns"])
  stats["fault_counts"]["stall.source_gaps"] = sum(sum(1 for g in gs if g) for gs in case["gaps"])
  viols = check_history(case, log, plog, image, ncyc, case["latency"], stats)
  resp = [[e[2] for e in log if e[0] == "resp" and e[1] == p] for p in range(case["nports"])]
  D.add(resp, plog)
  # probes
  touched = {}
  for p, rs in enumerate(case["reqs"]):
    for typ, off, ln, data, opq in rs:
      n = ln or (case.get("widths") or [32] * case["nports"])[p] // 8
      if off % 4 + n > 4:
        stats["probes"]["straddling_access"] += 1
      if typ in MM.AMOS:
        stats["probes"]["amo"] += 1
      for b in range(off, off + n):
        touched.setdefault(b, set()).add((p, typ != MM.READ))
  share = any(len({p for p, w in s}) >= 2 and any(w for p, w in s) for s in touched.values())
  stats["probes"]["ports_share_written_byte"] = int(share)
  nz = sum(1 for r in resp for (typ, opq, ln, data) in r if typ == MM.READ and data)
  stats["nonzero_reads"] = nz
  # (6) timing independence for single-port histories
  if not viols and case["nports"] == 1:
    alt = case["alt"]
    log2, plog2, image2, ncyc2, err2 = simulate(case, alt["latency"], alt["stall_prob"], alt["stall_seed"], stats)
    stats["probes"]["timing_rerun"] = 1
    if err2:
      viols.append(err2)
    else:
      resp2 = [e[2] for e in log2 if e[0] == "resp"]
      if resp2 != resp[0]:
        k = [i for i in range(min(len(resp2), len(resp[0]))) if resp2[i] != resp[0][i]]
        viols.append(C.viol("timing_changes_contents", {"first_diff": k[:1], "a": len(resp[0]), "b": len(resp2),
                                                         "latencies": [case["latency"], alt["latency"]]},
                            dut=case["dut"]))
      elif image2 != image:
        viols.append(C.viol("timing_changes_image", {}, dut=case["dut"]))
  ms = stats.pop("max_slack", None)
  if ms is not None and ms > -99:
    stats["slack_values"] = [ms]
  return {"violations": viols[:2], "digest": D.hex(), "nontrivial": share or nz > 0, "stats": stats}


def sample(case):
  d = {k: v for k, v in case.items() if k not in ("patterns", "gaps")}
  d["reqs"] = [r[:6] for r in case["reqs"]]
  return d


def shrink(case):
  if case["dut"] == "fl":
    r = case["reqs"][0]
    for i in range(len(r) - 1, -1, -1):
      yield dict(case, reqs=[r[:i] + r[i + 1:]])
    return
  for p in range(case["nports"]):
    r = case["reqs"][p]
    k = len(r)
    while k >= 1:
      for a in range(0, len(r), k):
        cand = r[:a] + r[a + k:]
        if cand:
          reqs = list(case["reqs"])
          reqs[p] = cand
          yield dict(case, reqs=reqs)
      k //= 2
  if case["stall_prob"]:
    yield dict(case, stall_prob=0)
  if case["latency"] > 1:
    yield dict(case, latency=1)
  yield dict(case, patterns=[[1] for _ in case["patterns"]])
  yield dict(case, gaps=[[0] * len(g) for g in case["gaps"]])
