"""C11 - combinational cycles settle on a fixed point or are reported.

Families:
  false     generated acyclic design with merged blocks (block-level loop,
            bit-level acyclic): must return, state == reference evaluator,
            and be a fixed point
  true      or/and rings, dynamic muxes, even inverter rings (must converge to
            a fixed point), odd inverter rings (must raise), plus rings
            (raise or fixed point)
  once      an @update_once block inside a cycle: UpblkCyclicError at
            scheduling time
Cyclic-capable schedulers: default, mamba and their seeded-order variants.
Acyclic-only schedulers given a cyclic graph must raise UpblkCyclicError and
never return a schedule.
"""
import random

from ..core import rng as _rng, seams
from ..gen import cosim, designgen, emit, templates
from . import common_rtl as C

ID = "C11"
LEVEL = "exploration"
RULE = ("case = family (false: generated design with merged blocks | true: or/and/mux/inverter/plus rings of 2..14 "
        "blocks, optionally through nets | once: update_once in a cycle | piecenet: a false loop through a generated net "
        "block whose writer is driven in halves by two blocks of the group) x cyclic-capable scheduler (default, mamba, "
        "seeded-order variants) + one acyclic-only scheduler that must reject x 4..10 cycles of inputs with dup.block "
        "fixed-point probes; non-trivial = the schedule really contained an SCC super-block (or an expected error was "
        "seen); distinct = case digest")
TIERS = {"quick": {"runs": 1600, "budget_s": 100, "chunk": 4},
         "thorough": {"runs": 250000, "budget_s": 1800, "chunk": 8}}
REAL = ["DynamicSchedulePass SCC iteration", "Mamba2020Pass SCC meta-blocks", "GenDAGPass constraint_objs",
        "SimpleSchedulePass/HeuristicTopoPass cycle rejection"]
STUB = ["design generator / loop templates", "integer reference evaluator (false loops only)",
        "dump_dag recorder instead of graphviz + viewer (S9)"]
ASSUMPTIONS = ["convergent templates settle in far fewer than 100 SCC passes (chain depth <= 14)"]

ACYCLIC_ONLY = ("simple", "unroll", "heutopo", "simple_s2", "heutopo_s2", "forced")


def gen_case(R, tier):
  c = R("case")
  s = R("sched")
  uid = "y%x" % (R.seed & 0xffffff)
  r = c.random()
  base = {"hash_seed": R.sub_seed("hash"), "uid": uid,
          "scheds": [[x, s.getrandbits(32)] for x in s.sample(C.CYCLIC_SCHEDS, 2)],
          "reject_sched": [s.choice(ACYCLIC_ONLY), s.getrandbits(32)]}
  if R("fam").random() < 0.06:
    base.update(family="piecenet", tmpl=gen_piece(R("piece"), uid))
    return base
  if r < 0.5:
    spec = designgen.DesignGen(c, c.choice(["acyclic", "shapes", "big"]), uid=uid).gen()
    templates.merge_blocks(spec, c, c.randint(1, 4))
    base.update(family="false", spec=spec, meta={"must_converge": True})
  elif r < 0.92:
    spec, meta = templates.true_loop(c, uid)
    base.update(family="true", spec=spec, meta=meta)
  else:
    base.update(family="once", src=templates.once_in_cycle_source(c, uid))
    return base
  seq = designgen.gen_inputs(spec, R("input"), R("input").randint(4, 10))
  for st in seq:
    if R("fault").random() < 0.5:
      st["dup_block"] = R("fault").getrandbits(30)
  base["inputs"] = seq
  return base


def has_scc(top):
  """Does the schedule contain an SCC super-block (directly or inside a Mamba meta-block)?"""
  def is_scc(f):
    return getattr(f, "__name__", "").startswith("wrapped_SCC")
  try:
    for b in top._sched.update_schedule:
      if is_scc(b):
        return True
      if getattr(b, "__name__", "").startswith("meta_block"):
        if any(is_scc(v) for v in b.__globals__.values()):
          return True
  except Exception:
    pass
  return False


def fixed_point_check(top, acc, r, nmax=8):
  """Re-invoke blocks one at a time; nothing may change."""
  ffs = top.get_all_update_ff()
  key = lambda b: getattr(b, "__name__", "")
  blks = sorted([b for b in top._dag.final_upblks if b not in ffs], key=key)
  before = acc.snapshot()
  n = 0
  for b in (r.sample(blks, nmax) if len(blks) > nmax else blks):
    b()
    n += 1
    after = acc.snapshot()
    if after != before:
      k = [k for k in before if before[k] != after[k]][0]
      return n, {"block": key(b), "signal": k, "before": hex(before[k]), "after": hex(after[k])}
  return n, None


def run_rtl(case, stats):
  from ..sched import harness
  from pymtl3.dsl.errors import UpblkCyclicError
  spec = case["spec"]
  meta = case["meta"]
  fam = case["family"]
  cyc_seen = False
  D = stats["D"]
  for sched, sseed in case["scheds"]:
    stats["fault_counts"]["sched." + sched] = stats["fault_counts"].get("sched." + sched, 0) + 1
    try:
      sim = C.Sim(spec, sched, sseed, case["hash_seed"] ^ sseed)
    except UpblkCyclicError as e:
      return [C.viol("spurious_cyclic_error_at_schedule", {"sched": sched, "exc": str(e)[:300], "family": fam,
                                                           "kind": meta.get("kind")})]
    except Exception as e:
      return [C.exc_violation(e, "build/%s" % sched)]
    top, ref, acc = sim.top, sim.ref, sim.acc
    scc = has_scc(top)
    cyc_seen = cyc_seen or scc
    stats["probes"]["scc_superblock"] += int(scc)
    if scc and sched.startswith("mamba") and meta.get("n", 0) >= 10:
      stats["probes"]["mamba_scc_ge_10_blocks"] += 1
    nblk = len(top._dag.final_upblks)
    try:
      with harness.BlockRecorder(top) as rec:
        top.sim_reset()
      stats["block_calls"] += len(rec.log)
      if fam == "false":
        sim.ref.set_input("s.reset", 1)
        sim.ref.eval_comb(); sim.ref.tick(); sim.ref.tick(); sim.ref.tick()
        sim.ref.set_input("s.reset", 0); sim.ref.eval_comb()
      for t, st in enumerate(case["inputs"]):
        sim.set_inputs(st)
        with harness.BlockRecorder(top) as rec:
          top.sim_eval_combinational()
        stats["block_calls"] += len(rec.log)
        if len(rec.log) > 101 * nblk + nblk:
          return [C.viol("invocation_bound", {"sched": sched, "calls": len(rec.log), "blocks": nblk})]
        stats["probes"]["scc_multi_pass"] += int(len(rec.log) > nblk)
        if fam == "false":
          ref.eval_comb()
          snap = cosim.compare(acc, ref, "eval@%d" % t)
          D.add(t, sorted(snap.items()))
        if "dup_block" in st or fam == "true":
          n, bad = fixed_point_check(top, acc, random.Random(st.get("dup_block", t)))
          stats["fault_counts"]["dup.block"] = stats["fault_counts"].get("dup.block", 0) + n
          if bad:
            return [C.viol("not_a_fixed_point", dict(bad, sched=sched, sched_seed=sseed, cycle=t, family=fam,
                                                     kind=meta.get("kind")))]
        top.sim_tick()
        if fam == "false":
          ref.tick()
          cosim.compare(acc, ref, "tick@%d" % t)
        stats["sim_cycles"] += 1
      if meta.get("never_converges"):
        return [C.viol("divergent_loop_returned", {"sched": sched, "kind": meta.get("kind"), "n": meta.get("n")})]
    except cosim.Mismatch as m:
      return [C.viol("false_loop_value_mismatch", {"sched": sched, "sched_seed": sseed, "where": m.where,
                                                   "signal": m.key, "got": hex(m.got), "want": hex(m.want)})]
    except UpblkCyclicError as e:
      stats["expected_errors"] += 1
      if meta.get("must_converge"):
        return [C.viol("spurious_cyclic_error", {"sched": sched, "sched_seed": sseed, "family": fam,
                                                 "kind": meta.get("kind"), "exc": str(e)[:200]})]
    except Exception as e:
      return [C.exc_violation(e, "sim/%s" % sched)]
  # acyclic-only scheduler on a graph that really is cyclic must reject it
  if cyc_seen:
    sched, sseed = case["reject_sched"]
    seams.set_hash_stream(case["hash_seed"])
    try:
      top, ns, src = cosim.build_top(spec)
      harness.prepare(top, sched, sseed)
    except UpblkCyclicError:
      stats["expected_errors"] += 1
      stats["fault_counts"]["sched.reject." + sched] = 1
      return []
    except Exception as e:
      return [C.viol("acyclic_pass_wrong_error", {"sched": sched, "exc": "%s: %s" % (type(e).__name__, str(e)[:300])})]
    return [C.viol("acyclic_pass_scheduled_a_cycle", {"sched": sched,
                                                      "schedule": [b.__name__ for b in top._sched.update_schedule][:40]})]
  return []


def run_once(case, stats):
  from ..sched import harness
  from pymtl3.dsl.errors import UpblkCyclicError
  for sched, sseed in case["scheds"] + [case["reject_sched"]]:
    seams.set_hash_stream(case["hash_seed"] ^ sseed)
    ns, cls, _ = emit.build({"uid": case["uid"], "top": "Top"}, src=case["src"])
    top = cls()
    try:
      top.elaborate()
      harness.prepare(top, sched, sseed)
    except UpblkCyclicError:
      stats["expected_errors"] += 1
      continue
    except Exception as e:
      return [C.viol("once_cycle_wrong_error", {"sched": sched, "exc": "%s: %s" % (type(e).__name__, str(e)[:300])})]
    return [C.viol("once_cycle_scheduled", {"sched": sched})]
  return []


PIECE_SRC = '''
from pymtl3 import *

class Top_{uid}(Component):
  def construct(s):
    s.a = InPort(Bits4)
    s.b = InPort(Bits4)
    s.w = Wire(Bits8)
    s.q = Wire(Bits{qw})
    s.t = OutPort(Bits4)
    s.y = OutPort(Bits4)
{body}
'''


def gen_piece(c, uid):
  """a false loop (cyclic at block level, acyclic at bit level) that runs THROUGH a generated net block: the
  net's writer is driven piecewise by two blocks of the group, the readers read slices of the net's copy"""
  lo = c.choice([0, 0, 4, 8])
  n1, n2 = c.sample(["ba", "bm", "bz", "up_a", "up_z"], 2)
  t = {"uid": uid, "qw": lo + 8 + c.choice([0, 4]), "lo": lo, "n1": n1, "n2": n2, "k": [c.randrange(16) for _ in range(4)],
       "ops": [c.choice(["+", "^"]) for _ in range(2)], "order": c.sample(range(3), 3), "extra": c.random() < 0.4,
       # a block in front of the group (decides where the intra-group order starts): feeds a, b, both or nothing
       "pre": c.choice(["a", "b", "ab", "", "a", "b"]),
       "inputs": [[c.randrange(16), c.randrange(16)] for _ in range(c.randint(4, 10))]}
  return t


def piece_source(t):
  lo, k = t["lo"], t["k"]
  pre = t.get("pre", "")
  sa, sb = ("s.aa" if "a" in pre else "s.a"), ("s.bb" if "b" in pre else "s.b")
  parts = [["s.q[%d:%d] //= s.w" % (lo, lo + 8)],
           ["@update", "def %s():" % t["n1"], "  s.w[0:4] @= %s %s %d" % (sa, t["ops"][0], k[0]),
            "  s.t @= s.q[%d:%d] + %d" % (lo + 4, lo + 8, k[1])],
           ["@update", "def %s():" % t["n2"], "  s.w[4:8] @= %s %s %d" % (sb, t["ops"][1], k[2]),
            "  s.y @= s.q[%d:%d] ^ %d" % (lo, lo + 4, k[3])]]
  body = [ln for i in t["order"] for ln in parts[i]]
  if pre:
    body = ["s.aa = Wire(Bits4)", "s.bb = Wire(Bits4)", "@update", "def up_p():"] + \
           ["  s.%s%s @= s.%s" % (x, x, x) for x in pre] + body
  if t["extra"]:
    body += ["s.u = OutPort(Bits4)", "@update", "def up_u():", "  s.u @= s.t & s.y"]
  return PIECE_SRC.format(uid=t["uid"], qw=t["qw"], body="\n".join("    " + x for x in body))


def run_piece(case, stats):
  from ..sched import harness
  from pymtl3 import Bits4
  t = case["tmpl"]
  k = t["k"]
  f = lambda x, op, c_: ((x + c_) if op == "+" else (x ^ c_)) & 15
  for sched, sseed in case["scheds"]:
    seams.set_hash_stream(case["hash_seed"] ^ sseed)
    try:
      ns, cls, _ = emit.build({"uid": t["uid"], "top": "Top"}, src=piece_source(t))
      top = cls()
      top.elaborate()
      harness.prepare(top, sched, sseed)
      top.sim_reset()
    except Exception as e:
      return [C.exc_violation(e, "build/piece/%s" % sched)]
    stats["fault_counts"]["sched." + sched] = stats["fault_counts"].get("sched." + sched, 0) + 1
    if has_scc(top):
      stats["probes"]["scc_superblock"] += 1
    for i, (a, b) in enumerate(t["inputs"]):
      try:
        top.a @= Bits4(a)
        top.b @= Bits4(b)
        top.sim_eval_combinational()
        got = [int(top.t), int(top.y), int(top.w), int(top.q[t["lo"]:t["lo"] + 8])]
        top.sim_eval_combinational()
        again = [int(top.t), int(top.y), int(top.w), int(top.q[t["lo"]:t["lo"] + 8])]
      except Exception as e:
        return [C.exc_violation(e, "sim/piece/%s" % sched)]
      w = f(a, t["ops"][0], k[0]) | (f(b, t["ops"][1], k[2]) << 4)
      want = [(f(b, t["ops"][1], k[2]) + k[1]) & 15, f(a, t["ops"][0], k[0]) ^ k[3], w, w]
      stats["sim_cycles"] += 1
      stats["D"].add(sched, i, got)
      if got != want or again != want:
        return [C.viol("false_loop_value_mismatch", {"sched": sched, "sched_seed": sseed, "where": "eval@%d" % i,
                                                      "got_t_y_w_q": got, "second_eval": again, "want": want,
                                                      "family": "piecenet"}, family="piecenet")]
  return []


def run_case(case):
  D = _rng.Digest()
  stats = {"fault_counts": {"family." + case["family"]: 1}, "sim_cycles": 0, "block_calls": 0,
           "expected_errors": 0, "probes": {"scc_superblock": 0, "scc_multi_pass": 0, "mamba_scc_ge_10_blocks": 0}, "D": D}
  if case["family"] == "once":
    v = run_once(case, stats)
  elif case["family"] == "piecenet":
    v = run_piece(case, stats)
  else:
    v = run_rtl(case, stats)
  stats.pop("D")
  D.add(case["family"], stats["expected_errors"], len(v))
  return {"violations": v, "digest": D.hex(),
          "nontrivial": stats["probes"]["scc_superblock"] > 0 or stats["expected_errors"] > 0, "stats": stats}


def sample(case):
  if case["family"] == "once":
    return {"family": "once", "source": case["src"]}
  if case["family"] == "piecenet":
    return {"family": "piecenet", "scheds": case["scheds"], "source": piece_source(case["tmpl"])}
  return {"family": case["family"], "meta": case["meta"], "scheds": case["scheds"],
          "source_head": emit.source(case["spec"])[:1500]}


def shrink(case):
  if case["family"] == "piecenet":
    if len(case["scheds"]) > 1:
      for s in case["scheds"]:
        yield dict(case, scheds=[s])
    seq = case["tmpl"]["inputs"]
    for i in range(len(seq)):
      if len(seq) > 1:
        yield dict(case, tmpl=dict(case["tmpl"], inputs=seq[:i] + seq[i + 1:]))
    return
  if case["family"] != "once":
    if len(case["scheds"]) > 1:
      for s in case["scheds"]:
        yield dict(case, scheds=[s])
    seq = case["inputs"]
    for i in range(len(seq)):
      if len(seq) > 1:
        yield dict(case, inputs=seq[:i] + seq[i + 1:])
