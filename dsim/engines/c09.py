"""C09 - structurally illegal designs are always rejected at elaboration.

A legal generated design (which must elaborate: the converse direction) gets
ONE injected structural defect; for every ordering of its statements
elaborate() must raise an error whose class belongs to the defect kinds that
an independent analysis of the mutated spec says are present.
"""
import copy
import random

from ..core import rng as _rng, seams
from ..gen import cosim, designgen, emit
from ..gen.refmodel import Ref, item_rw
from ..gen.spec import tbits
from . import common_rtl as C, elab_common as E

ID = "C09"
LEVEL = "exploration"
RULE = ("case = legal generated design + one injected structural defect (second driver: block+block on the same "
        "signal / an overlapping slice / a field and its parent, block+net, net+net via an extra connect; removed "
        "driver of a net; extra connect closing a loop; read of a child's wire, write of an own InPort / a child's "
        "OutPort / a child's Wire; wrong assignment operator in update / update_ff; <<= to a slice or field) x 4 "
        "orderings (order.stmt, order.flip, order.hash); plus the converse: the uninjected design must elaborate for "
        "every ordering; plus probes of known findings; plus (5%) one parametrised class elaborated over a seeded "
        "history of parameter values in one interpreter, each design's legality decided by overlap arithmetic; non-trivial = the injected defect was rejected with an expected "
        "error class in every ordering; distinct = case digest")
TIERS = {"quick": {"runs": 1280, "budget_s": 100, "chunk": 4},
         "thorough": {"runs": 200000, "budget_s": 1800, "chunk": 8}}
REAL = ["ComponentLevel2._check_upblk_writes / _check_port_in_upblk / assignment-operator checks",
        "ComponentLevel3._resolve_value_connections / _floodfill_nets / _check_port_in_nets", "dsl.errors"]
STUB = ["design generator", "defect injector", "bit-level driver analysis of the mutated spec"]
ASSUMPTIONS = ["don't-care region (DESIGN.md C09): one block writing two overlapping slices, self-connections, the same "
               "pair connected in two components are never generated in either direction"]

MW, NW, IC, ST = "MultiWriterError", "NoWriterError", "InvalidConnectionError", "SignalTypeError"
UBW, UFW, UFN = "UpdateBlockWriteError", "UpdateFFBlockWriteError", "UpdateFFNonTopLevelSignalError"


# ---------------------------------------------------------------------------
# defect injection
# ---------------------------------------------------------------------------

def driven_pieces(spec):
  """[(cname, item index, kind, path, type)] for every assignment target / connect dst / lambda target"""
  out = []
  ref = Ref(spec)
  cls_inst = {}
  for inst in ref.insts:
    cls_inst.setdefault(inst.cname, inst)
  for cname, cd in spec["comps"].items():
    inst = cls_inst.get(cname)
    if inst is None:
      continue
    for j, it in enumerate(cd["items"]):
      if it["k"] == "connect":
        out.append((cname, j, "net", it["a"]))
      elif it["k"] == "lambda":
        out.append((cname, j, "blk", it["t"]))
      elif it["k"] in ("comb", "ff"):
        seen = set()
        from ..gen.spec import walk_stmts
        for st in walk_stmts(it["stmts"]):
          if st[0] == "assign" and not any(x[0] in ("vi", "vb") for x in st[1]) and repr(st[1]) not in seen:
            seen.add(repr(st[1]))
            out.append((cname, j, it["k"], st[1]))
  return out, ref, cls_inst


def piece_info(ref, inst, path):
  try:
    key, lo, w, t = ref.resolve(inst, path, {})
  except Exception:
    return None, 0, 0, None          # the path does not name a signal (component, list, ...)
  return key, lo, w, t


def inject(spec0, c):
  """-> (mutated spec, kind, accepted error classes) or None"""
  spec = copy.deepcopy(spec0)
  pieces, ref, cls_inst = driven_pieces(spec)
  kinds = ["dup_same", "dup_overlap", "dup_parent_field", "net_plus_block", "net_plus_net", "remove_driver",
           "loop", "read_child_wire", "write_own_inport", "write_child_outport", "write_child_wire",
           "op_in_update", "op_in_update_ff", "ff_to_slice", "const_bad_position", "dup_via_func", "net_plus_block_ancestor", "connect_across_subtrees"]
  c.shuffle(kinds)
  # the structurally demanding kinds are rarely feasible: try one of them first half of the time
  if c.random() < 0.5:
    first = c.choice(["remove_driver", "loop", "read_child_wire", "dup_parent_field", "net_plus_net", "write_child_outport",
                      "const_bad_position", "dup_via_func", "net_plus_block_ancestor", "net_plus_block_ancestor",
                      "connect_across_subtrees", "connect_across_subtrees"])
    kinds.remove(first)
    kinds.insert(0, first)
  for kind in kinds:
    r = _try(spec, kind, c, pieces, ref, cls_inst)
    if r is not None:
      return spec, kind, r
  return None


def _newblk(cd, name, stmts, k="comb"):
  cd["items"].insert(0, {"k": k, "name": name, "stmts": stmts})


def _try(spec, kind, c, pieces, ref, cls_inst):
  P = list(pieces)
  c.shuffle(P)
  if kind == "dup_same":
    for (cname, j, k, path) in P:
      if k in ("comb", "blk", "ff"):
        key, lo, w, t = piece_info(ref, cls_inst[cname], path)
        if isinstance(t, int):
          _newblk(spec["comps"][cname], "zdup", [["assign", path, ["const", w, c.getrandbits(w)]]])
          return {MW}
  if kind == "dup_overlap":
    for (cname, j, k, path) in P:
      if k in ("comb", "blk", "net") and path[-1][0] == "s" and path[-1][2] - path[-1][1] >= 2:
        lo, hi = path[-1][1], path[-1][2]
        # an overlapping but different slice of the same signal (the existing driver is a block OR a net;
        # partial overlap, containment sharing an end, strict containment either way)
        key, l0, w0, t0 = piece_info(ref, cls_inst[cname], path[:-1])
        form = c.choice(["any", "any", "inside", "outside"])
        if form == "inside" and hi - lo >= 3:
          nlo = c.randint(lo + 1, hi - 2)
          nhi = c.randint(nlo + 1, hi - 1)
        elif form == "outside" and lo >= 1 and hi < w0:
          nlo = c.randint(0, lo - 1)
          nhi = c.randint(hi + 1, w0)
        else:
          nlo = c.randint(max(0, lo - 3), hi - 1)
          nhi = c.randint(max(nlo + 1, lo + 1), min(w0, hi + 3))
        if (nlo, nhi) == (lo, hi) or nhi <= nlo:
          continue
        cd = spec["comps"][cname]
        srcs = [sg for sg in cd["signals"] if sg["kind"] == "in" and not sg["dims"] and sg["type"] == nhi - nlo]
        if srcs and c.random() < 0.3:
          # the second driver is a net
          cd["items"].append({"k": "connect", "a": path[:-1] + [["s", nlo, nhi]], "b": [["a", c.choice(srcs)["name"]]],
                              "flip": c.random() < 0.5, "op": "connect"})
          return {MW, IC}
        _newblk(cd, "zdup", [["assign", path[:-1] + [["s", nlo, nhi]], ["const", nhi - nlo, 0]]])
        if c.random() < 0.5:
          # a third, READ-ONLY slice that overlaps both written slices (their intersection), read by a block
          # that comes first in the source: the sibling scan must not stop at it
          ilo, ihi = max(lo, nlo), min(hi, nhi)
          if ihi > ilo:
            cd["signals"].append({"name": "zq2", "kind": "wire", "type": ihi - ilo, "dims": []})
            _newblk(cd, "zrd2", [["assign", [["a", "zq2"]], ["rd", path[:-1] + [["s", ilo, ihi]], ihi - ilo]]])
        return {MW}
  if kind == "dup_parent_field":
    for (cname, j, k, path) in P:
      if k in ("comb", "blk") and len(path) >= 2 and path[-1][0] == "a":
        key, lo, w, t = piece_info(ref, cls_inst[cname], path[:-1])
        if isinstance(t, str):
          # the parent struct as a whole, written by another block
          cands = [p for p in P if p[0] == cname and p[3] != path]
          src = None
          from ..gen.designgen import CompGen
          # write it from a constant struct: S(f0, f1, ...) with Bits leaves only
          from ..gen.spec import field_layout
          args = []
          ok = True
          for fname, ft, flo, fw in field_layout(spec, t):
            if not isinstance(ft, int):
              ok = False
              break
            args.append(["const", ft, 0])
          if ok:
            _newblk(spec["comps"][cname], "zdup", [["assign", path[:-1], ["mkstruct", t, args, w]]])
            return {MW}
  if kind == "net_plus_block_ancestor":
    # a net drives a leaf two or more levels below a struct signal (x.p.a, x.q[0:4]); a block writes the
    # whole struct x: two drivers although the intermediate object x.p / x.q is otherwise untouched
    from ..gen.spec import field_layout, tbits

    def const_struct(t):
      args = []
      for fname, ft, flo, fw in field_layout(spec, t):
        if isinstance(ft, int):
          args.append(["const", ft, c.getrandbits(ft)])
        elif isinstance(ft, str):
          sub = const_struct(ft)
          if sub is None:
            return None
          args.append(sub)
        else:
          return None
      return ["mkstruct", t, args, tbits(spec, t)]
    for (cname, j, k, path) in P:
      if k != "net" or len(path) < 3:
        continue
      for n in range(1, len(path) - 1):
        if path[n - 1][0] not in ("a", "i") or path[n][0] not in ("a",):
          continue
        try:
          key, lo, w, t = piece_info(ref, cls_inst[cname], path[:n])
        except Exception:
          continue
        if not isinstance(t, str):
          continue
        e = const_struct(t)
        if e is None:
          continue
        _newblk(spec["comps"][cname], "zdup", [["assign", path[:n], e]])
        return {MW}
  if kind == "net_plus_block":
    for (cname, j, k, path) in P:
      if k == "net":
        key, lo, w, t = piece_info(ref, cls_inst[cname], path)
        if isinstance(t, int):
          _newblk(spec["comps"][cname], "zdup", [["assign", path, ["const", w, 1]]])
          return {MW}
  if kind == "net_plus_net":
    for (cname, j, k, path) in P:
      if k in ("net", "comb", "blk"):
        key, lo, w, t = piece_info(ref, cls_inst[cname], path)
        if not isinstance(t, int):
          continue
        # another source of the same width: a top-level style input port of this class that is not in the same net
        cd = spec["comps"][cname]
        srcs = [sg for sg in cd["signals"] if sg["kind"] == "in" and not sg["dims"] and sg["type"] == w]
        if srcs:
          src = [["a", c.choice(srcs)["name"]]]
          if k == "net" and cd["items"][j]["b"] == src:
            continue
          cd["items"].append({"k": "connect", "a": path, "b": src, "flip": c.random() < 0.5, "op": "connect"})
          return {MW, IC} if k == "net" else {MW}
  if kind == "remove_driver":
    # a connect whose source is a whole own wire driven by exactly one lambda / single-target block
    for (cname, j, k, path) in P:
      if k != "net":
        continue
      cd = spec["comps"][cname]
      b = cd["items"][j]["b"]
      if isinstance(b, dict) or len(b) != 1:
        continue
      sname = b[0][1]
      sg = [s_ for s_ in cd["signals"] if s_["name"] == sname]
      if not sg or sg[0]["kind"] != "wire" or sg[0]["dims"]:
        continue
      drivers = [(jj, kk, pp) for (cn, jj, kk, pp) in P if cn == cname and pp and pp[0] == ["a", sname]]
      if len(drivers) != 1 or drivers[0][1] == "net":
        continue
      jj = drivers[0][0]
      it = cd["items"][jj]
      if it["k"] == "lambda" or (it["k"] in ("comb", "ff") and
                                 sum(1 for (cn, j2, k2, p2) in P if cn == cname and j2 == jj) == 1):
        # make sure nothing else (variable index writes) drives it
        del cd["items"][jj]
        return {NW}
  if kind == "loop":
    # two destinations fed by the same source: connect them to each other
    for cname, cd in spec["comps"].items():
      by_src = {}
      for j, it in enumerate(cd["items"]):
        if it["k"] == "connect" and not isinstance(it["b"], dict):
          by_src.setdefault(repr(it["b"]), []).append(it)
      for src, its in by_src.items():
        if len(its) >= 2 and repr(its[0]["a"]) != repr(its[1]["a"]):
          cd["items"].append({"k": "connect", "a": its[0]["a"], "b": its[1]["a"], "flip": c.random() < 0.5,
                              "op": "connect"})
          return {IC, ST}
  if kind in ("read_child_wire", "write_child_wire", "write_child_outport"):
    for cname, cd in spec["comps"].items():
      for sb in cd["subs"]:
        ccd = spec["comps"][(sb.get("cls_list") or [sb["cls"]])[0]]
        base = [["a", sb["name"]]] + [["i", 0] for _ in sb["dims"]]
        want = "wire" if kind != "write_child_outport" else "out"
        sgs = [s_ for s_ in ccd["signals"] if s_["kind"] == want and isinstance(s_["type"], int)]
        if not sgs:
          continue
        sg = c.choice(sgs)
        p = base + [["a", sg["name"]]] + ([["i", 0]] if sg["dims"] else [])
        w = sg["type"]
        if kind == "read_child_wire":
          cd["signals"].append({"name": "zz0", "kind": "wire", "type": w, "dims": []})
          _newblk(cd, "zrd", [["assign", [["a", "zz0"]], ["rd", p, w]]])
          return {ST}
        _newblk(cd, "zwr", [["assign", p, ["const", w, 0]]])
        return {ST, MW}
  if kind == "connect_across_subtrees":
    # a common ancestor connects signals whose hosts sit in DIFFERENT sub-trees: uncle -> nephew,
    # nephew -> uncle (host depths differ by one) or cousins (equal depth): never a legal data path
    names = list(spec["comps"])
    c.shuffle(names)
    w = c.choice([1, 4, 8])
    for cname in names:
      cd = spec["comps"][cname]
      deep = [sb for sb in cd["subs"] if spec["comps"][(sb.get("cls_list") or [sb["cls"]])[0]]["subs"]]
      if not deep or len(cd["subs"]) < 2:
        continue
      sx = c.choice(deep)
      others = [sb for sb in cd["subs"] if sb is not sx]
      sy = c.choice(others)
      xcls = spec["comps"][(sx.get("cls_list") or [sx["cls"]])[0]]
      sz = c.choice(xcls["subs"])
      zcls = spec["comps"][(sz.get("cls_list") or [sz["cls"]])[0]]
      ycls = spec["comps"][(sy.get("cls_list") or [sy["cls"]])[0]]
      px = [["a", sx["name"]]] + [["i", 0] for _ in sx["dims"]] + [["a", sz["name"]]] + [["i", 0] for _ in sz["dims"]]
      py = [["a", sy["name"]]] + [["i", 0] for _ in sy["dims"]]
      form = c.choice(["nephew_out_to_uncle_in", "uncle_out_to_nephew_in", "nephew_out_to_uncle_out"])
      # the source port is really driven (by a block inside its component), so that the only thing wrong
      # with the design is the hierarchical position of the connection
      if form == "nephew_out_to_uncle_in":
        zcls["signals"].append({"name": "zq5", "kind": "out", "type": w, "dims": []})
        ycls["signals"].append({"name": "zq6", "kind": "in", "type": w, "dims": []})
        _newblk(zcls, "zdrv5", [["assign", [["a", "zq5"]], ["const", w, 1]]])
      elif form == "uncle_out_to_nephew_in":
        zcls["signals"].append({"name": "zq5", "kind": "in", "type": w, "dims": []})
        ycls["signals"].append({"name": "zq6", "kind": "out", "type": w, "dims": []})
        _newblk(ycls, "zdrv6", [["assign", [["a", "zq6"]], ["const", w, 1]]])
      else:
        zcls["signals"].append({"name": "zq5", "kind": "out", "type": w, "dims": []})
        ycls["signals"].append({"name": "zq6", "kind": "out", "type": w, "dims": []})
        _newblk(zcls, "zdrv5", [["assign", [["a", "zq5"]], ["const", w, 1]]])
      cd["items"].append({"k": "connect", "a": px + [["a", "zq5"]], "b": py + [["a", "zq6"]], "flip": c.random() < 0.5,
                          "op": "connect"})
      return {ST}
  if kind == "dup_via_func":
    # two update blocks whose @s.func call trees reach the same helper that writes a signal (directly, or
    # through 1-2 levels of nesting; the second writer may also be a plain block or a net): two drivers
    names = list(spec["comps"])
    cd = spec["comps"][c.choice(names)]
    w = c.choice([1, 4, 8])
    cd["signals"].append({"name": "zq1", "kind": "wire", "type": w, "dims": []})
    cd.setdefault("funcs", [])
    depth = c.randint(0, 2)
    cd["funcs"].append({"name": "zfw0", "params": [], "ret": None, "w": 0,
                        "stmts": [["assign", [["a", "zq1"]], ["const", w, 1]]]})
    for d in range(depth):
      cd["funcs"].append({"name": "zfw%d" % (d + 1), "params": [], "ret": None, "w": 0,
                          "stmts": [["call", "zfw%d" % d]]})
    outer = "zfw%d" % depth
    _newblk(cd, "zfa", [["call", outer]])
    other = c.choice(["call", "call", "block", "net"])
    if other == "call":
      _newblk(cd, "zfb", [["call", c.choice(["zfw%d" % d for d in range(depth + 1)])]])
      return {MW}
    if other == "block":
      _newblk(cd, "zfb", [["assign", [["a", "zq1"]], ["const", w, 0]]])
      return {MW}
    srcs = [sg for sg in cd["signals"] if sg["kind"] == "in" and not sg["dims"] and sg["type"] == w]
    if srcs:
      cd["items"].append({"k": "connect", "a": [["a", "zq1"]], "b": [["a", c.choice(srcs)["name"]]], "flip": False,
                          "op": "connect"})
      return {MW}
    _newblk(cd, "zfb", [["call", outer]])
    return {MW}
  if kind == "const_bad_position":
    # a constant tied to a fresh port / wire from a hierarchical position the port rules forbid (the same
    # rules that apply to a wire driver): own InPort from inside (Type 5 / top: the port is itself a writer),
    # child's OutPort or Wire from the parent (Type 7), anything two levels down (Type 9)
    def sub_path(sb):
      return [["a", sb["name"]]] + [["i", 0] for _ in sb["dims"]]

    def sub_cls(sb):
      return (sb.get("cls_list") or [sb["cls"]])[0]
    variants = ["own_in", "child_out", "child_wire", "grand_in", "grand_out", "grand_wire"]
    c.shuffle(variants)
    w = c.choice([1, 3, 8, 16])
    val = {"const": c.randrange(1 << w), "w": c.choice([w, None])}
    for var in variants:
      names = list(spec["comps"])
      c.shuffle(names)
      for cname in names:
        cd = spec["comps"][cname]
        if var == "own_in":
          cd["signals"].append({"name": "zq0", "kind": "in", "type": w, "dims": []})
          cd["items"].append({"k": "connect", "a": [["a", "zq0"]], "b": val, "flip": False, "op": c.choice(["connect", "//="])})
          return {ST, MW}
        if not cd["subs"]:
          continue
        sb = c.choice(cd["subs"])
        ccd = spec["comps"][sub_cls(sb)]
        kindmap = {"in": "in", "out": "out", "wire": "wire"}
        if var.startswith("child_"):
          ccd["signals"].append({"name": "zq0", "kind": kindmap[var.split("_")[1]], "type": w, "dims": []})
          cd["items"].append({"k": "connect", "a": sub_path(sb) + [["a", "zq0"]], "b": val, "flip": False,
                              "op": c.choice(["connect", "//="])})
          return {ST}
        if not ccd["subs"]:
          continue
        sb2 = c.choice(ccd["subs"])
        gcd = spec["comps"][sub_cls(sb2)]
        gcd["signals"].append({"name": "zq0", "kind": kindmap[var.split("_")[1]], "type": w, "dims": []})
        cd["items"].append({"k": "connect", "a": sub_path(sb) + sub_path(sb2) + [["a", "zq0"]], "b": val, "flip": False,
                            "op": c.choice(["connect", "//="])})
        return {ST}
  if kind == "write_own_inport":
    for cname, cd in spec["comps"].items():
      sgs = [s_ for s_ in cd["signals"] if s_["kind"] == "in" and isinstance(s_["type"], int) and not s_["dims"]]
      if sgs:
        sg = c.choice(sgs)
        _newblk(cd, "zwr", [["assign", [["a", sg["name"]]], ["const", sg["type"], 0]]])
        return {ST, MW}
  if kind in ("op_in_update", "op_in_update_ff", "ff_to_slice"):
    from ..gen.spec import walk_stmts
    want = "comb" if kind == "op_in_update" else "ff"
    cands = []
    for cname, cd in spec["comps"].items():
      for it in cd["items"]:
        if it["k"] == want:
          for st in walk_stmts(it["stmts"]):
            if st[0] == "assign":
              cands.append((cname, it, st))
    c.shuffle(cands)
    for cname, it, st in cands:
      if kind == "op_in_update":
        st.append(c.choice(["=", "<<="]))
        return {UBW}
      if kind == "op_in_update_ff":
        st.append(c.choice(["=", "@="]))
        return {UFW}
      key, lo, w, t = piece_info(ref, cls_inst[cname], st[1])
      if isinstance(t, int) and w >= 2 and st[1][-1][0] in ("a", "i"):
        st[1] = st[1] + [["s", 0, w - 1]]
        st[2] = ["const", w - 1, 0]
        return {UFN}
  return None


# ---------------------------------------------------------------------------
# probes of known findings (each must be accepted; pymtl3 rejects them in some / all orders)
# ---------------------------------------------------------------------------

PROBES = {
  # F21: a block writes x[i] in a loop (recorded as writing x) and x[0:1]; a slice of x feeds a net
  "var_index_plus_slice_write": '''
from pymtl3 import *
class Inner_{uid}(Component):
  def construct(s):
    s.i = InPort(Bits4)
    s.o = OutPort(Bits1)
    s.o //= s.i[2:3]
class Top_{uid}(Component):
  def construct(s):
    s.a = InPort(Bits4)
    s.o = OutPort(Bits1)
    s.m = Inner_{uid}()
    s.o //= s.m.o
    @update
    def up():
      for i in range(1, 4):
        s.m.i[i] @= s.a[i]
      s.m.i[0] @= s.a[0]
''',
  # F31: Interface.inverse() re-assigns every scalar port, which the field re-assignment guard rejects
  "interface_inverse": '''
from pymtl3 import *
class If_{uid}(Interface):
  def construct(s):
    s.msg = InPort(Bits8)
    s.rdy = OutPort(Bits1)
class Top_{uid}(Component):
  def construct(s):
    s.x = If_{uid}().inverse()
    s.o = OutPort(Bits8)
    @update
    def up():
      s.x.msg @= 3
      s.o @= zext(s.x.rdy, 8)
''',
  # F10: x.f.g //= y does setattr on a lazily created field signal
  "floordiv_on_nested_field": '''
from pymtl3 import *
In_{uid} = mk_bitstruct('In_{uid}', {{'g': Bits4}})
Out_{uid} = mk_bitstruct('Out_{uid}', {{'f': In_{uid}, 'h': Bits2}})
class Top_{uid}(Component):
  def construct(s):
    s.a = InPort(Bits4)
    s.b = InPort(Bits2)
    s.o = OutPort(Out_{uid})
    s.o.f.g //= s.a
    s.o.h //= s.b
''',
}


HIST_SRC = '''
from pymtl3 import *

class Drv_{uid}(Component):
  # the written bits depend on constructor parameters (closure names used as slice bounds / indices)
  def construct(s, lo, hi, j):
    s.in_ = InPort(Bits8)
    s.out = [OutPort(Bits8) for _ in range(2)]
    s.v = [Wire(Bits8) for _ in range(3)]
    @update
    def up_par():
      for i in range(2):
        s.out[i][lo:hi] @= s.in_[lo:hi]
    @update
    def up_fix():
      for i in range(2):
        s.out[i][4:8] @= s.in_[4:8]
    @update
    def up_vj():
      s.v[j] @= s.in_
    @update
    def up_v1():
      s.v[1] @= ~s.in_

class Top_{uid}(Component):
  def construct(s, plist):
    s.in_ = InPort(Bits8)
    s.d = [Drv_{uid}(*p) for p in plist]
    for x in s.d:
      x.in_ //= s.in_
'''


def gen_hist(c):
  def one():
    lo = c.randrange(0, 7)
    return [lo, c.randrange(lo + 1, 9), c.choice([0, 2, 1])]
  return {"history": [[one() for _ in range(c.randint(1, 2))] for _ in range(c.randint(2, 4))]}


def run_hist(case, stats):
  """ONE class source, a HISTORY of elaborations with different constructor parameters in one interpreter:
  a design is legal iff for every instance [lo,hi) misses [4,8) and j != 1 - whatever was elaborated before"""
  viols = []
  D = _rng.Digest()
  seams.set_hash_stream(case["orderings"][0][1])
  ns, cls, _ = emit.build({"uid": case["uid"], "top": "Top"}, src=HIST_SRC.format(uid=case["uid"]))
  for k, plist in enumerate(case["tmpl"]["history"]):
    legal = all(not (lo < 8 and hi > 4) and j != 1 for lo, hi, j in plist)
    try:
      top = cls([tuple(p) for p in plist])
      top.elaborate()
      got = None
    except Exception as e:
      got = type(e).__name__
    stats["elaborations"] += 1
    D.add(k, got)
    if legal and got is not None:
      viols.append(C.viol("legal_design_rejected", {"step": k, "params": plist, "history": case["tmpl"]["history"][:k], "exc": got},
                          shape="paramhist", exc=got))
      break
    if not legal and got is None:
      viols.append(C.viol("illegal_design_accepted", {"step": k, "params": plist, "history": case["tmpl"]["history"][:k],
                                                      "defect": "paramhist", "expected": ["MultiWriterError"]}, defect="paramhist"))
      break
    if not legal:
      stats["rejections"] += 1
      if got != "MultiWriterError":
        viols.append(C.viol("wrong_error_class", {"step": k, "params": plist, "got": got, "defect": "paramhist"},
                            defect="paramhist", got=got))
        break
  stats["fault_counts"]["family.paramhist"] = 1
  return {"violations": viols, "digest": D.hex(), "nontrivial": stats["rejections"] > 0 and not viols, "stats": stats}


def gen_case(R, tier):
  c = R("case")
  o = R("order")
  base = {"orderings": [[o.getrandbits(32), o.getrandbits(32)] for _ in range(4)], "uid": "e%x" % (R.seed & 0xffffff)}
  if R("fam").random() < 0.05:
    base.update(family="paramhist", tmpl=gen_hist(R("hist")))
    return base
  if c.random() < 0.06:
    base.update(family="probe", name=c.choice(sorted(PROBES)))
    return base
  for _ in range(20):
    prof = designgen.profile(c.choice(["shapes", "acyclic", "ff_heavy"]))
    if c.random() < 0.4:
      prof.update(n_child_classes=(2, 3))       # deeper / wider hierarchies: cross-sub-tree defects become feasible
    spec = designgen.DesignGen(c, prof, uid=base["uid"]).gen()
    r = inject(spec, c)
    if r is not None:
      break
  mut, kind, accept = r
  base.update(family="inject", spec=spec, mutated=mut, kind=kind, accept=sorted(accept))
  return base


def render_source(spec):
  """like emit.source but honours the per-statement operator override used by the injector"""
  return emit.source(spec)


def elaborate(spec, uid_suffix=""):
  sp = dict(spec, uid=spec["uid"] + uid_suffix)
  src = emit.source(sp)
  ns, cls, _ = emit.build(sp, src=src)
  top = cls()
  top.elaborate()
  return top


def run_case(case):
  D = _rng.Digest()
  stats = {"fault_counts": {}, "elaborations": 0, "rejections": 0,
           "probes": {"rejected_in_every_ordering": 0}}
  viols = []
  if case["family"] == "paramhist":
    return run_hist(case, stats)
  if case["family"] == "probe":
    src = PROBES[case["name"]].format(uid=case["uid"])
    outcomes = []
    for k, (oseed, hseed) in enumerate(case["orderings"] * 3):
      seams.set_hash_stream(hseed + k)
      try:
        ns, cls, _ = emit.build({"uid": case["uid"], "top": "Top"}, src=src)
        top = cls()
        top.elaborate()
        outcomes.append("ok")
      except Exception as e:
        outcomes.append(type(e).__name__)
      stats["elaborations"] += 1
    D.add(case["name"])
    if set(outcomes) != {"ok"}:
      viols.append(C.viol("legal_design_rejected", {"design": case["name"], "outcomes": sorted(set(outcomes)),
                                                    "n_ok": outcomes.count("ok"), "n": len(outcomes)},
                          shape=case["name"]))
    stats["fault_counts"]["family.probe"] = 1
    return {"violations": viols, "digest": D.hex(), "nontrivial": False, "stats": stats}

  spec, mut, accept = case["spec"], case["mutated"], set(case["accept"])
  stats["fault_counts"]["defect." + case["kind"]] = 1
  all_rejected = True
  for k, (oseed, hseed) in enumerate(case["orderings"]):
    r = random.Random(oseed)
    # converse: the legal design elaborates under this ordering
    sp_ok, counts = (spec, {}) if k == 0 else E.reorder(spec, r, p_dup=0.0)
    sp_bad, _ = (mut, {}) if k == 0 else E.reorder(mut, random.Random(oseed), p_dup=0.0)
    for kk, vv in counts.items():
      stats["fault_counts"][kk] = stats["fault_counts"].get(kk, 0) + vv
    stats["fault_counts"]["order.hash"] = stats["fault_counts"].get("order.hash", 0) + 1
    seams.set_hash_stream(hseed)
    try:
      elaborate(sp_ok, "a%d" % k)
      stats["elaborations"] += 1
    except Exception as e:
      viols.append(C.viol("legal_design_rejected", {"ordering": k, "exc": "%s: %s" % (type(e).__name__, str(e)[:300])},
                          shape="generated", exc=type(e).__name__))
      break
    seams.set_hash_stream(hseed)
    try:
      elaborate(sp_bad, "b%d" % k)
      stats["elaborations"] += 1
      got = None
    except Exception as e:
      got = type(e).__name__
      msg = str(e)[:200]
    D.add(k, got)
    if got is None:
      all_rejected = False
      viols.append(C.viol("illegal_design_accepted", {"ordering": k, "defect": case["kind"], "expected": sorted(accept)},
                          defect=case["kind"]))
      break
    stats["rejections"] += 1
    if got not in accept:
      all_rejected = False
      viols.append(C.viol("wrong_error_class", {"ordering": k, "defect": case["kind"], "got": got, "msg": msg,
                                                "expected": sorted(accept)}, defect=case["kind"], got=got))
      break
  stats["probes"]["rejected_in_every_ordering"] = int(all_rejected and not viols)
  return {"violations": viols, "digest": D.hex(), "nontrivial": all_rejected and not viols, "stats": stats}


def sample(case):
  if case["family"] == "paramhist":
    return {"family": "paramhist", "history": case["tmpl"]["history"]}
  if case["family"] == "probe":
    return {"family": "probe", "name": case["name"], "source": PROBES[case["name"]].format(uid=case["uid"])}
  return {"kind": case["kind"], "accept": case["accept"], "orderings": case["orderings"],
          "mutated_source_head": emit.source(case["mutated"])[:1500]}


def shrink(case):
  if case["family"] == "paramhist":
    h = case["tmpl"]["history"]
    for i in range(len(h)):
      if len(h) > 1:
        yield dict(case, tmpl={"history": h[:i] + h[i + 1:]})
    for i, pl in enumerate(h):
      if len(pl) > 1:
        for j in range(len(pl)):
          yield dict(case, tmpl={"history": h[:i] + [pl[:j] + pl[j + 1:]] + h[i + 1:]})
    return
  if case["family"] != "inject":
    return
  if len(case["orderings"]) > 1:
    for i in range(len(case["orderings"])):
      yield dict(case, orderings=[case["orderings"][i]])
