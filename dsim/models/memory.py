"""Byte-dictionary reference memory (C18), RISC-V AMO semantics at 32 bits."""

READ, WRITE = 0, 1
AMO_ADD, AMO_AND, AMO_OR, AMO_SWAP, AMO_MIN, AMO_MINU, AMO_MAX, AMO_MAXU, AMO_XOR = 3, 4, 5, 6, 7, 8, 9, 10, 11
AMOS = (AMO_ADD, AMO_AND, AMO_OR, AMO_SWAP, AMO_MIN, AMO_MINU, AMO_MAX, AMO_MAXU, AMO_XOR)


def _s32(x):
  return x - (1 << 32) if x & (1 << 31) else x


class MemModel:
  def __init__(self):
    self.b = {}

  def read(self, addr, n):
    v = 0
    for i in range(n):
      v |= self.b.get(addr + i, 0) << (8 * i)
    return v

  def write(self, addr, n, data):
    for i in range(n):
      self.b[addr + i] = (data >> (8 * i)) & 0xff

  def amo(self, op, addr, operand):
    old = self.read(addr, 4)
    a = operand & 0xffffffff
    if op == AMO_ADD:
      new = (old + a) & 0xffffffff
    elif op == AMO_AND:
      new = old & a
    elif op == AMO_OR:
      new = old | a
    elif op == AMO_XOR:
      new = old ^ a
    elif op == AMO_SWAP:
      new = a
    elif op == AMO_MIN:
      new = old if _s32(old) < _s32(a) else a
    elif op == AMO_MAX:
      new = old if _s32(old) > _s32(a) else a
    elif op == AMO_MINU:
      new = min(old, a)
    elif op == AMO_MAXU:
      new = max(old, a)
    else:
      raise ValueError(op)
    self.write(addr, 4, new)
    return old

  def apply(self, typ, addr, ln, data):
    """-> response data (reads: zero-extended value; writes: 0; amo: old value)"""
    n = ln or 4
    if typ == READ:
      return self.read(addr, n)
    if typ == WRITE:
      self.write(addr, n, data & ((1 << (8 * n)) - 1))
      return 0
    return self.amo(typ, addr, data)
