"""TinyRV0: bit-level encoder, ISA interpreter and program generator, all
written against examples/ex03_proc/tinyrv0-isa.md (not against the repo's
assembler or processors)."""

M32 = 0xffffffff
CSR_PROC2MNGR = 0x7C0
CSR_MNGR2PROC = 0xFC0
CSR_XCEL0 = 0x7E0
RESET_PC = 0x200
DATA_BASE = 0x2000
DATA_WORDS = 16


def _r(f7, rs2, rs1, f3, rd, op):
  return (f7 << 25) | (rs2 << 20) | (rs1 << 15) | (f3 << 12) | (rd << 7) | op


def _i(imm, rs1, f3, rd, op):
  return ((imm & 0xfff) << 20) | (rs1 << 15) | (f3 << 12) | (rd << 7) | op


def _s(imm, rs2, rs1, f3, op):
  imm &= 0xfff
  return ((imm >> 5) << 25) | (rs2 << 20) | (rs1 << 15) | (f3 << 12) | ((imm & 0x1f) << 7) | op


def _b(imm, rs2, rs1, f3, op):
  imm &= 0x1fff
  return (((imm >> 12) & 1) << 31) | (((imm >> 5) & 0x3f) << 25) | (rs2 << 20) | (rs1 << 15) | (f3 << 12) | \
         (((imm >> 1) & 0xf) << 8) | (((imm >> 11) & 1) << 7) | op


def encode(ins):
  op = ins[0]
  if op == "nop":
    return 0x00000013
  if op == "add":
    return _r(0, ins[3], ins[2], 0b000, ins[1], 0b0110011)
  if op == "and":
    return _r(0, ins[3], ins[2], 0b111, ins[1], 0b0110011)
  if op == "sll":
    return _r(0, ins[3], ins[2], 0b001, ins[1], 0b0110011)
  if op == "srl":
    return _r(0, ins[3], ins[2], 0b101, ins[1], 0b0110011)
  if op == "addi":
    return _i(ins[3], ins[2], 0b000, ins[1], 0b0010011)
  if op == "lw":                      # lw rd, imm(rs1)
    return _i(ins[3], ins[2], 0b010, ins[1], 0b0000011)
  if op == "sw":                      # sw rs2, imm(rs1): ("sw", rs2, rs1, imm)
    return _s(ins[3], ins[1], ins[2], 0b010, 0b0100011)
  if op == "bne":                     # ("bne", rs1, rs2, byte offset)
    return _b(ins[3], ins[2], ins[1], 0b001, 0b1100011)
  if op == "csrr":                    # ("csrr", rd, csr)
    return _i(ins[2], 0, 0b010, ins[1], 0b1110011)
  if op == "csrw":                    # ("csrw", csr, rs1)
    return _i(ins[1], ins[2], 0b001, 0, 0b1110011)
  raise ValueError(ins)


def sext(v, bits):
  v &= (1 << bits) - 1
  return v - (1 << bits) if v & (1 << (bits - 1)) else v


class Halt(Exception):
  pass


class Isa:
  """Interpreter working on encoded words (decodes per the ISA document)."""

  def __init__(self, words, src, data_init=None):
    self.R = [0] * 32
    self.pc = RESET_PC
    self.mem = {}
    for i, w in enumerate(words):
      self.mem[RESET_PC + 4 * i] = w & M32
    for i, w in enumerate(data_init or []):
      self.mem[DATA_BASE + 4 * i] = w & M32
    self.src = list(src)
    self.src_used = 0
    self.sink = []
    self.xr0 = 0
    self.ndyn = 0
    self.text_end = RESET_PC + 4 * len(words)

  def wr(self, rd, v):
    if rd:
      self.R[rd] = v & M32

  def step(self):
    w = self.mem.get(self.pc)
    if w is None:
      raise Halt("fetch outside program at %#x" % self.pc)
    op = w & 0x7f
    rd = (w >> 7) & 31
    f3 = (w >> 12) & 7
    rs1 = (w >> 15) & 31
    rs2 = (w >> 20) & 31
    f7 = w >> 25
    R = self.R
    npc = self.pc + 4
    if op == 0b0110011 and f7 == 0:
      a, b = R[rs1], R[rs2]
      if f3 == 0b000:
        self.wr(rd, a + b)
      elif f3 == 0b111:
        self.wr(rd, a & b)
      elif f3 == 0b001:
        self.wr(rd, a << (b & 31))
      elif f3 == 0b101:
        self.wr(rd, a >> (b & 31))
      else:
        raise Halt("illegal")
    elif op == 0b0010011 and f3 == 0:
      self.wr(rd, R[rs1] + sext(w >> 20, 12))
    elif op == 0b0000011 and f3 == 0b010:
      addr = (R[rs1] + sext(w >> 20, 12)) & M32
      self.wr(rd, self.mem.get(addr, 0))
    elif op == 0b0100011 and f3 == 0b010:
      imm = sext(((w >> 25) << 5) | ((w >> 7) & 31), 12)
      addr = (R[rs1] + imm) & M32
      self.mem[addr] = R[rs2]
    elif op == 0b1100011 and f3 == 0b001:
      imm = sext((((w >> 31) & 1) << 12) | (((w >> 7) & 1) << 11) | (((w >> 25) & 0x3f) << 5) |
                 (((w >> 8) & 0xf) << 1), 13)
      if R[rs1] != R[rs2]:
        npc = (self.pc + imm) & M32
    elif op == 0b1110011 and f3 == 0b010:
      csr = w >> 20
      if csr == CSR_MNGR2PROC:
        if self.src_used >= len(self.src):
          raise Halt("mngr2proc empty")
        self.wr(rd, self.src[self.src_used])
        self.src_used += 1
      elif CSR_XCEL0 <= csr <= 0x7ff:
        self.wr(rd, self.xr0)
      else:
        raise Halt("illegal csr")
    elif op == 0b1110011 and f3 == 0b001:
      csr = w >> 20
      if csr == CSR_PROC2MNGR:
        self.sink.append(R[rs1])
      elif CSR_XCEL0 <= csr <= 0x7ff:
        self.xr0 = R[rs1]
      else:
        raise Halt("illegal csr")
    else:
      raise Halt("illegal instruction %#x" % w)
    self.pc = npc
    self.ndyn += 1

  def run(self, cap=20000):
    try:
      while self.ndyn < cap:
        self.step()
    except Halt as h:
      return str(h)
    return "cap"

  def data_window(self):
    return [self.mem.get(DATA_BASE + 4 * i, 0) for i in range(DATA_WORDS)]


# ---------------------------------------------------------------------------
# program generator
# ---------------------------------------------------------------------------

WORK = [2, 3, 4, 5, 6]       # few registers: forces hazards
BASE = 1                    # x1 = DATA_BASE, never overwritten
ADDR = [10, 11]             # computed addresses (always inside the window, aligned)
CNT = 12                    # loop counter
SENTINEL = 0x7ab


def gen_program(c, nmax=60):
  """-> (instructions, src_words).  Terminating by construction."""
  P = []
  src = [DATA_BASE]
  P.append(("csrr", BASE, CSR_MNGR2PROC))
  for r in WORK[:3]:
    P.append(("csrr", r, CSR_MNGR2PROC))
    src.append(c.getrandbits(32) if c.random() < 0.7 else c.choice([0, 1, M32, 31, 32, 33, 0x80000000]))
  recent = list(WORK[:3])
  addr_ok = {}               # reg -> max positive byte offset still inside the window

  def rs():
    if recent and c.random() < 0.7:
      return c.choice(recent[-2:])
    return c.choice(WORK + [0])

  def rdst():
    r = c.choice(WORK + ([0] if c.random() < 0.08 else []))
    if r:
      recent.append(r)
    return r

  def straight(n, in_loop):
    out = []
    while len(out) < n:
      r = c.random()
      if r < 0.22:
        out.append((c.choice(["add", "and", "add"]), rdst(), rs(), rs()))
      elif r < 0.32:
        # shifts: amount register gets a small / boundary value first half of the time
        if c.random() < 0.5:
          amt = rdst()
          out.append(("addi", amt, 0, c.choice([0, 1, 5, 31, 32, 33, 63])))
          out.append((c.choice(["sll", "srl"]), rdst(), rs(), amt))
        else:
          out.append((c.choice(["sll", "srl"]), rdst(), rs(), rs()))
      elif r < 0.45:
        out.append(("addi", rdst(), rs(), c.choice([0, 1, -1, 4, 2047, -2048, c.randint(-2048, 2047)])))
      elif r < 0.58:
        if c.random() < 0.5 or not addr_ok:
          out.append(("lw", rdst(), BASE, 4 * c.randrange(DATA_WORDS)))
        else:
          a = c.choice(sorted(addr_ok))
          out.append(("lw", rdst(), a, 4 * c.randrange(addr_ok[a] // 4 + 1)))
      elif r < 0.70:
        if c.random() < 0.5 or not addr_ok:
          out.append(("sw", rs(), BASE, 4 * c.randrange(DATA_WORDS)))
        else:
          a = c.choice(sorted(addr_ok))
          out.append(("sw", rs(), a, 4 * c.randrange(addr_ok[a] // 4 + 1)))
      elif r < 0.75:
        a = c.choice(ADDR)
        k = c.randrange(DATA_WORDS)
        out.append(("addi", a, BASE, 4 * k))
        addr_ok[a] = 4 * (DATA_WORDS - 1 - k)
      elif r < 0.84:
        out.append(("csrw", CSR_PROC2MNGR, rs()))
      elif r < 0.89:
        out.append(("csrr", rdst(), CSR_MNGR2PROC))
        src.append("dyn")
      elif r < 0.93:
        if c.random() < 0.5:
          out.append(("csrw", CSR_XCEL0, rs()))
        else:
          out.append(("csrr", rdst(), CSR_XCEL0))
      elif r < 0.955:
        # hazard pattern: a manager read shortly before an always-taken branch whose shadow starts
        # with another manager / accelerator read or a load (stalled-and-squashed instruction in D)
        ra = c.choice(WORK)
        recent.append(ra)
        out.append(("csrr", ra, CSR_MNGR2PROC))
        src.append("dyn")
        for _ in range(c.choice([0, 0, 0, 1, 2])):
          out.append(("addi", rdst(), rs(), c.randint(-4, 4)))
        k = c.randint(1, 2)
        shadow = [c.choice([("csrr", rdst(), CSR_MNGR2PROC), ("csrr", rdst(), CSR_XCEL0),
                            ("lw", rdst(), BASE, 4 * c.randrange(DATA_WORDS)),
                            ("csrw", CSR_PROC2MNGR, rs())])] + straight_simple(k - 1)
        # branch on the value just read from the manager (taken unless it is 0), or always taken
        out.append(("bne", ra, 0, 4 * (k + 1)) if c.random() < 0.7 else ("bne", BASE, 0, 4 * (k + 1)))
        out.extend(shadow)
      elif r < 0.965:
        # hazard pattern: a branch that depends on a load (or an accelerator read) issued 0..2
        # instructions earlier, arranged so that the stale register value and the loaded value decide the
        # branch differently: stale == rb (not taken) / loaded != rb (taken), or the other way round
        ra, rb = c.sample(WORK, 2)
        recent.extend([ra, rb])
        off = 4 * c.randrange(DATA_WORDS)
        v = c.choice([0, 0, 1, 5])
        if c.random() < 0.5:
          # memory word is (almost surely) != v: stale equal, loaded different
          out.append(("addi", rb, 0, v))
          out.append(("addi", ra, 0, v))
        else:
          # memory word == rb (stored just before): stale different, loaded equal
          out.append(("addi", rb, 0, v))
          out.append(("sw", rb, BASE, off))
          out.append(("addi", ra, 0, v + 1))
        out.append(("lw", ra, BASE, off))
        for _ in range(c.choice([0, 0, 0, 1, 2])):
          out.append(("nop",) if c.random() < 0.5 else ("addi", 0, 0, 0))
        k = c.randint(1, 2)
        out.append(("bne", ra, rb, 4 * (k + 1)) if c.random() < 0.5 else ("bne", rb, ra, 4 * (k + 1)))
        for _ in range(k):
          out.append(c.choice([("csrw", CSR_PROC2MNGR, ra), ("addi", rdst(), rs(), c.randint(1, 8)),
                               ("sw", rs(), BASE, 4 * c.randrange(DATA_WORDS))]))
        out.append(("csrw", CSR_PROC2MNGR, c.choice([ra, rb])))
      elif r < 0.975:
        k = c.randint(1, 3)
        body = straight_simple(k)
        out.append(("bne", rs(), rs(), 4 * (k + 1)))
        out.extend(body)
      else:
        out.append(("nop",))
    return out

  def straight_simple(k):
    out = []
    for _ in range(k):
      r = c.random()
      if r < 0.4:
        out.append(("addi", rdst(), rs(), c.randint(-8, 8)))
      elif r < 0.6:
        out.append(("add", rdst(), rs(), rs()))
      elif r < 0.75:
        out.append(("sw", rs(), BASE, 4 * c.randrange(DATA_WORDS)))
      elif r < 0.84:
        out.append(("lw", rdst(), BASE, 4 * c.randrange(DATA_WORDS)))
      elif r < 0.92:
        # a manager / accelerator read in a branch shadow: must not be executed (and must not
        # consume a message) when the branch is taken
        out.append(("csrr", rdst(), CSR_MNGR2PROC if c.random() < 0.7 else CSR_XCEL0))
      else:
        out.append(("csrw", CSR_PROC2MNGR, rs()))
    return out

  body_budget = c.randint(8, nmax)
  while len(P) < body_budget:
    if c.random() < 0.25:
      n = c.randint(1, 4)
      blen = c.randint(2, 7)
      body = straight(blen, True)
      P.append(("addi", CNT, 0, n))
      P.extend(body)
      P.append(("addi", CNT, CNT, -1))
      P.append(("bne", CNT, 0, -4 * (len(body) + 1)))
    else:
      P.extend(straight(c.randint(1, 6), False))
  if c.random() < 0.06:
    # far branches: a taken forward and a taken backward bne whose targets are more than 2 KiB away
    # (immediate bits above 11 matter), the gap filled with increments of x2 so that a wrong landing shows
    F = c.randint(510, 700)
    P.append(("bne", BASE, 0, 4 * (F + 3)))           # A   -> C
    P.append(("csrw", CSR_PROC2MNGR, 2))              # A+1 (target of the backward branch)
    P.append(("bne", BASE, 0, 4 * (F + 2)))           # A+2 -> D
    P.extend([("addi", 2, 2, 1)] * F)                 # never executed
    P.append(("bne", BASE, 0, -4 * (F + 2)))          # C   -> A+1
    P.append(("csrw", CSR_PROC2MNGR, 2))              # D
  # epilogue: sentinel, then park on an exhausted mngr2proc
  P.append(("addi", 13, 0, SENTINEL))
  P.append(("csrw", CSR_PROC2MNGR, 13))
  end_index = len(P)
  P.append(("csrr", 14, CSR_MNGR2PROC))
  P.extend([("nop",)] * 6)
  return P, src, end_index


def materialise(c, P, src_tmpl, end_index, data_init):
  """Run the interpreter with a lazily drawn source stream to find out how many
  words are consumed; returns (words, src_words, isa) where isa has run to the park."""
  words = [encode(i) for i in P]
  supply = []
  for x in src_tmpl:
    supply.append(x if x != "dyn" else None)
  # dynamic count unknown (loops): give a long random supply, then cut to what was consumed
  vals = [DATA_BASE]
  rnd = [c.getrandbits(32) if c.random() < 0.7 else c.choice([0, 1, M32, 4, 0x80000000]) for _ in range(400)]
  fixed = [x for x in src_tmpl[1:4]]
  full = [DATA_BASE] + fixed + rnd
  isa = Isa(words, full, data_init)
  park_pc = RESET_PC + 4 * end_index
  try:
    while isa.ndyn < 20000 and isa.pc != park_pc:
      isa.step()
  except Halt as h:
    return None
  if isa.pc != park_pc:
    return None
  used = full[:isa.src_used]
  return words, used, isa
