"""Reference model of a round-robin arbiter, written from the property
statement (C19), not from arbiters.py."""


class RRModel:
  def __init__(self, n, has_en):
    self.n = n
    self.has_en = has_en
    self.ptr = 0           # index of the highest-priority input

  def grant(self, reqs):
    n = self.n
    for k in range(n):
      i = (self.ptr + k) % n
      if (reqs >> i) & 1:
        return 1 << i
    return 0

  def tick(self, reqs, en, reset):
    g = self.grant(reqs)
    if reset:
      self.ptr = 0
    elif g and (en or not self.has_en):
      self.ptr = (g.bit_length() - 1 + 1) % self.n
    return g

  def ptr_onehot(self):
    return 1 << self.ptr
