"""Reference FIFO model per queue kind, written from the property statement
(C17): enqueue iff not full, dequeue iff not empty, plus enqueue-when-full for
pipe queues iff a dequeue happens that cycle, and dequeue-when-empty for bypass
queues iff an enqueue happens that cycle."""
from collections import deque


class Fifo:
  def __init__(self, kind, cap):
    assert kind in ("normal", "pipe", "bypass")
    self.kind = kind
    self.cap = cap
    self.q = deque()

  def cycle(self, enq_req, msg, deq_req):
    """One cycle's combinational view.  enq_req / deq_req: the environment is
    willing to enqueue / dequeue.  -> dict(enq_rdy, deq_ok, head, enq_fire, deq_fire, n)"""
    n = len(self.q)
    cap = self.cap
    if self.kind == "normal":
      enq_rdy = n < cap
      deq_ok = n > 0
      enq_fire = enq_req and enq_rdy
      deq_fire = deq_req and deq_ok
    elif self.kind == "pipe":
      deq_ok = n > 0
      deq_fire = deq_req and deq_ok
      enq_rdy = n < cap or deq_fire
      enq_fire = enq_req and enq_rdy
    else:
      enq_rdy = n < cap
      enq_fire = enq_req and enq_rdy
      deq_ok = n > 0 or enq_fire
      deq_fire = deq_req and deq_ok
    head = self.q[0] if n > 0 else (msg if (self.kind == "bypass" and enq_fire) else None)
    return {"enq_rdy": enq_rdy, "deq_ok": deq_ok, "head": head, "enq_fire": enq_fire,
            "deq_fire": deq_fire, "n": n}

  def tick(self, view, msg):
    if view["enq_fire"]:
      self.q.append(msg)
    if view["deq_fire"]:
      self.q.popleft()
    assert 0 <= len(self.q) <= self.cap

  def reset(self):
    self.q.clear()
