"""Independent VCD reader (scopes, $var, scalar and vector changes, timestamps)."""
import bisect


class VcdError(Exception):
  pass


class Vcd:
  def __init__(self, text):
    self.vars = {}        # (scope tuple, name) -> (width, symbol)
    self.changes = {}     # symbol -> ([times], [values]); initial values at time -1
    self.timescale = None
    self.end_time = -1
    self._parse(text)

  def _parse(self, text):
    toks = text.split()
    i = 0
    n = len(toks)
    scope = []
    # header / definitions
    while i < n:
      t = toks[i]
      if t == "$scope":
        if toks[i + 1] != "module" or toks[i + 3] != "$end":
          raise VcdError("bad $scope at token %d" % i)
        scope.append(toks[i + 2])
        i += 4
      elif t == "$upscope":
        if toks[i + 1] != "$end" or not scope:
          raise VcdError("bad $upscope")
        scope.pop()
        i += 2
      elif t == "$var":
        if toks[i + 1] != "reg" or toks[i + 5] != "$end":
          raise VcdError("bad $var: %s" % " ".join(toks[i:i + 6]))
        w = int(toks[i + 2])
        sym = toks[i + 3]
        name = toks[i + 4]
        key = (tuple(scope), name)
        if key in self.vars:
          raise VcdError("duplicate $var %s" % (key,))
        self.vars[key] = (w, sym)
        i += 6
      elif t == "$enddefinitions":
        if toks[i + 1] != "$end":
          raise VcdError("bad $enddefinitions")
        i += 2
        break
      elif t in ("$date", "$version", "$timescale", "$comment"):
        j = toks.index("$end", i)
        if t == "$timescale":
          self.timescale = " ".join(toks[i + 1:j])
        i = j + 1
      else:
        raise VcdError("unexpected token %r in header" % t)
    if scope:
      raise VcdError("unclosed scope")
    widths = {}
    for (sc, name), (w, sym) in self.vars.items():
      if widths.setdefault(sym, w) != w:
        raise VcdError("symbol %s used with two widths" % sym)
    self.sym_width = widths
    now = -1
    ch = self.changes
    while i < n:
      t = toks[i]
      if t[0] == "#":
        tnew = int(t[1:])
        if tnew < now:
          raise VcdError("time goes backwards at %s" % t)
        now = tnew
        i += 1
      elif t[0] == "b":
        bits = t[1:]
        sym = toks[i + 1]
        if sym not in widths:
          raise VcdError("unknown symbol %r" % sym)
        if len(bits) > widths[sym] or any(c not in "01" for c in bits):
          raise VcdError("bad vector value %r for %s" % (t, sym))
        self._add(sym, now, int(bits, 2))
        i += 2
      elif t[0] in "01":
        sym = t[1:]
        if sym not in widths:
          raise VcdError("unknown symbol %r" % sym)
        if widths[sym] != 1:
          raise VcdError("scalar change for vector symbol %r" % sym)
        self._add(sym, now, int(t[0]))
        i += 1
      else:
        raise VcdError("unexpected token %r in value section" % t)
    self.end_time = now

  def _add(self, sym, now, v):
    ts, vs = self.changes.setdefault(sym, ([], []))
    ts.append(now)
    vs.append(v)

  def value_at(self, sym, time):
    """value after all changes listed at timestamps <= time."""
    ts, vs = self.changes.get(sym, ([], []))
    k = bisect.bisect_right(ts, time)
    if k == 0:
      return None
    return vs[k - 1]

  def n_changes(self, sym, t0, t1):
    ts, vs = self.changes.get(sym, ([], []))
    return bisect.bisect_right(ts, t1) - bisect.bisect_left(ts, t0)
