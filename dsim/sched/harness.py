"""Scheduling harness (DESIGN.md 3.3).

`prepare(top, sched, seed)` makes `top` simulatable under one of:

  real pass groups, untouched:
    default simple unroll heutopo mamba
  the same passes replayed step by step with S2 (seeded presentation order of
  the DAG metadata) and random.seed() before passes that use the global RNG:
    default_s2 simple_s2 unroll_s2 heutopo_s2 mamba_s2
  harness-chosen linear extensions of top._dag.all_constraints (S1), executed
  through the real PrepareSimPass (or UnrollSimPass when `unroll`):
    forced      seeded random linear extension
    adversarial among ready blocks always run the one with the highest
                dataflow rank (the one that "should" run latest)

All of them leave top.sim_reset / sim_tick / sim_eval_combinational in place.
"""
import random
import sys

from pymtl3.dsl.errors import UpblkCyclicError
from pymtl3.passes.BasePass import PassMetadata
from pymtl3.passes.PassGroups import DefaultPassGroup, SimpleSimPass
from pymtl3.passes.mamba.PassGroups import HeuTopoUnrollSim, Mamba2020, UnrollSim
from pymtl3.passes.mamba.HeuristicTopoPass import HeuristicTopoPass
from pymtl3.passes.mamba.Mamba2020Pass import Mamba2020Pass
from pymtl3.passes.mamba.UnrollSimPass import UnrollSimPass
from pymtl3.passes.sim.DynamicSchedulePass import DynamicSchedulePass
from pymtl3.passes.sim.GenDAGPass import GenDAGPass
from pymtl3.passes.sim.PrepareSimPass import PrepareSimPass
from pymtl3.passes.sim.SimpleSchedulePass import SimpleSchedulePass
from pymtl3.passes.sim.WrapGreenletPass import WrapGreenletPass
from pymtl3.passes.tracing.CLLineTracePass import CLLineTracePass
from pymtl3.passes.tracing.LineTraceParamPass import LineTraceParamPass
from pymtl3.passes.tracing.PrintTextWavePass import PrintTextWavePass
from pymtl3.passes.tracing.VcdGenerationPass import VcdGenerationPass

from ..core import seams

REAL_GROUPS = ("default", "simple", "unroll", "heutopo", "mamba")
S2_GROUPS = tuple(g + "_s2" for g in REAL_GROUPS)
ACYCLIC_ONLY = {"simple", "unroll", "heutopo", "simple_s2", "unroll_s2", "heutopo_s2",
                "forced", "adversarial", "forced_unroll"}
ALL_SCHEDS = REAL_GROUPS + S2_GROUPS + ("forced", "adversarial", "forced_unroll")

seams.install_dump_dag_stub()


# ---------------------------------------------------------------------------
# S4 made unnecessary: canonical (address-free) presentation order for the REAL pass groups.
# Update-block functions hash by address, so the iteration order of top._dag.final_upblks /
# all_constraints / all_update_ff - and with it the tie-breaks of the real scheduling passes -
# would differ between interpreter runs (ASLR) and a replay in a fresh interpreter might pick
# another legal schedule.  After the real GenDAGPass has run, its result sets are re-wrapped in
# OrderedSets sorted by (host component, block name); HeuristicTopoPass breaks ties by id(), which
# is bound in that module to the canonical index of the block.  The seeded `*_s2` variants shuffle
# this canonical order with the run's seed.
# ---------------------------------------------------------------------------

_canon_index = {}


def _install_canonical_order():
  import builtins
  import pymtl3.passes.mamba.HeuristicTopoPass as H
  if getattr(GenDAGPass, "_dsim_canonical", False):
    return
  orig = GenDAGPass.__call__

  def __call__(self, top):
    orig(self, top)
    key = seams.blk_sort_key(top)
    blks = sorted(top._dag.final_upblks, key=key)
    top._dag.final_upblks = seams.OrderedSet(blks)
    top._dag.all_constraints = seams.OrderedSet(
      sorted(top._dag.all_constraints, key=lambda e: (key(e[0]), key(e[1]))))
    top._dsl.all_update_ff = seams.OrderedSet(sorted(top._dsl.all_update_ff, key=key))
    _canon_index.clear()
    for i, b in enumerate(blks):
      _canon_index[b] = i + 1

  GenDAGPass.__call__ = __call__
  GenDAGPass._dsim_canonical = True

  def canon_id(x):
    try:
      return _canon_index.get(x) or builtins.id(x)
    except TypeError:
      return builtins.id(x)
  sys.modules["pymtl3.passes.mamba.HeuristicTopoPass"].__dict__["id"] = canon_id


_install_canonical_order()


def graph(top):
  """(V, E) of the intra-cycle graph, V sorted by an address-free key."""
  key = seams.blk_sort_key(top)
  ffs = top.get_all_update_ff()
  V = sorted([b for b in top._dag.final_upblks if b not in ffs], key=key)
  Vs = set(V)
  E = sorted([(u, v) for (u, v) in top._dag.all_constraints if u in Vs and v in Vs],
             key=lambda e: (key(e[0]), key(e[1])))
  return V, E


def random_extension(V, E, rng, prio=None):
  """Seeded linear extension of the partial order E over V (Kahn).  With
  `prio` (blk -> number) pick, among ready blocks, a maximal-priority one
  (ties broken by rng).  Returns None when the graph is cyclic."""
  succ = {v: [] for v in V}
  ind = {v: 0 for v in V}
  for (u, v) in E:
    succ[u].append(v)
    ind[v] += 1
  ready = [v for v in V if ind[v] == 0]
  out = []
  while ready:
    if prio is None:
      k = rng.randrange(len(ready))
    else:
      m = max(prio.get(v, 0) for v in ready)
      cands = [i for i, v in enumerate(ready) if prio.get(v, 0) == m]
      k = cands[rng.randrange(len(cands))]
    u = ready.pop(k)
    out.append(u)
    for v in succ[u]:
      ind[v] -= 1
      if ind[v] == 0:
        ready.append(v)
  if len(out) != len(V):
    return None
  return out


def longest_path_rank(V, E):
  """rank(v) = length of the longest path ending in v (0 for sources)."""
  succ = {v: [] for v in V}
  ind = {v: 0 for v in V}
  for (u, v) in E:
    succ[u].append(v)
    ind[v] += 1
  rank = {v: 0 for v in V}
  ready = [v for v in V if ind[v] == 0]
  while ready:
    u = ready.pop()
    for v in succ[u]:
      rank[v] = max(rank[v], rank[u] + 1)
      ind[v] -= 1
      if ind[v] == 0:
        ready.append(v)
  return rank


def _tracing(top, vcd, textwave):
  if vcd:
    top.set_metadata(VcdGenerationPass.vcd_file_name, vcd)
  if textwave:
    top.set_metadata(PrintTextWavePass.enable, True)


def prepare(top, sched, seed=0, vcd=None, textwave=False, ff_perm_seed=None):
  """Apply scheduler `sched` to an elaborated `top`.  Returns a dict with what
  was decided (schedule by name where the harness chose it)."""
  info = {"sched": sched}
  rng = random.Random(seed)
  if not hasattr(top._dsl, "elaborate_top"):
    top.elaborate()

  if sched == "default":
    top.apply(DefaultPassGroup(vcdwave=vcd, textwave=textwave, linetrace=False))
  elif sched == "simple":
    _tracing(top, vcd, textwave)
    random.seed(seed)
    top.apply(SimpleSimPass())
  elif sched == "unroll":
    random.seed(seed)
    top.apply(UnrollSim(print_line_trace=False))
  elif sched == "heutopo":
    top.apply(HeuTopoUnrollSim(print_line_trace=False))
  elif sched == "mamba":
    top.apply(Mamba2020(print_line_trace=False))

  elif sched in S2_GROUPS or sched in ("forced", "adversarial", "forced_unroll"):
    _tracing(top, vcd, textwave)
    base = sched[:-3] if sched in S2_GROUPS else sched
    if base in ("default", "simple"):
      LineTraceParamPass()(top)
    GenDAGPass()(top)
    WrapGreenletPass()(top)
    seams.seed_dag_order(top, rng)
    if base == "default":
      CLLineTracePass()(top)
      DynamicSchedulePass()(top)
      VcdGenerationPass()(top)
      PrintTextWavePass()(top)
      PrepareSimPass(print_line_trace=False)(top)
    elif base == "simple":
      random.seed(rng.getrandbits(32))
      SimpleSchedulePass()(top)
      CLLineTracePass()(top)
      VcdGenerationPass()(top)
      PrintTextWavePass()(top)
      PrepareSimPass(print_line_trace=False)(top)
    elif base == "unroll":
      random.seed(rng.getrandbits(32))
      SimpleSchedulePass()(top)
      UnrollSimPass(print_line_trace=False)(top)
    elif base == "heutopo":
      HeuristicTopoPass(print_line_trace=False)(top)
    elif base == "mamba":
      Mamba2020Pass(print_line_trace=False)(top)
    else:
      V, E = graph(top)
      prio = longest_path_rank(V, E) if base == "adversarial" else None
      order = random_extension(V, E, rng, prio)
      if order is None:
        raise UpblkCyclicError("harness: cyclic graph cannot be given a forced linear extension")
      top._sched = PassMetadata()
      top._sched.update_schedule = order
      simple = SimpleSchedulePass()
      simple.schedule_ff(top)
      simple.schedule_posedge_flip(top)
      info["forced"] = [b.__name__ for b in order]
      if base == "forced_unroll" and ff_perm_seed is not None:
        permute_ff(top, ff_perm_seed)
      if base == "forced_unroll":
        UnrollSimPass(print_line_trace=False)(top)
      else:
        CLLineTracePass()(top)
        VcdGenerationPass()(top)
        PrintTextWavePass()(top)
        # schedule_ff must be permuted before PrepareSimPass captures it
        if ff_perm_seed is not None:
          permute_ff(top, ff_perm_seed)
          ff_perm_seed = None
        PrepareSimPass(print_line_trace=False)(top)
  else:
    raise ValueError(sched)
  info["ff_permutable"] = sched in ("forced", "adversarial", "forced_unroll")
  return info


def permute_ff(top, seed):
  """sched.ff_perm: seeded permutation of the flip-flop blocks (only possible
  between scheduling and PrepareSimPass, i.e. for forced schedulers; for the
  real pass groups the presentation order of all_update_ff is seeded by S2)."""
  key = seams.blk_sort_key(top)
  ffs = sorted(top._sched.schedule_ff, key=key)
  random.Random(seed).shuffle(ffs)
  top._sched.schedule_ff[:] = ffs


# ---------------------------------------------------------------------------
# S7: block-order recorder
# ---------------------------------------------------------------------------

class BlockRecorder:
  """Records the sequence of invocations of the design's update blocks
  (original function objects) through sys.setprofile 'call' events.  Works
  through Mamba meta-blocks, SCC wrappers and unrolled ticks, because the
  original function objects are still what is called.

  Code objects compare by value, so two instances of one class (or two
  generated net blocks with identical text) share a key; they are told apart
  by the `s` their closure / globals bind.  Blocks that are still
  indistinguishable form a group: `group[blk]` is the representative that is
  logged, `group_size[rep]` the number of blocks it stands for."""

  def __init__(self, top, on_call=None):
    self.by_key = {}
    self.group = {}
    self.group_size = {}
    self.ambiguous = set()
    by_code = {}
    for blk in top._dag.final_upblks:
      code = getattr(blk, "__code__", None)
      if code is not None:
        by_code.setdefault(code, []).append(blk)
    for code, blks in by_code.items():
      if len(blks) == 1:
        self.by_key[(code, None)] = blks[0]
        self.group[blks[0]] = blks[0]
        self.group_size[blks[0]] = 1
      else:
        self.ambiguous.add(code)
        for blk in blks:
          k = (code, id(_bound_s(blk)))
          rep = self.by_key.setdefault(k, blk)
          self.group[blk] = rep
          self.group_size[rep] = self.group_size.get(rep, 0) + 1
    self.codes = set(by_code)
    self.log = []
    self.on_call = on_call

  def _prof(self, frame, event, arg):
    if event != "call":
      return
    code = frame.f_code
    if code in self.codes:
      if code in self.ambiguous:
        s_obj = frame.f_locals.get("s") if "s" in code.co_freevars else frame.f_globals.get("s")
        blk = self.by_key.get((code, id(s_obj)))
        if blk is None:
          return
      else:
        blk = self.by_key[(code, None)]
      self.log.append(blk)
      if self.on_call is not None:
        self.on_call(blk)

  def __enter__(self):
    self.log = []
    sys.setprofile(self._prof)
    return self

  def __exit__(self, *a):
    sys.setprofile(None)
    return False


def _bound_s(fn):
  s_obj = _closure_s(fn)
  if s_obj is None:
    s_obj = getattr(fn, "__globals__", {}).get("s")
  return s_obj


def _closure_s(fn):
  try:
    names = fn.__code__.co_freevars
    for n, c in zip(names, fn.__closure__ or ()):
      if n == "s":
        return c.cell_contents
  except Exception:
    pass
  return None
