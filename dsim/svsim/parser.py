"""Recursive-descent parser for the svsim SystemVerilog subset."""

from . import svast as A
from .errors import SvSyntaxError, SvUnsupported
from .lexer import KEYWORDS, preprocess, tokenize

_BUILTIN_TYPES = {'logic', 'reg', 'wire', 'bit', 'integer', 'int', 'var'}
_UNSUPPORTED_TYPES = {'byte', 'shortint', 'longint', 'time', 'real', 'realtime',
                      'shortreal', 'string', 'chandle', 'event', 'enum', 'union',
                      'tri', 'wand', 'wor', 'uwire', 'supply0', 'supply1',
                      'tri0', 'tri1', 'triand', 'trior', 'trireg'}

_BINARY_PREC = [
    ('||',), ('&&',), ('|',), ('^', '~^', '^~'), ('&',),
    ('==', '!=', '===', '!=='), ('<', '<=', '>', '>='),
    ('<<', '>>', '<<<', '>>>'), ('+', '-'), ('*', '/', '%'), ('**',),
]
_UNARY_OPS = {'+', '-', '!', '~', '&', '|', '^', '~&', '~|', '~^', '^~'}
_ASSIGN_OPS = {'+=', '-=', '*=', '/=', '%=', '&=', '|=', '^=', '<<=', '>>=', '<<<=', '>>>='}

_UNSUPPORTED_ITEMS = {
    'task': 'task declaration', 'function': 'function declaration',
    'initial': 'initial block', 'final': 'final block',
    'always_latch': 'always_latch', 'import': 'import', 'export': 'export',
    'modport': 'modport', 'clocking': 'clocking block', 'property': 'property',
    'sequence': 'sequence', 'assert': 'assertion', 'assume': 'assertion',
    'cover': 'cover', 'covergroup': 'covergroup', 'defparam': 'defparam',
    'specify': 'specify block', 'bind': 'bind', 'alias': 'alias', 'class': 'class',
    'enum': 'enum', 'union': 'union', 'case': 'generate case', 'let': 'let',
    'timeunit': 'timeunit', 'timeprecision': 'timeprecision',
}
_UNSUPPORTED_STMTS = {
    'case': 'case statement', 'casez': 'casez statement', 'casex': 'casex statement',
    'unique': 'unique/priority qualifier', 'unique0': 'unique/priority qualifier',
    'priority': 'unique/priority qualifier',
    'while': 'while loop', 'do': 'do-while loop', 'repeat': 'repeat loop',
    'forever': 'forever loop', 'foreach': 'foreach loop', 'break': 'break',
    'continue': 'continue', 'return': 'return', 'fork': 'fork', 'wait': 'wait',
    'disable': 'disable', 'assert': 'assertion', 'assume': 'assertion',
    'cover': 'cover', 'force': 'force', 'release': 'release', 'assign': 'procedural assign',
    'deassign': 'deassign',
}


class Parser:
    def __init__(self, toks, src):
        self.toks = toks
        self.i = 0
        self.src = src

    # ---- token helpers -----------------------------------------------------
    @property
    def tok(self):
        return self.toks[self.i]

    def peek(self, k=1):
        j = min(self.i + k, len(self.toks) - 1)
        return self.toks[j]

    def err(self, msg, tok=None):
        tok = tok or self.tok
        got = 'end of text' if tok.kind == 'eof' else repr(tok.val if tok.kind != 'num' else 'number')
        raise SvSyntaxError('line %d: %s (got %s)' % (tok.line, msg, got))

    def is_op(self, *ops):
        t = self.tok
        return t.kind == 'op' and t.val in ops

    def is_kw(self, *kws):
        t = self.tok
        return t.kind == 'id' and t.val in kws

    def accept_op(self, op):
        if self.is_op(op):
            self.i += 1
            return True
        return False

    def accept_kw(self, kw):
        if self.is_kw(kw):
            self.i += 1
            return True
        return False

    def expect_op(self, op):
        if not self.is_op(op):
            self.err('expected %r' % op)
        self.i += 1

    def expect_kw(self, kw):
        if not self.is_kw(kw):
            self.err('expected %r' % kw)
        self.i += 1

    def expect_ident(self, what='identifier'):
        t = self.tok
        if t.kind != 'id':
            self.err('expected %s' % what)
        if t.val in KEYWORDS:
            self.src.issues.append(('reserved_identifier',
                                    "line %d: reserved word '%s' used as %s" % (t.line, t.val, what)))
        self.i += 1
        return t.val

    # ---- top level ---------------------------------------------------------
    def parse_source(self):
        src = self.src
        while self.tok.kind != 'eof':
            if self.is_kw('typedef'):
                self.parse_typedef()
            elif self.is_kw('module', 'macromodule'):
                m = self.parse_module()
                src.module_defs_count[m.name] = src.module_defs_count.get(m.name, 0) + 1
                if m.name not in src.modules:
                    src.modules[m.name] = m
                src.last_module = m.name
            elif self.is_op(';'):
                self.i += 1
            elif self.is_kw('package', 'interface', 'program', 'class', 'import', 'primitive',
                            'function', 'task', 'localparam', 'parameter', 'bind', 'config', 'checker'):
                raise SvUnsupported('line %d: top-level %s' % (self.tok.line, self.tok.val))
            else:
                self.err('expected module or typedef')
        return src

    def parse_typedef(self):
        line = self.tok.line
        self.expect_kw('typedef')
        if not self.is_kw('struct'):
            raise SvUnsupported('line %d: typedef of %s (only struct packed)' % (line, self.tok.val))
        self.i += 1
        if not self.accept_kw('packed'):
            raise SvUnsupported('line %d: unpacked struct' % line)
        if self.is_kw('signed', 'unsigned'):
            raise SvUnsupported('line %d: signed struct' % line)
        self.expect_op('{')
        fields = []
        while not self.is_op('}'):
            ftype = self.parse_type(allow_implicit=False)
            while True:
                fname = self.expect_ident('struct field name')
                if self.is_op('['):
                    raise SvUnsupported('line %d: unpacked dimension on struct member' % self.tok.line)
                if self.is_op('='):
                    raise SvUnsupported('line %d: struct member default' % self.tok.line)
                fields.append((ftype, fname))
                if not self.accept_op(','):
                    break
            self.expect_op(';')
        self.expect_op('}')
        name = self.expect_ident('typedef name')
        self.expect_op(';')
        if not fields:
            raise SvSyntaxError('line %d: empty struct %s' % (line, name))
        sd = A.StructDef(name, fields, line=line)
        if name in self.src.typedefs:
            self.src.issues.append(('dup_identifier', "line %d: typedef '%s' defined more than once" % (line, name)))
        else:
            self.src.typedefs[name] = sd
            self.src.typedef_order.append(name)

    # ---- types -------------------------------------------------------------
    def at_type(self):
        t = self.tok
        if t.kind != 'id':
            return False
        if t.val in _BUILTIN_TYPES or t.val in ('signed', 'unsigned'):
            return True
        if t.val in _UNSUPPORTED_TYPES:
            raise SvUnsupported('line %d: data type %s' % (t.line, t.val))
        return t.val in self.src.typedefs

    def parse_pdims(self):
        dims = []
        while self.is_op('['):
            self.i += 1
            left = self.parse_expr()
            self.expect_op(':')
            right = self.parse_expr()
            self.expect_op(']')
            dims.append((left, right))
        return dims

    def parse_type(self, allow_implicit=True):
        """Parse a data type; with allow_implicit an absent type means logic."""
        t = self.tok
        line = t.line
        base, name, signing = 'logic', None, None
        explicit = False
        if t.kind == 'id' and t.val in _UNSUPPORTED_TYPES:
            raise SvUnsupported('line %d: data type %s' % (t.line, t.val))
        if self.accept_kw('var'):
            explicit = True
        t = self.tok
        if t.kind == 'id' and t.val in ('logic', 'reg', 'wire', 'bit'):
            self.i += 1
            explicit = True
            if t.val == 'wire' and self.is_kw('logic'):
                self.i += 1
        elif t.kind == 'id' and t.val in ('integer', 'int'):
            self.i += 1
            base = t.val
            explicit = True
        elif t.kind == 'id' and t.val in self.src.typedefs:
            self.i += 1
            base, name = 'named', t.val
            explicit = True
        if self.is_kw('signed', 'unsigned'):
            signing = self.tok.val == 'signed'
            self.i += 1
            explicit = True
        pdims = self.parse_pdims()
        if pdims:
            explicit = True
            if base in ('integer', 'int'):
                raise SvSyntaxError('line %d: packed dimension on %s' % (line, base))
        if not explicit and not allow_implicit:
            self.err('expected a data type')
        if not explicit:
            base = 'implicit'
        return A.TypeRef(base, name, signing, pdims, line=line)

    def parse_udims(self):
        dims = []
        while self.is_op('['):
            self.i += 1
            left = self.parse_expr()
            if self.accept_op(':'):
                right = self.parse_expr()
            else:
                right = None
            self.expect_op(']')
            dims.append((left, right))
        return dims

    # ---- module ------------------------------------------------------------
    def parse_module(self):
        line = self.tok.line
        self.i += 1
        if self.is_kw('automatic', 'static'):
            self.i += 1
        name = self.expect_ident('module name')
        params = []
        if self.is_kw('import'):
            raise SvUnsupported('line %d: package import' % self.tok.line)
        if self.accept_op('#'):
            self.expect_op('(')
            kind = 'parameter'
            while not self.is_op(')'):
                pl = self.tok.line
                if self.is_kw('parameter', 'localparam'):
                    kind = self.tok.val
                    self.i += 1
                if self.is_kw('type'):
                    raise SvUnsupported('line %d: type parameter' % pl)
                ptype = self.parse_type()
                pname = self.expect_ident('parameter name')
                udims = self.parse_udims()
                init = None
                if self.accept_op('='):
                    init = self.parse_expr()
                params.append(A.Decl(kind, ptype, [(pname, udims, init)], line=pl))
                if not self.accept_op(','):
                    break
            self.expect_op(')')
        ports = []
        if self.accept_op('('):
            direction, ptype = None, None
            while not self.is_op(')'):
                pl = self.tok.line
                if self.accept_op('.'):
                    raise SvUnsupported('line %d: explicit port expression' % pl)
                if self.is_kw('input', 'output', 'inout', 'ref'):
                    direction = self.tok.val
                    if direction in ('inout', 'ref'):
                        raise SvUnsupported('line %d: %s port' % (pl, direction))
                    self.i += 1
                    ptype = self.parse_type()
                elif self.at_type() or self.is_op('['):
                    if direction is None:
                        raise SvUnsupported('line %d: non-ANSI port list' % pl)
                    ptype = self.parse_type()
                elif direction is None:
                    raise SvUnsupported('line %d: non-ANSI port list' % pl)
                pname = self.expect_ident('port name')
                udims = self.parse_udims()
                if self.is_op('='):
                    raise SvUnsupported('line %d: port default value' % pl)
                ports.append(A.PortDecl(direction, ptype, pname, udims, line=pl))
                if not self.accept_op(','):
                    break
            self.expect_op(')')
        self.expect_op(';')
        items = []
        while not self.is_kw('endmodule'):
            if self.tok.kind == 'eof':
                self.err("expected 'endmodule'")
            self.parse_item(items)
        self.i += 1
        if self.accept_op(':'):
            self.expect_ident('module name')
        return A.Module(name, params, ports, items, line=line)

    def parse_item(self, items, in_generate=False):
        t = self.tok
        line = t.line
        if t.kind == 'op' and t.val == ';':
            self.i += 1
            return
        if t.kind != 'id':
            self.err('expected a module item')
        v = t.val
        if v in _UNSUPPORTED_ITEMS:
            raise SvUnsupported('line %d: %s' % (line, _UNSUPPORTED_ITEMS[v]))
        if v in ('localparam', 'parameter'):
            self.i += 1
            if self.is_kw('type'):
                raise SvUnsupported('line %d: type parameter' % line)
            ptype = self.parse_type()
            names = []
            while True:
                n = self.expect_ident('parameter name')
                udims = self.parse_udims()
                self.expect_op('=')
                init = self.parse_expr()
                names.append((n, udims, init))
                if not self.accept_op(','):
                    break
            self.expect_op(';')
            items.append(A.Decl(v, ptype, names, line=line))
        elif v == 'genvar':
            self.i += 1
            names = []
            while True:
                names.append((self.expect_ident('genvar name'), [], None))
                if not self.accept_op(','):
                    break
            self.expect_op(';')
            items.append(A.Decl('genvar', None, names, line=line))
        elif v == 'typedef':
            raise SvUnsupported('line %d: typedef inside a module' % line)
        elif v == 'always_comb':
            self.i += 1
            items.append(A.AlwaysComb(self.parse_stmt(), line=line))
        elif v in ('always_ff', 'always'):
            self.i += 1
            if not self.accept_op('@'):
                if v == 'always':
                    raise SvUnsupported('line %d: always without event control' % line)
                self.err("expected '@'")
            if self.accept_op('*'):
                items.append(A.AlwaysComb(self.parse_stmt(), line=line))
                return
            self.expect_op('(')
            if self.accept_op('*'):
                self.expect_op(')')
                if v == 'always_ff':
                    raise SvSyntaxError('line %d: always_ff @(*)' % line)
                items.append(A.AlwaysComb(self.parse_stmt(), line=line))
                return
            if not self.is_kw('posedge', 'negedge'):
                raise SvUnsupported('line %d: level-sensitive event control' % line)
            edge = self.tok.val
            self.i += 1
            clk = self.parse_expr()
            if self.is_kw('or', 'iff') or self.is_op(','):
                raise SvUnsupported('line %d: event control with more than one event' % line)
            self.expect_op(')')
            if edge == 'negedge':
                raise SvUnsupported('line %d: negedge event control' % line)
            items.append(A.AlwaysFF(edge, clk, self.parse_stmt(), line=line))
        elif v == 'assign':
            self.i += 1
            if self.is_op('#') or self.is_op('('):
                raise SvUnsupported('line %d: delay/strength on assign' % line)
            while True:
                lhs = self.parse_lvalue()
                self.expect_op('=')
                rhs = self.parse_expr()
                items.append(A.ContAssign(lhs, rhs, line=line))
                if not self.accept_op(','):
                    break
            self.expect_op(';')
        elif v == 'generate':
            self.i += 1
            while not self.is_kw('endgenerate'):
                if self.tok.kind == 'eof':
                    self.err("expected 'endgenerate'")
                self.parse_item(items, in_generate=True)
            self.i += 1
        elif v == 'for':
            items.append(self.parse_genfor())
        elif v == 'if':
            items.append(self.parse_genif())
        elif v == 'begin':
            raise SvUnsupported('line %d: bare generate block' % line)
        elif v in ('input', 'output', 'inout'):
            raise SvUnsupported('line %d: non-ANSI port declaration' % line)
        elif self.at_type():
            items.append(self.parse_var_decl())
        else:
            # module instantiation:  Mod [#(...)] inst ( ... );
            nt = self.peek()
            if nt.kind == 'op' and nt.val == '#':
                items.append(self.parse_instance())
            elif nt.kind == 'id' and self.peek(2).kind == 'op' and self.peek(2).val in ('(', '['):
                items.append(self.parse_instance())
            elif nt.kind == 'id':
                # looks like "<unknown type> <name> ...": a declaration with an undefined type
                raise SvSyntaxError("line %d: unknown type or construct '%s'" % (line, v))
            else:
                self.err('expected a module item')

    def parse_var_decl(self):
        line = self.tok.line
        is_wire = self.is_kw('wire')
        vtype = self.parse_type(allow_implicit=False)
        names = []
        while True:
            n = self.expect_ident('variable name')
            udims = self.parse_udims()
            if self.is_op('='):
                raise SvUnsupported('line %d: %s initialiser in declaration of %s'
                                    % (line, 'net' if is_wire else 'variable', n))
            names.append((n, udims, None))
            if not self.accept_op(','):
                break
        self.expect_op(';')
        return A.Decl('var', vtype, names, line=line)

    def parse_gen_body(self):
        items = []
        label = None
        if self.accept_kw('begin'):
            if self.accept_op(':'):
                label = self.expect_ident('block label')
            while not self.is_kw('end'):
                if self.tok.kind == 'eof':
                    self.err("expected 'end'")
                self.parse_item(items, in_generate=True)
            self.i += 1
            if self.accept_op(':'):
                self.expect_ident('block label')
        else:
            self.parse_item(items, in_generate=True)
        for it in items:
            if isinstance(it, A.Decl):
                raise SvUnsupported('line %d: declaration inside a generate block' % it.line)
        return label, items

    def parse_genfor(self):
        line = self.tok.line
        self.expect_kw('for')
        self.expect_op('(')
        self.accept_kw('genvar')
        var = self.expect_ident('genvar')
        self.expect_op('=')
        init = self.parse_expr()
        self.expect_op(';')
        cond = self.parse_expr()
        self.expect_op(';')
        step = self.parse_for_step()
        self.expect_op(')')
        label, items = self.parse_gen_body()
        return A.GenFor(var, init, cond, step, label, items, line=line)

    def parse_genif(self):
        line = self.tok.line
        self.expect_kw('if')
        self.expect_op('(')
        c = self.parse_expr()
        self.expect_op(')')
        _, t = self.parse_gen_body()
        e = None
        if self.accept_kw('else'):
            if self.is_kw('if'):
                e = [self.parse_genif()]
            else:
                _, e = self.parse_gen_body()
        return A.GenIf(c, t, e, line=line)

    def parse_instance(self):
        line = self.tok.line
        modname = self.expect_ident('module name')
        params = []
        if self.accept_op('#'):
            self.expect_op('(')
            while not self.is_op(')'):
                if not self.accept_op('.'):
                    raise SvUnsupported('line %d: positional parameter override' % self.tok.line)
                pn = self.expect_ident('parameter name')
                self.expect_op('(')
                pv = None if self.is_op(')') else self.parse_expr()
                self.expect_op(')')
                params.append((pn, pv))
                if not self.accept_op(','):
                    break
            self.expect_op(')')
        iname = self.expect_ident('instance name')
        if self.is_op('['):
            raise SvUnsupported('line %d: array of instances' % line)
        self.expect_op('(')
        conns = []
        while not self.is_op(')'):
            if self.is_op('.') and self.peek().kind == 'op' and self.peek().val == '*':
                raise SvUnsupported('line %d: .* port connection' % self.tok.line)
            if not self.accept_op('.'):
                raise SvUnsupported('line %d: positional port connection' % self.tok.line)
            pn = self.expect_ident('port name')
            if not self.is_op('('):
                raise SvUnsupported('line %d: implicit .name port connection' % self.tok.line)
            self.expect_op('(')
            pe = None if self.is_op(')') else self.parse_expr()
            self.expect_op(')')
            conns.append((pn, pe, self.tok.line))
            if not self.accept_op(','):
                break
        self.expect_op(')')
        self.expect_op(';')
        return A.Instance(modname, params, iname, conns, line=line)

    # ---- statements --------------------------------------------------------
    def parse_stmt(self):
        t = self.tok
        line = t.line
        if t.kind == 'op' and t.val == ';':
            self.i += 1
            return A.Null(line=line)
        if t.kind == 'sys':
            raise SvUnsupported('line %d: system task %s' % (line, t.val))
        if t.kind == 'op' and t.val in ('#', '@', '->'):
            raise SvUnsupported('line %d: timing control in a statement' % line)
        if t.kind == 'op' and t.val in ('++', '--'):
            raise SvUnsupported('line %d: prefix %s statement' % (line, t.val))
        if t.kind == 'op' and t.val == '{':
            raise SvUnsupported('line %d: concatenation as assignment target' % line)
        if t.kind != 'id':
            self.err('expected a statement')
        v = t.val
        if v == 'begin':
            self.i += 1
            label = None
            if self.accept_op(':'):
                label = self.expect_ident('block label')
            stmts = []
            while not self.is_kw('end'):
                if self.tok.kind == 'eof':
                    self.err("expected 'end'")
                if self.at_type() and not (self.peek().kind == 'op' and self.peek().val in ('=', '<=', '[', '.')):
                    raise SvUnsupported('line %d: declaration inside a procedural block' % self.tok.line)
                stmts.append(self.parse_stmt())
            self.i += 1
            if self.accept_op(':'):
                self.expect_ident('block label')
            return A.Block(label, stmts, line=line)
        if v == 'if':
            self.i += 1
            self.expect_op('(')
            c = self.parse_expr()
            self.expect_op(')')
            th = self.parse_stmt()
            el = None
            if self.accept_kw('else'):
                el = self.parse_stmt()
            return A.If(c, th, el, line=line)
        if v == 'for':
            return self.parse_for()
        if v in _UNSUPPORTED_STMTS:
            raise SvUnsupported('line %d: %s' % (line, _UNSUPPORTED_STMTS[v]))
        # assignment
        lhs = self.parse_lvalue()
        t = self.tok
        if t.kind == 'op' and t.val == '=':
            self.i += 1
            if self.is_op('#', '@'):
                raise SvUnsupported('line %d: intra-assignment timing control' % line)
            rhs = self.parse_expr()
            self.expect_op(';')
            return A.Assign(lhs, rhs, True, line=line)
        if t.kind == 'op' and t.val == '<=':
            self.i += 1
            if self.is_op('#', '@'):
                raise SvUnsupported('line %d: intra-assignment timing control' % line)
            rhs = self.parse_expr()
            self.expect_op(';')
            return A.Assign(lhs, rhs, False, line=line)
        if t.kind == 'op' and t.val in _ASSIGN_OPS:
            self.i += 1
            rhs = self.parse_expr()
            self.expect_op(';')
            return A.Assign(lhs, A.Binary(t.val[:-1], lhs, rhs, line=line), True, line=line)
        if t.kind == 'op' and t.val in ('++', '--'):
            self.i += 1
            self.expect_op(';')
            one = A.Num(None, True, 1, 'dec', line=line)
            return A.Assign(lhs, A.Binary(t.val[0], lhs, one, line=line), True, line=line)
        if t.kind == 'op' and t.val == '(':
            raise SvUnsupported('line %d: task/function call statement' % line)
        self.err("expected '=' or '<=' in assignment")

    def parse_for_step(self):
        line = self.tok.line
        lhs = self.parse_lvalue()
        t = self.tok
        if t.kind == 'op' and t.val == '=':
            self.i += 1
            return A.Assign(lhs, self.parse_expr(), True, line=line)
        if t.kind == 'op' and t.val in _ASSIGN_OPS:
            self.i += 1
            return A.Assign(lhs, A.Binary(t.val[:-1], lhs, self.parse_expr(), line=line), True, line=line)
        if t.kind == 'op' and t.val in ('++', '--'):
            self.i += 1
            one = A.Num(None, True, 1, 'dec', line=line)
            return A.Assign(lhs, A.Binary(t.val[0], lhs, one, line=line), True, line=line)
        self.err('expected a for-loop step assignment')

    def parse_for(self):
        line = self.tok.line
        self.expect_kw('for')
        self.expect_op('(')
        decl = None
        if self.is_kw('int', 'integer', 'logic', 'bit', 'reg', 'var', 'genvar'):
            if self.is_kw('genvar'):
                self.err('genvar in a procedural for loop')
            decl = self.parse_type(allow_implicit=False)
        var = self.expect_ident('loop variable')
        if self.is_op('[', '.'):
            raise SvUnsupported('line %d: for-loop variable that is not a simple identifier' % line)
        self.expect_op('=')
        init = self.parse_expr()
        if self.is_op(','):
            raise SvUnsupported('line %d: multiple for-loop initialisers' % line)
        self.expect_op(';')
        cond = self.parse_expr()
        self.expect_op(';')
        step = self.parse_for_step()
        if self.is_op(','):
            raise SvUnsupported('line %d: multiple for-loop steps' % line)
        self.expect_op(')')
        body = self.parse_stmt()
        return A.For(decl, var, init, cond, step, body, line=line)

    # ---- expressions -------------------------------------------------------
    def parse_lvalue(self):
        t = self.tok
        if t.kind == 'op' and t.val == '{':
            raise SvUnsupported('line %d: concatenation as assignment target' % t.line)
        if t.kind != 'id':
            self.err('expected an assignment target')
        e = A.Ident(self.expect_ident('assignment target'), line=t.line)
        return self.parse_selects(e)

    def parse_selects(self, e):
        while True:
            t = self.tok
            if t.kind == 'op' and t.val == '[':
                self.i += 1
                a = self.parse_expr()
                if self.accept_op(':'):
                    b = self.parse_expr()
                    self.expect_op(']')
                    e = A.Slice(e, a, b, line=t.line)
                elif self.is_op('+:', '-:'):
                    up = self.tok.val == '+:'
                    self.i += 1
                    w = self.parse_expr()
                    self.expect_op(']')
                    e = A.IdxPart(e, a, w, up, line=t.line)
                else:
                    self.expect_op(']')
                    e = A.Index(e, a, line=t.line)
            elif t.kind == 'op' and t.val == '.':
                self.i += 1
                name = self.expect_ident('member name')
                e = A.Member(e, name, line=t.line)
            else:
                return e

    def parse_expr(self):
        return self.parse_cond()

    def parse_cond(self):
        c = self.parse_binary(0)
        if self.is_op('?'):
            line = self.tok.line
            self.i += 1
            a = self.parse_cond()
            self.expect_op(':')
            b = self.parse_cond()
            return A.Cond(c, a, b, line=line)
        return c

    def parse_binary(self, level):
        if level == len(_BINARY_PREC):
            return self.parse_unary()
        ops = _BINARY_PREC[level]
        if ops == ('**',):
            left = self.parse_binary(level + 1)
            while self.is_op('**'):
                line = self.tok.line
                self.i += 1
                right = self.parse_binary(level + 1)
                left = A.Binary('**', left, right, line=line)
            return left
        left = self.parse_binary(level + 1)
        while self.tok.kind == 'op' and self.tok.val in ops:
            op = self.tok.val
            line = self.tok.line
            self.i += 1
            right = self.parse_binary(level + 1)
            if op in ('===', '!=='):
                op = op[:2]       # two-state: identical to == / !=
            left = A.Binary(op, left, right, line=line)
        if self.is_kw('inside', 'dist', 'matches'):
            raise SvUnsupported('line %d: %s operator' % (self.tok.line, self.tok.val))
        return left

    def parse_unary(self):
        t = self.tok
        if t.kind == 'op' and t.val in _UNARY_OPS:
            self.i += 1
            a = self.parse_unary()
            return A.Unary(t.val, a, line=t.line)
        if t.kind == 'op' and t.val in ('++', '--'):
            raise SvUnsupported('line %d: %s in an expression' % (t.line, t.val))
        return self.parse_primary()

    def parse_primary(self):
        t = self.tok
        line = t.line
        if t.kind == 'num':
            self.i += 1
            width, signed, value, kind = t.val
            e = A.Num(width, signed, value, kind, line=line)
            if self.is_op("'"):
                return self.parse_cast(e)
            if self.is_op('['):
                raise SvSyntaxError('line %d: select on a literal' % line)
            return e
        if t.kind == 'str':
            raise SvUnsupported('line %d: string literal' % line)
        if t.kind == 'sys':
            self.i += 1
            args = []
            if self.accept_op('('):
                while not self.is_op(')'):
                    args.append(self.parse_expr())
                    if not self.accept_op(','):
                        break
                self.expect_op(')')
            return A.Call(t.val, args, line=line)
        if t.kind == 'id':
            if t.val in ('signed', 'unsigned') and self.peek().kind == 'op' and self.peek().val == "'":
                raise SvUnsupported("line %d: %s'() cast" % (line, t.val))
            if t.val in self.src.typedefs and self.peek().kind == 'op' and self.peek().val == "'":
                raise SvUnsupported("line %d: type cast %s'()" % (line, t.val))
            if t.val in ('int', 'integer', 'logic', 'bit', 'byte') and self.peek().kind == 'op' \
                    and self.peek().val == "'":
                raise SvUnsupported("line %d: type cast %s'()" % (line, t.val))
            name = self.expect_ident('identifier')
            if self.is_op('('):
                raise SvUnsupported('line %d: function call %s()' % (line, name))
            if self.is_op('::'):
                raise SvUnsupported('line %d: scope resolution ::' % line)
            e = A.Ident(name, line=line)
            if self.is_op("'"):
                return self.parse_cast(e)
            return self.parse_selects(e)
        if t.kind == 'op' and t.val == '(':
            self.i += 1
            e = self.parse_expr()
            self.expect_op(')')
            if self.is_op("'"):
                return self.parse_cast(e)
            if self.is_op('['):
                raise SvSyntaxError('line %d: select applied to a parenthesised expression' % self.tok.line)
            return e
        if t.kind == 'op' and t.val == '{':
            self.i += 1
            if self.is_op('}'):
                self.err('empty concatenation')
            first = self.parse_expr()
            if self.is_op('{'):
                # replication {n{a,b}}
                self.i += 1
                items = [self.parse_expr()]
                while self.accept_op(','):
                    items.append(self.parse_expr())
                self.expect_op('}')
                self.expect_op('}')
                e = A.Repl(first, items, line=line)
            else:
                items = [first]
                while self.accept_op(','):
                    items.append(self.parse_expr())
                self.expect_op('}')
                e = A.Concat(items, line=line)
            if self.is_op('['):
                raise SvUnsupported('line %d: select on a concatenation' % self.tok.line)
            return e
        if t.kind == 'op' and t.val == "'{":
            self.i += 1
            items = []
            while not self.is_op('}'):
                item = self.parse_expr()
                if self.is_op(':'):
                    raise SvUnsupported('line %d: keyed assignment pattern' % self.tok.line)
                if self.is_op('{'):
                    raise SvUnsupported('line %d: replication in assignment pattern' % self.tok.line)
                items.append(item)
                if not self.accept_op(','):
                    break
            self.expect_op('}')
            return A.Pattern(items, line=line)
        self.err('expected an expression')

    def parse_cast(self, width_expr):
        line = self.tok.line
        self.expect_op("'")
        if not self.is_op('('):
            self.err("expected '(' after cast apostrophe")
        self.i += 1
        e = self.parse_expr()
        self.expect_op(')')
        if self.is_op('['):
            raise SvSyntaxError('line %d: select applied to a cast' % self.tok.line)
        return A.Cast(width_expr, e, line=line)


def parse(text, defines=None):
    """Parse SystemVerilog text into a Source."""
    src = A.Source()
    src.last_module = None
    src.text = text
    toks = tokenize(preprocess(text, defines))
    Parser(toks, src).parse_source()
    return src
