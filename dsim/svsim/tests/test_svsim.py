"""Tests of svsim.

Run with:  /venv/bin/python -m pytest -q /verif/dsim/svsim/tests -p no:cacheprovider

Sections
  1. expression sizing / signedness against hand-computed IEEE 1800 values
  2. NBA ordering and process-order sensitivity
  3. static checks
  4. combinational loop detection
  5. every /repo/*__pickled.v parses, elaborates, simulates
  6. co-simulation against the PyMTL simulation, both backends
"""

import glob
import os
import random
import sys

import pytest

HERE = os.path.dirname(os.path.abspath(__file__))
sys.path.insert(0, os.path.dirname(os.path.dirname(HERE)))   # /verif/dsim
sys.path.insert(0, HERE)
if '/repo' not in sys.path:
    sys.path.insert(0, '/repo')


pytestmark = pytest.mark.filterwarnings('ignore::DeprecationWarning', 'ignore::SyntaxWarning')
from svsim import (SvCombLoop, SvElabError, SvSyntaxError, SvUnsupported,  # noqa: E402
                   elaborate, parse)


# ---------------------------------------------------------------------------
# helpers
# ---------------------------------------------------------------------------

def comb(decls, body, inputs=None, **opts):
    """Build a one-module design with the given port/variable declarations
    (`decls`: list of 'input logic [3:0] a' style strings) and always_comb
    body; apply inputs, settle and return a getter."""
    ports = ['input logic [0:0] clk', 'input logic [0:0] reset'] + [d for d in decls if d.startswith(('input', 'output'))]
    internal = [d for d in decls if not d.startswith(('input', 'output'))]
    text = 'module t (\n  %s\n);\n%s\n  always_comb begin : blk\n%s\n  end\nendmodule\n' % (
        ',\n  '.join(ports), '\n'.join('  %s;' % d for d in internal),
        '\n'.join('    ' + l for l in body.strip().split('\n')))
    d = elaborate(parse(text), **opts)
    sim = d.new_sim(0)
    for k, v in (inputs or {}).items():
        sim.set(k, v)
    sim.eval()
    return sim


AB = ['input logic [3:0] a', 'input logic [3:0] b']


# ---------------------------------------------------------------------------
# 1. sizing
# ---------------------------------------------------------------------------

def test_carry_kept_in_wider_target_and_lost_through_cast():
    s = comb(AB + ['output logic [4:0] y', 'output logic [4:0] z'],
             "y = a + b;\nz = 4'(a + b);", dict(a=15, b=1))
    assert s.get('y') == 16          # context width 5: carry kept
    assert s.get('z') == 0           # cast makes a 4-bit context: carry lost


def test_literal_truncation():
    s = comb(['output logic [3:0] o', 'output logic [3:0] p', 'output logic [7:0] q'],
             "o = 1'd2;\np = 2'd7;\nq = 4'hAB;")
    assert s.get('o') == 0           # 1'd2 -> value 0
    assert s.get('p') == 3           # 2'd7 -> 3, then zero-extended
    assert s.get('q') == 0xB


def test_one_bit_literal_subtraction():
    s = comb(['input logic [0:0] t', 'output logic [0:0] o1', 'output logic [3:0] o4',
              'output logic [0:0] c'],
             "o1 = ( 1'd2 - 1'd1 );\no4 = ( 1'd2 - 1'd1 );\nc = t < ( 1'd2 - 1'd1 );", dict(t=0))
    assert s.get('o1') == 1          # 0 - 1 in one bit
    assert s.get('o4') == 15         # operands extended to 4 bits first: 0 - 1 = 15
    assert s.get('c') == 1           # comparison: both sides one bit wide -> 0 < 1


def test_comparison_operands_sized_to_max_of_both():
    s = comb(AB + ['output logic [0:0] c5', 'output logic [0:0] c4', 'output logic [7:0] w'],
             "c5 = ( a + b ) > 5'd15;\nc4 = ( a + b ) > 4'd15;\nw = 8'( ( a + b ) == 4'd0 );",
             dict(a=15, b=1))
    assert s.get('c5') == 1          # 5-bit operands: 16 > 15
    assert s.get('c4') == 0          # 4-bit operands: 0 > 15
    assert s.get('w') == 1           # comparison result is 1 bit; wide target does not widen operands


def test_shift_right_operand_is_self_determined_left_is_context():
    s = comb(AB + ['output logic [7:0] y', 'output logic [7:0] z', 'output logic [3:0] u',
                   'output logic [4:0] v'],
             "y = a << 3'd4;\nz = a << ( b + b );\nu = ( a + b ) >> 1'd1;\nv = ( a + b ) >> 1'd1;",
             dict(a=15, b=8))
    assert s.get('y') == 0xF0        # left operand extended to 8 bits before the shift
    assert s.get('z') == 15          # b + b evaluated in 4 bits = 0
    assert s.get('u') == (((15 + 8) & 15) >> 1)
    assert s.get('v') == ((15 + 8) >> 1)


def test_concatenation_members_self_determined():
    s = comb(AB + ['output logic [4:0] y', 'output logic [8:0] z'],
             "y = { a + b };\nz = { a + b, a };", dict(a=15, b=1))
    assert s.get('y') == 0           # carry lost inside the concatenation
    assert s.get('z') == 15


def test_conditional_branches_context_sized_condition_self_determined():
    s = comb(AB + ['input logic [0:0] c', 'output logic [4:0] y', 'output logic [4:0] z'],
             "y = c ? a + b : 4'd0;\nz = ( a + b ) ? 5'd1 : 5'd2;", dict(a=15, b=1, c=1))
    assert s.get('y') == 16
    assert s.get('z') == 2           # condition evaluated in 4 bits = 0


def test_cast_then_shift():
    s = comb(['input logic [7:0] x', 'output logic [7:0] y', 'output logic [7:0] z'],
             "y = 4'(x) >> 1'd1;\nz = 4'(x) << 3'd4;", dict(x=0xFF))
    assert s.get('y') == 7
    assert s.get('z') == 0xF0        # the cast result is a 4-bit operand extended to 8 bits


def test_invert_extends_first():
    s = comb(AB + ['output logic [7:0] y', 'output logic [0:0] c', 'output logic [0:0] d'],
             "y = ~a;\nc = ( ~a ) == 8'hF0;\nd = ( ~a ) == 4'h0;", dict(a=15))
    assert s.get('y') == 0xF0
    assert s.get('c') == 1           # ~ applied after extension to 8 bits
    assert s.get('d') == 1


def test_unsized_decimal_is_32_bit_signed():
    s = comb(AB + ['output logic [0:0] c', 'output logic [39:0] y', 'output logic [39:0] z'],
             "c = ( a + 1 ) > 15;\ny = -1;\nz = 4'd15 + -1;", dict(a=15))
    assert s.get('c') == 1                       # 32-bit context
    assert s.get('y') == (1 << 40) - 1           # signed -1 sign-extended to 40 bits
    # -1 is unary minus applied to the literal 1 *after* it was extended to the
    # 40-bit context, so this is 15 + (2**40 - 1) mod 2**40
    assert s.get('z') == 14


def test_unary_minus_and_reductions():
    s = comb(AB + ['output logic [7:0] y', 'output logic [0:0] r1', 'output logic [0:0] r2',
                   'output logic [0:0] r3', 'output logic [0:0] n'],
             "y = -a;\nr1 = ( & a );\nr2 = ( | b );\nr3 = ( ^ a );\nn = !b;", dict(a=7, b=0))
    assert s.get('y') == (-7) & 0xFF
    assert (s.get('r1'), s.get('r2'), s.get('r3'), s.get('n')) == (0, 0, 1, 1)


def test_replication_sign_extension_idiom():
    s = comb(['input logic [7:0] x', 'output logic [15:0] y'],
             "y = { { 8 { x[7] } }, x };", dict(x=0x80))
    assert s.get('y') == 0xFF80


def test_mul_div_mod_pow():
    s = comb(AB + ['output logic [7:0] m', 'output logic [3:0] q', 'output logic [3:0] r',
                   'output logic [3:0] z', 'output logic [7:0] p'],
             "m = a * b;\nq = a / b;\nr = a % b;\nz = a / 4'd0;\np = 8'd3 ** 3'd4;", dict(a=13, b=5))
    assert (s.get('m'), s.get('q'), s.get('r'), s.get('z'), s.get('p')) == (65, 2, 3, 0, 81)


def test_signedness_integer_loop_and_comparison():
    # integer is signed: the descending loop terminates through i >= 0
    s = comb(['output logic [7:0] n', 'integer i'],
             "n = 8'd0;\nfor ( i = 3; i >= 0; i = i - 1 )\n  n = n + 8'd1;")
    assert s.get('n') == 4
    assert s.get('i') == 0xFFFFFFFF          # -1 as a 32-bit pattern
    # one unsigned operand makes the comparison unsigned: -1 < 1'd1 is false
    s = comb(['output logic [0:0] c', 'output logic [0:0] d', 'integer k'],
             "k = -1;\nc = k < 1'd1;\nd = k < 1;")
    assert s.get('c') == 0
    assert s.get('d') == 1


def test_signed_extension_and_arithmetic_shift():
    s = comb(['input logic [7:0] x', 'output logic [39:0] y', 'output logic [39:0] z',
              'output logic [7:0] s1', 'output logic [7:0] s2', 'output logic [15:0] s3', 'integer k'],
             "k = -2;\ny = k;\nz = k + 1'd1;\ns1 = $signed( x ) >>> 2;\ns2 = x >>> 2;\n"
             "s3 = $signed( x );", dict(x=0x84))
    assert s.get('y') == (1 << 40) - 2           # signed RHS: sign-extended to the target
    assert s.get('z') == 0xFFFFFFFE + 1          # unsigned expression: zero-extended
    assert s.get('s1') == 0xE1
    assert s.get('s2') == 0x21
    assert s.get('s3') == 0xFF84


def test_signed_division_truncates_toward_zero():
    s = comb(['output logic [31:0] q', 'output logic [31:0] r', 'integer k'],
             "k = -7;\nq = k / 2;\nr = k % 2;")
    assert s.get('q') == (-3) & 0xFFFFFFFF
    assert s.get('r') == (-1) & 0xFFFFFFFF


def test_cast_passes_signedness_through_index_is_signed():
    # IEEE 1800-2017 6.24.1: N'(e) keeps the signedness of e, so 2'(i) with an
    # `integer` i = 2 is the signed value -2: an out-of-range index.
    body = "for ( i = 0; i < 4; i = i + 1 )\n  y[2'(i)] = 1'd1;"
    decls = ['output logic [3:0] y', 'integer i']
    assert comb(decls, body).get('y') == 0b0011
    assert comb(decls, body, signed_index='unsigned').get('y') == 0b1111
    # with an unsigned loop variable there is no difference
    body = "for ( int unsigned j = 0; j < 4; j += 1 )\n  y[2'(j)] = 1'd1;"
    assert comb(['output logic [3:0] y'], body).get('y') == 0b1111


def test_variable_select_out_of_range_reads_zero_writes_nothing():
    s = comb(['input logic [2:0] i', 'input logic [4:0] v', 'output logic [0:0] r',
              'output logic [4:0] w', 'output logic [7:0] p'],
             "r = v[i];\nw = 5'd0;\nw[i] = 1'd1;\np = v[i +: 8];", dict(i=6, v=0x1F))
    assert s.get('r') == 0
    assert s.get('w') == 0
    assert s.get('p') == 0
    s = comb(['input logic [2:0] i', 'input logic [4:0] v', 'output logic [7:0] p'],
             "p = v[i +: 8];", dict(i=3, v=0x1F))
    assert s.get('p') == 0x3                     # bits 4:3, the rest out of range -> 0


def test_constant_select_out_of_range_is_elab_error():
    with pytest.raises(SvElabError):
        comb(['input logic [3:0] a', 'output logic [0:0] y'], "y = a[4];")
    with pytest.raises(SvElabError):
        comb(['input logic [3:0] a', 'output logic [1:0] y'], "y = a[4:3];")


STRUCT_TEXT = """
`ifndef INNER
`define INNER
typedef struct packed {
  logic [7:0] bar;
} Inner;
`endif
typedef struct packed {
  logic [3:0] foo;
  logic [1:0][7:0] arr;
  Inner inner;
  Inner [1:0] two;
} Outer;

module t ( input logic [0:0] clk, input logic [0:0] reset, input Outer in_,
           output logic [3:0] foo, output logic [7:0] a0, output logic [7:0] a1,
           output logic [7:0] bar, output logic [7:0] t1, output Outer out, output logic [3:0] bit4 );
  localparam logic [7:0] K [0:2] = '{ 8'd10, 8'd20, 8'd30 };
  localparam Inner C = { 8'd77 };
  always_comb begin : blk
    foo = in_.foo;
    a0 = in_.arr[1'd0];
    a1 = in_.arr[1'd1];
    bar = in_.inner.bar;
    t1 = in_.two[1].bar;
    out = in_;
    out.arr[1'd1] = K[2'd2];
    out.inner = C;
    out.two[0].bar[3:0] = 4'hF;
    bit4 = in_.arr[1'd1][7:4];
  end
endmodule
"""


def test_structs_packed_arrays_and_array_params():
    d = elaborate(parse(STRUCT_TEXT))
    assert d.static_issues() == []
    port = [p for p in d.ports if p.name == 'in_'][0]
    assert (port.direction, port.width, port.dims, port.type_name) == ('input', 44, (), 'Outer')
    s = d.new_sim()
    #       foo  arr[1] arr[0] inner two[1] two[0]
    val = (0xA << 40) | (0xBB << 32) | (0xCC << 24) | (0xDD << 16) | (0xEE << 8) | 0x10
    s.set('in_', val)
    s.eval()
    assert s.get('foo') == 0xA
    assert s.get('a0') == 0xCC and s.get('a1') == 0xBB      # element 0 least significant
    assert s.get('bar') == 0xDD
    assert s.get('t1') == 0xEE
    assert s.get('bit4') == 0xB
    assert s.get('out') == (0xA << 40) | (30 << 32) | (0xCC << 24) | (77 << 16) | (0xEE << 8) | 0x1F
    assert s.get('K') == [10, 20, 30]


def test_unpacked_arrays_ports_and_hierarchy():
    text = """
    module child ( input logic [0:0] clk, input logic [7:0] in_ [0:1][0:2], output logic [7:0] out [0:2] );
      always_comb begin : add
        for ( int unsigned i = 1'd0; i < 2'd3; i += 1'd1 )
          out[2'(i)] = in_[1'd0][2'(i)] + in_[1'd1][2'(i)];
      end
    endmodule
    module top ( input logic [0:0] clk, input logic [7:0] x [0:1][0:2], output logic [7:0] y [0:2] );
      logic [0:0] c__clk;
      logic [7:0] c__in_ [0:1][0:2];
      logic [7:0] c__out [0:2];
      child c ( .clk( c__clk ), .in_( c__in_ ), .out( c__out ) );
      assign c__clk = clk;
      assign c__in_ = x;
      assign y[0] = c__out[0];
      assign y[1] = c__out[1];
      assign y[2] = c__out[2];
    endmodule
    """
    d = elaborate(parse(text))
    assert d.static_issues() == []
    assert [tuple(p) for p in d.ports] == [('clk', 'input', 1, (), None), ('x', 'input', 8, (2, 3), None),
                                           ('y', 'output', 8, (3,), None)]
    s = d.new_sim()
    s.set('x', [[1, 2, 3], [10, 20, 30]])
    s.eval()
    assert s.get('y') == [11, 22, 33]
    s.set('x[1][2]', 250)
    s.eval()
    assert s.get('y[2]') == 253
    assert s.get('c.out') == [11, 22, 253]
    assert s.get('c.in_[1]') == [10, 20, 250]


def test_width_mismatch_in_port_connection_is_elab_error():
    text = """
    module child ( input logic [7:0] a, output logic [7:0] b ); assign b = a; endmodule
    module top ( input logic [3:0] x, output logic [7:0] y );
      child c ( .a( x ), .b( y ) );
    endmodule
    """
    with pytest.raises(SvElabError, match='8 bits wide'):
        elaborate(parse(text))
    with pytest.raises(SvElabError, match="no port 'zz'"):
        elaborate(parse(text.replace('.a( x )', '.zz( x )')))


def test_syntax_and_unsupported_are_distinguished():
    with pytest.raises(SvSyntaxError):
        parse("module t ( input logic a ); assign = a; endmodule")
    with pytest.raises(SvSyntaxError):
        parse("module t ( input logic [3:0] a, output logic [1:0] b ); assign b = ( a + a )[1:0]; endmodule")
    with pytest.raises(SvUnsupported):
        parse("module t ( input logic a ); initial begin end endmodule")
    with pytest.raises(SvUnsupported):
        parse("module t ( input logic a, output logic b ); always_comb case ( a ) default: b = a; endcase endmodule")
    with pytest.raises(SvUnsupported):
        parse("module t ( input logic a, output logic b ); assign b = 1'bx; endmodule")


def test_parameters_generate_and_clog2():
    text = """
    module leaf #( parameter n = 2, parameter w = 8, parameter aw = $clog2( n ) )
      ( input logic [w-1:0] in_ [0:n-1], input logic [aw-1:0] sel, output logic [w-1:0] out,
        output logic [w-1:0] copy [0:n-1] );
      localparam [w-1:0] top_bit = 1 << ( w - 1 );
      genvar i;
      generate
        for ( i = 0; i < n; i = i + 1 ) begin
          assign copy[i] = in_[i] | top_bit;
        end
      endgenerate
      assign out = in_[sel];
    endmodule
    module top ( input logic [3:0] a [0:3], input logic [1:0] s, output logic [3:0] o, output logic [3:0] c [0:3] );
      leaf #( .n( 4 ), .w( 4 ) ) l ( .in_( a ), .sel( s ), .out( o ), .copy( c ) );
    endmodule
    """
    d = elaborate(parse(text))
    assert d.static_issues() == []
    s = d.new_sim()
    s.set('a', [1, 2, 3, 4])
    s.set('s', 2)
    s.eval()
    assert s.get('o') == 3
    assert s.get('c') == [9, 10, 11, 12]


# ---------------------------------------------------------------------------
# 2. NBA ordering
# ---------------------------------------------------------------------------

SWAP = """
module swap ( input logic [0:0] clk, input logic [0:0] reset, output logic [7:0] a, output logic [7:0] b );
  always_ff @(posedge clk) begin : upa
    if ( reset ) a %(op)s 8'd1;
    else a %(op)s b;
  end
  always_ff @(posedge clk) begin : upb
    if ( reset ) b %(op)s 8'd2;
    else b %(op)s a;
  end
endmodule
"""


def _swap_results(op):
    d = elaborate(parse(SWAP % dict(op=op)))
    results = set()
    for seed in range(16):
        s = d.new_sim(order_seed=seed)
        s.set('reset', 1)
        s.eval()
        s.tick()
        s.set('reset', 0)
        s.eval()
        assert (s.get('a'), s.get('b')) == (1, 2)
        s.tick()
        results.add((s.get('a'), s.get('b')))
    return d, results


def test_nonblocking_swap_is_order_independent():
    d, results = _swap_results('<=')
    assert results == {(2, 1)}
    assert d.static_issues() == []


def test_blocking_swap_is_order_dependent_and_reported():
    d, results = _swap_results('=')
    assert results == {(2, 2), (1, 1)}       # depends on which block ran first
    kinds = [k for k, _ in d.static_issues()]
    assert kinds.count('blocking_in_ff') == 2
    assert set(kinds) == {'blocking_in_ff'}


def test_nba_rhs_and_target_index_sampled_immediately_last_write_wins():
    text = """
    module t ( input logic [0:0] clk, input logic [0:0] reset, input logic [1:0] i,
               output logic [7:0] r [0:3], output logic [7:0] q, output logic [1:0] p );
      always_ff @(posedge clk) begin : up
        p <= p + 2'd1;
        r[p] <= { 6'd0, p };
        q <= 8'd1;
        q <= 8'd2;
        q[7:4] <= 4'hA;
      end
    endmodule
    """
    d = elaborate(parse(text))
    assert d.static_issues() == []
    s = d.new_sim(3)
    s.eval()
    for _ in range(3):
        s.tick()
    assert s.get('r') == [0, 1, 2, 0]
    assert s.get('q') == 0xA2
    assert s.get('p') == 3


def test_tmpvar_and_loopvar_in_ff_are_not_reported():
    text = """
    module t ( input logic [0:0] clk, input logic [0:0] reset, input logic [7:0] in_, output logic [7:0] out );
      logic [7:0] __tmpvar__up_u;
      integer __loopvar__up_i;
      always_ff @(posedge clk) begin : up
        __tmpvar__up_u = in_ + 8'd1;
        for ( __loopvar__up_i = 1'd0; __loopvar__up_i < 2'd2; __loopvar__up_i = __loopvar__up_i + 1'd1 )
          out <= __tmpvar__up_u;
      end
    endmodule
    """
    d = elaborate(parse(text))
    assert d.static_issues() == []
    s = d.new_sim()
    s.set('in_', 4)
    s.eval()
    s.tick()
    assert s.get('out') == 5


# ---------------------------------------------------------------------------
# 3. static checks
# ---------------------------------------------------------------------------

def _kinds(text, **kw):
    return sorted({k for k, _ in elaborate(parse(text), **kw).static_issues()})


def test_multi_driver_detection():
    t = """module t ( input logic [0:0] clk, input logic [3:0] a, output logic [3:0] y );
      assign y = a;
      always_comb begin : blk
        y[0] = 1'd0;
      end
    endmodule"""
    assert _kinds(t) == ['multi_driver']
    # disjoint bits driven by different processes are fine
    t = """module t ( input logic [0:0] clk, input logic [3:0] a, output logic [3:0] y );
      assign y[3:1] = a[3:1];
      always_comb begin : blk
        y[0] = 1'd0;
      end
    endmodule"""
    assert _kinds(t) == []
    # an input port is driven from outside
    t = """module t ( input logic [0:0] clk, input logic [3:0] a, output logic [3:0] y );
      assign y = a;
      assign a = 4'd1;
    endmodule"""
    assert _kinds(t) == ['multi_driver']
    # an instance output and an assign
    t = """module c ( output logic [3:0] o ); assign o = 4'd3; endmodule
    module t ( input logic [0:0] clk, output logic [3:0] y );
      c c0 ( .o( y ) );
      assign y = 4'd1;
    endmodule"""
    assert _kinds(t) == ['multi_driver']


def test_undriven_detection():
    t = """module t ( input logic [0:0] clk, input logic [3:0] a, output logic [3:0] y );
      logic [3:0] w;
      logic [3:0] unused;
      assign y = a & w;
    endmodule"""
    issues = elaborate(parse(t)).static_issues()
    assert [k for k, _ in issues] == ['undriven'] and "'w'" in issues[0][1]
    t = """module t ( input logic [0:0] clk, input logic [3:0] a, output logic [3:0] y );
      assign y[2:0] = a[2:0];
    endmodule"""
    assert _kinds(t) == ['undriven']         # y[3] is a top-level output nobody drives


def test_duplicate_and_undefined_modules():
    t = """module c ( output logic o ); assign o = 1'd1; endmodule
    module c ( output logic o ); assign o = 1'd0; endmodule
    module t ( output logic y ); c c0 ( .o( y ) ); endmodule"""
    src = parse(t)
    assert src.module_defs_count == {'c': 2, 't': 1}
    assert list(src.modules) == ['c', 't']
    assert _kinds(t) == ['dup_module']
    t = "module t ( output logic y ); nothere c0 ( .o( y ) ); endmodule"
    d = elaborate(parse(t))
    assert 'undefined_module' in [k for k, _ in d.static_issues()]
    with pytest.raises(SvElabError):
        d.new_sim()
    with pytest.raises(SvElabError):
        elaborate(parse(t), top='missing')


def test_reserved_and_duplicate_identifiers():
    t = """module t ( input logic [0:0] clk, input logic [3:0] reg, output logic [3:0] y );
      assign y = reg;
    endmodule"""
    assert _kinds(t) == ['reserved_identifier']
    t = """module t ( input logic [0:0] clk, input logic [3:0] a, output logic [3:0] y );
      logic [3:0] w;
      logic [1:0] w;
      assign w = a;
      assign y = w;
    endmodule"""
    assert _kinds(t) == ['dup_identifier']


def test_clk_read_as_data_and_nonblocking_in_comb():
    t = """module c ( input logic [0:0] clk, input logic [0:0] d, output logic [0:0] q );
      always_ff @(posedge clk) begin : up
        q <= d;
      end
    endmodule
    module t ( input logic [0:0] clk, input logic [0:0] d, output logic [0:0] q, output logic [0:0] x );
      logic [0:0] c__clk;
      c c0 ( .clk( c__clk ), .d( d ), .q( q ) );
      assign c__clk = clk;
      assign x = d;
    endmodule"""
    assert _kinds(t) == []
    assert _kinds(t.replace('assign x = d;', 'assign x = d & c__clk;')) == ['clk_read_as_data']
    t = """module t ( input logic [0:0] clk, input logic [0:0] d, output logic [0:0] q );
      always_comb begin : blk
        q <= d;
      end
    endmodule"""
    assert _kinds(t) == ['nonblocking_in_comb']


# ---------------------------------------------------------------------------
# 4. combinational loops
# ---------------------------------------------------------------------------

def test_comb_loop_raises():
    t = """module t ( input logic [0:0] clk, input logic [0:0] en, output logic [0:0] a, output logic [0:0] b );
      always_comb begin : f
        a = ( ~b ) & en;
      end
      always_comb begin : g
        b = a;
      end
    endmodule"""
    d = elaborate(parse(t))
    for seed in range(4):
        s = d.new_sim(seed)
        s.eval()                       # en = 0: stable
        assert (s.get('a'), s.get('b')) == (0, 0)
        s.set('en', 1)
        with pytest.raises(SvCombLoop):
            s.eval()
    with pytest.raises(SvCombLoop):
        elaborate(parse("module t ( output logic [0:0] a ); assign a = ~a; endmodule")).new_sim().eval()


def test_always_comb_not_sensitive_to_what_it_writes():
    # reads a variable it has written earlier in the same block: settles in one activation
    t = """module t ( input logic [0:0] clk, input logic [7:0] x, output logic [7:0] y );
      logic [7:0] tmp;
      always_comb begin : f
        tmp = x + 8'd1;
        y = tmp + tmp;
      end
    endmodule"""
    s = elaborate(parse(t)).new_sim()
    s.set('x', 3)
    s.eval()
    assert s.get('y') == 8
    assert s.stats['activations'] <= 2


# ---- sensitivity at bit granularity, net-change wake-up (IEEE 1800-2017 9.2.2.2.1) ----

def test_false_loop_through_disjoint_slices_file_settles():
    """Several always_comb blocks write disjoint part-selects of one packed
    variable and read other part-selects of it, each with "default, then
    conditional overwrite" (a glitch on every execution).  Bit-level acyclic:
    must settle."""
    with open(os.path.join(HERE, 'data', 'false_loop_slices.v')) as fd:
        d = elaborate(parse(fd.read()))
    assert d.static_issues() == []
    finals = set()
    for seed in (0, 1, 2):
        sim = d.new_sim(order_seed=seed)
        sim.set('reset', 1)
        sim.eval()
        rng = random.Random(11)
        trace = []
        for cyc in range(20):
            for p in d.ports:
                if p.direction == 'input' and p.name != 'clk':
                    sim.set(p.name, _random_value(rng, p) if (p.name != 'reset' or cyc) else 1)
            sim.eval()
            sim.tick()
            trace.append(tuple(repr(sim.get(p.name)) for p in d.ports))
        finals.add(tuple(trace))
    assert len(finals) == 1              # and the result does not depend on the process order


SLICES_OK = """
module t ( input logic [0:0] clk, input logic [0:0] a, input logic [0:0] b, input logic [3:0] c,
           input logic [3:0] i, output logic [7:0] x, output logic [7:0] y );
  always_comb begin : p1
    x[3:0] = 4'd0;
    if ( a ) x[3:0] = y[7:4];
  end
  always_comb begin : p2
    y[7:4] = 4'd0;
    if ( b ) y[7:4] = c;
    y[3:0] = x[7:4];
  end
  always_comb begin : p3
    x[7:4] = i;
  end
endmodule
"""


def test_disjoint_slices_of_one_variable_settle_for_every_order():
    d = elaborate(parse(SLICES_OK))
    assert d.static_issues() == []
    for seed in range(12):
        sim = d.new_sim(order_seed=seed)
        rng = random.Random(seed)
        for _ in range(30):
            a, b, c, i = rng.getrandbits(1), rng.getrandbits(1), rng.getrandbits(4), rng.getrandbits(4)
            for k, v in dict(a=a, b=b, c=c, i=i).items():
                sim.set(k, v)
            sim.eval()
            yh = c if b else 0
            assert sim.get('y') == (yh << 4) | i
            assert sim.get('x') == (i << 4) | (yh if a else 0)
        # the glitching default assignments wake nobody: few activations per input change
        assert sim.stats['activations'] < 30 * 8


def test_glitch_restored_within_one_execution_wakes_nobody():
    t = """module t ( input logic [0:0] clk, input logic [3:0] a, output logic [3:0] w, output logic [3:0] z );
      always_comb begin : wr
        w = 4'd9;
        w = a;
      end
      always_comb begin : rd
        z = w + 4'd1;
      end
    endmodule"""
    sim = elaborate(parse(t)).new_sim()
    sim.set('a', 3)
    sim.eval()
    n = sim.stats['activations']
    sim.set('a', 3)                      # no change
    sim.eval()
    assert sim.stats['activations'] == n
    sim.set('a', 4)
    sim.eval()
    assert sim.stats['activations'] == n + 2      # wr once, rd once
    assert sim.get('z') == 5


def test_process_is_sensitive_to_bits_of_a_variable_it_does_not_write():
    # p writes x[3:0] and reads x[7:4]: it IS sensitive to x[7:4]
    t = """module t ( input logic [0:0] clk, input logic [3:0] i, output logic [7:0] x );
      always_comb begin : lo
        x[3:0] = ~x[7:4];
      end
      always_comb begin : hi
        x[7:4] = i;
      end
    endmodule"""
    d = elaborate(parse(t))
    assert d.static_issues() == []
    for seed in range(6):
        sim = d.new_sim(seed)
        for v in (5, 0, 15, 9):
            sim.set('i', v)
            sim.eval()
            assert sim.get('x') == (v << 4) | (~v & 15)


REAL_LOOP = """
module t ( input logic [0:0] clk, input logic [0:0] en, output logic [4:0] x, output logic [2:0] y );
  always_comb begin : px
    x[4:1] = 4'd0;
    if ( en ) x[4:1] = { 4 { ~y[2] } };
  end
  always_comb begin : py
    y[2:0] = { 3 { x[3] } };
  end
  assign x[0] = en;
endmodule
"""


def test_real_loop_through_overlapping_slices_still_raises():
    d = elaborate(parse(REAL_LOOP))
    assert d.static_issues() == []
    for seed in range(4):
        sim = d.new_sim(seed)
        sim.eval()                       # en = 0: stable
        assert (sim.get('x'), sim.get('y')) == (0, 0)
        sim.set('en', 1)
        with pytest.raises(SvCombLoop):
            sim.eval()


# ---------------------------------------------------------------------------
# 5. the translated files left in /repo by the pymtl3 test-suite
# ---------------------------------------------------------------------------

PICKLED = sorted(glob.glob('/repo/*__pickled.v'))

# Files outside the subset (hand-written Verilog pulled in by VerilogPlaceholder).
PICKLED_UNSUPPORTED = {
    'VRegTrace_noparam__pickled.v': 'variable initialiser',    # also tasks, initial, $sformat, macros
}

# Static issues that were investigated by hand and are properties of the file,
# not of svsim (see the final report).  {file: {mode: set(kinds)}}
#  * 'undriven' under signed_index='lrm' only: the Yosys backend indexes with
#    N'(integer loop variable); that cast is signed (1800-2017 6.24.1), so the
#    upper half of the index range is negative = out of range.
#  * 'multi_driver'/'undriven' in both modes: the Yosys backend emits two
#    continuous assignments to each flattened field of struct-typed (array)
#    ports, one of them from a wire nothing drives.
#  * ProcRTL additionally: ctrl.osquash_D is a Wire the PyMTL source never drives.
PICKLED_KNOWN = {
    'Crossbar__nports_3__dtype_Bits16__pickled.v': {'lrm': {'undriven'}, 'unsigned': set()},
    'DUT_noparam__pickled.v': {'lrm': {'undriven'}, 'unsigned': set()},
    'RoundRobinArbiterEn__nreqs_4__pickled.v': {'lrm': {'undriven'}, 'unsigned': set()},
    'RoundRobinArbiter__nreqs_4__pickled.v': {'lrm': {'undriven'}, 'unsigned': set()},
    'ChecksumXcelRTL_noparam__pickled.v': {'lrm': {'multi_driver', 'undriven'},
                                           'unsigned': {'multi_driver', 'undriven'}},
    'ProcRTL_noparam__pickled.v': {'lrm': {'multi_driver', 'undriven'},
                                   'unsigned': {'multi_driver', 'undriven'}},
}


def _random_value(rng, port, dims=None):
    dims = port.dims if dims is None else dims
    if not dims:
        return rng.getrandbits(port.width)
    return [_random_value(rng, port, dims[1:]) for _ in range(dims[0])]


def test_pickled_files_exist():
    assert len(PICKLED) >= 40


@pytest.mark.parametrize('path', PICKLED, ids=[os.path.basename(p) for p in PICKLED])
def test_pickled_file(path):
    name = os.path.basename(path)
    with open(path) as fd:
        text = fd.read()
    if name in PICKLED_UNSUPPORTED:
        with pytest.raises(SvUnsupported, match=PICKLED_UNSUPPORTED[name]):
            elaborate(parse(text))
        return
    src = parse(text)
    for mode in ('lrm', 'unsigned'):
        d = elaborate(src, signed_index=mode)
        kinds = {k for k, _ in d.static_issues()}
        expected = PICKLED_KNOWN.get(name, {}).get(mode, set())
        assert kinds == expected, (mode, d.static_issues()[:6])
        rng = random.Random(7)
        sim = d.new_sim(order_seed=5)
        sim.eval()
        for _ in range(20):
            for p in d.ports:
                if p.direction == 'input' and p.name != 'clk':
                    sim.set(p.name, _random_value(rng, p))
            sim.eval()
            sim.tick()
            for p in d.ports:
                sim.get(p.name)


# ---------------------------------------------------------------------------
# 6. co-simulation against PyMTL
# ---------------------------------------------------------------------------

from pymtl3 import Bits4, Bits8, Bits12, Bits16, Bits32, bitstruct            # noqa: E402
from pymtl3.stdlib.basic_rtl import (Crossbar, Encoder, Mux, RegisterFile,      # noqa: E402
                                     RoundRobinArbiter, RoundRobinArbiterEn)
from pymtl3.stdlib.stream.queues import BypassQueueRTL, NormalQueueRTL, PipeQueueRTL   # noqa: E402
from examples.ex02_cksum.ChecksumRTL import ChecksumRTL                          # noqa: E402

import cosim                                                                     # noqa: E402


@bitstruct
class SvsimTestMsg:
    a: Bits4
    b: Bits12


@bitstruct
class SvsimTestInner:
    x: Bits8


@bitstruct
class SvsimTestNested:
    hdr: Bits4
    inner: SvsimTestInner
    arr: [Bits8, Bits8]


def _sel_bias(n):
    def bias(name, v, rng):
        return v % n if 'sel' in name else v
    return bias


# name -> (factory, uses struct-typed array ports, input bias, has a loop indexed by the loop variable)
DESIGNS = {}
for _q in (NormalQueueRTL, PipeQueueRTL, BypassQueueRTL):
    for _t in (Bits16, SvsimTestMsg, SvsimTestNested):
        for _n in (1, 2, 3):
            DESIGNS['%s_%s_%d' % (_q.__name__, _t.__name__, _n)] = (
                (lambda q=_q, t=_t, n=_n: q(t, n)), _t is not Bits16, None)
DESIGNS.update({
    'RoundRobinArbiter_3': (lambda: RoundRobinArbiter(3), False, None),
    'RoundRobinArbiter_4': (lambda: RoundRobinArbiter(4), False, None),
    'RoundRobinArbiterEn_3': (lambda: RoundRobinArbiterEn(3), False, None),
    'RoundRobinArbiterEn_4': (lambda: RoundRobinArbiterEn(4), False, None),
    'Crossbar_3_Bits16': (lambda: Crossbar(3, Bits16), False, _sel_bias(3)),
    'Crossbar_4_Bits8': (lambda: Crossbar(4, Bits8), False, None),
    'Crossbar_2_struct': (lambda: Crossbar(2, SvsimTestMsg), True, None),
    'Encoder_5_3': (lambda: Encoder(5, 3), False, None),
    'Encoder_8_3': (lambda: Encoder(8, 3), False, None),
    'Mux_Bits16_4': (lambda: Mux(Bits16, 4), False, None),
    'Mux_Bits8_3': (lambda: Mux(Bits8, 3), False, _sel_bias(3)),
    'Mux_struct_2': (lambda: Mux(SvsimTestMsg, 2), True, None),
    'RegisterFile_16x8_2r2w': (lambda: RegisterFile(Bits16, 8, 2, 2), False, None),
    'RegisterFile_32x4_1r1w_zero': (lambda: RegisterFile(Bits32, 4, 1, 1, True), False, None),
    'RegisterFile_struct': (lambda: RegisterFile(SvsimTestMsg, 4, 1, 1), True, None),
    'ChecksumRTL': (lambda: ChecksumRTL(), False, None),
})


@pytest.mark.parametrize('name', sorted(DESIGNS))
def test_cosim_verilog_backend(name):
    make, _, bias = DESIGNS[name]
    # default (LRM) semantics, every output equal every cycle under 3 process orders,
    # and the emitted text has no static issue
    cosim.cosim(make, 'verilog', ncycles=100, seeds=(0, 1, 2), bias=bias, check_static=True)


def _yosys_struct_issue_ok(issue):
    kind, msg = issue
    return kind in ('multi_driver', 'undriven') and '__' in msg


@pytest.mark.parametrize('name', sorted(DESIGNS))
def test_cosim_yosys_backend(name):
    make, has_struct, bias = DESIGNS[name]
    # The Yosys backend indexes arrays with N'(integer): signed per the LRM
    # (finding reported separately, see test_yosys_loop_index_is_signed_per_lrm),
    # so the equivalence is checked with index bits taken as unsigned, which is
    # how Verilator reads them.
    m, text = cosim.translate(make, 'yosys')
    design = elaborate(parse(text), signed_index='unsigned')
    issues = design.static_issues()
    if has_struct:
        # known finding: duplicated continuous assignments on flattened struct ports
        assert all(_yosys_struct_issue_ok(i) for i in issues), issues
    else:
        assert issues == []
    cosim.cosim(make, 'yosys', ncycles=100, seeds=(0, 1, 2), bias=bias,
                elab_opts={'signed_index': 'unsigned'}, check_static=False)


YOSYS_LOOP_DESIGNS = ['RoundRobinArbiter_4', 'Crossbar_4_Bits8', 'Encoder_8_3', 'RegisterFile_16x8_2r2w']


@pytest.mark.parametrize('name', YOSYS_LOOP_DESIGNS)
def test_yosys_loop_index_is_signed_per_lrm(name):
    """Documents a translator finding: `x[N'(__loopvar__i)]` with an `integer`
    loop variable is a signed index; svsim (default, LRM) therefore disagrees
    with PyMTL for indices with the top bit set.  If this test fails the
    translator was changed (or svsim regressed)."""
    make, _, bias = DESIGNS[name]
    m, text = cosim.translate(make, 'yosys')
    assert "'(__loopvar__" in text
    design = elaborate(parse(text))                      # signed_index='lrm'
    statically_visible = any(k == 'undriven' for k, _ in design.static_issues())
    try:
        cosim.cosim(make, 'yosys', ncycles=100, seeds=(0,), bias=bias, check_static=False)
        dynamically_visible = False
    except cosim.Mismatch:
        dynamically_visible = True
    assert statically_visible or dynamically_visible


def test_seeded_order_is_reproducible_and_result_is_order_independent():
    text = open('/repo/ChecksumRTL_noparam__pickled.v').read()
    d = elaborate(parse(text), signed_index='unsigned')

    def trace(seed):
        s = d.new_sim(seed)
        rng = random.Random(3)
        out = []
        s.eval()
        for _ in range(10):
            for p in d.ports:
                if p.direction == 'input' and p.name != 'clk':
                    s.set(p.name, _random_value(rng, p))
            s.eval()
            s.tick()
            out.append(tuple(s.get(p.name) if not p.dims else tuple(s.get(p.name)) for p in d.ports))
        return out, dict(s.stats)
    a, sa = trace(1)
    b, sb = trace(1)
    c, sc = trace(2)
    assert a == b and sa == sb           # same seed: identical run, identical statistics
    assert a == c                        # different process order: same values
