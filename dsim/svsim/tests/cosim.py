"""Co-simulation helper: PyMTL simulation vs svsim on the translated text."""

import os
import random
import re
import sys
import tempfile

if '/repo' not in sys.path:
    sys.path.insert(0, '/repo')

from pymtl3 import DefaultPassGroup, InPort, OutPort
from pymtl3.datatypes import is_bitstruct_class, mk_bits
from pymtl3.passes.backends.verilog import VerilogTranslationPass
from pymtl3.passes.backends.yosys import YosysTranslationPass

import svsim

BACKENDS = {'verilog': VerilogTranslationPass, 'yosys': YosysTranslationPass}


def translate(make, backend):
    """Build + elaborate a component with `make()`, translate it in a scratch
    directory; return (component, emitted text)."""
    tpass = BACKENDS[backend]
    m = make()
    m.elaborate()
    m.set_metadata(tpass.enable, True)
    cwd = os.getcwd()
    with tempfile.TemporaryDirectory(prefix='svsim_tr_') as tmp:
        os.chdir(tmp)
        try:
            m.apply(tpass())
            fname = m.get_metadata(tpass.translated_filename)
            with open(fname) as fd:
                text = fd.read()
        finally:
            os.chdir(cwd)
    return m, text


def type_width(t):
    if is_bitstruct_class(t):
        return sum(type_width(f) for f in t.__bitstruct_fields__.values())
    if isinstance(t, list):
        return len(t) * type_width(t[0])
    return t.nbits


def flat_fields(name, t, hi):
    """Yosys flattening of a value of type t whose MSB is bit `hi` (exclusive
    upper bound): yields (flat_name, lo, width).  Struct: first field most
    significant; packed array: element 0 least significant."""
    if is_bitstruct_class(t):
        for fname, ft in t.__bitstruct_fields__.items():
            w = type_width(ft)
            yield from flat_fields('%s__%s' % (name, fname), ft, hi)
            hi -= w
    elif isinstance(t, list):
        w = type_width(t[0])
        for i in reversed(range(len(t))):
            yield from flat_fields('%s__%d' % (name, i), t[i], hi)
            hi -= w
    else:
        yield name, hi - t.nbits, t.nbits


class PortMap:
    """Maps one PyMTL top-level port to svsim names for a backend."""

    def __init__(self, port, backend):
        self.py = repr(port)                     # e.g. s.recv.msg, s.in_[2]
        self.type = port._dsl.Type
        self.width = type_width(self.type)
        self.is_input = isinstance(port, InPort)
        toks = re.findall(r'\.(\w+)|\[(\d+)\]', self.py[1:])
        names = [a for a, b in toks if a]
        idxs = [b for a, b in toks if b]
        if backend == 'verilog':
            self.sv = [('__'.join(names) + ''.join('[%s]' % i for i in idxs), 0, self.width)]
        else:
            base = '__'.join(a or b for a, b in toks)
            self.sv = list(flat_fields(base, self.type, self.width))

    def to_py(self, value):
        if is_bitstruct_class(self.type):
            return self.type.from_bits(mk_bits(self.width)(value))
        return self.type(value)


def py_value(m, pm):
    v = eval(pm.py, {'s': m})
    if is_bitstruct_class(pm.type):
        v = v.to_bits()
    return int(v)


def py_set(m, pm, value):
    exec('%s @= v' % pm.py, {'s': m, 'v': pm.to_py(value)})


class Mismatch(AssertionError):
    pass


def cosim(make, backend, ncycles=100, seeds=(0, 1, 2), input_seed=1234, elab_opts=None,
          bias=None, check_static=True):
    """Translate, then simulate PyMTL and svsim in lock-step with identical
    random inputs; every output port must agree every cycle, for each order
    seed.  Returns the emitted text.  Raises Mismatch with full details."""
    m, text = translate(make, backend)
    src = svsim.parse(text)
    design = svsim.elaborate(src, **(elab_opts or {}))
    ports = [PortMap(p, backend) for p in sorted(
        m.get_all_object_filter(lambda o: isinstance(o, (InPort, OutPort)) and o.get_host_component() is m
                                and o.get_top_level_signal() is o),
        key=repr)]
    ins = [p for p in ports if p.is_input and p.py not in ('s.clk', 's.reset')]
    outs = [p for p in ports if not p.is_input]
    # every svsim top-level port must be covered by the map
    covered = {'clk', 'reset'}
    for p in ports:
        for n, _, _ in p.sv:
            covered.add(re.sub(r'\[.*$', '', n))
    missing = {p.name for p in design.ports} - covered
    extra = covered - {p.name for p in design.ports}
    if missing or extra:
        raise Mismatch('port map mismatch (%s): emitted-only %s, expected-only %s'
                       % (backend, sorted(missing), sorted(extra)))
    if check_static:
        issues = design.static_issues()
        if issues:
            raise Mismatch('static issues in emitted text: %r' % (issues,))
    m.apply(DefaultPassGroup())
    sims = [design.new_sim(order_seed=seed) for seed in seeds]
    rng = random.Random(input_seed)
    m.sim_reset()
    for sim in sims:
        sv_reset(sim)
    for cyc in range(ncycles):
        for p in ins:
            v = rng.getrandbits(p.width)
            if bias is not None:
                v = bias(p.py, v, rng)
            py_set(m, p, v)
            for sim in sims:
                for n, lo, w in p.sv:
                    sim.set(n, (v >> lo) & ((1 << w) - 1))
        m.sim_eval_combinational()
        for sim in sims:
            sim.eval()
            _compare(m, sim, outs, 'cycle %d after eval, order_seed %d' % (cyc, sim.order_seed), text)
        m.sim_tick()
        for sim in sims:
            sim.tick()
            _compare(m, sim, outs, 'cycle %d after tick, order_seed %d' % (cyc, sim.order_seed), text)
    return text


def sv_reset(sim):
    """Mirror of PrepareSimPass.create_sim_reset: reset high, settle, three
    clock edges (each followed by settling), reset low, settle."""
    sim.set('reset', 1)
    sim.eval()
    for _ in range(3):
        sim.tick()
    sim.set('reset', 0)
    sim.eval()


def _compare(m, sim, outs, when, text):
    for p in outs:
        pv = py_value(m, p)
        for n, lo, w in p.sv:
            exp = (pv >> lo) & ((1 << w) - 1)
            got = sim.get(n)
            if got != exp:
                raise Mismatch('%s: port %s (PyMTL %s): PyMTL=%#x svsim=%#x' % (when, n, p.py, exp, got))
