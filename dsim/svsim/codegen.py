"""Compile one process (always block, continuous assignment, port connection)
into Python source, implementing IEEE 1800-2017 expression sizing.

Every generated expression evaluates to a non-negative Python int holding the
two's complement bit pattern of the SystemVerilog value at its context width.
Constants are folded at compile time: gen() returns an int for a constant and
a str (Python source) otherwise.
"""

from . import svast as A
from . import rt
from .errors import SvElabError, SvUnsupported
from .types import BIT_T, Const, PArrT, VecT

LOOP_UNROLL_CAP = 1 << 16
LOOP_RUNTIME_CAP = 1 << 20


def isc(x):
    return isinstance(x, int)


def mask(w):
    return (1 << w) - 1


class Ref:
    """A resolved (partially) selected object."""
    __slots__ = ('var', 'val', 'udims', 'slot', 'guards', 'ptype', 'off',
                 'whole', 'dynpart', 'tw', 'stride')

    def __init__(self):
        self.var = None        # Var, or None for a value reference
        self.val = None        # int / python source for value references
        self.udims = ()        # remaining unpacked dimensions
        self.slot = None       # int / python source
        self.guards = []       # python boolean sources that must hold (else out of range)
        self.ptype = None      # packed type at this point
        self.off = 0           # bit offset: int / python source
        self.whole = True      # no packed select applied yet
        self.dynpart = False   # off is a run-time value that may be out of range
        self.tw = 0            # total packed width of the underlying object
        self.stride = 1

    def clone(self):
        r = Ref()
        for s in Ref.__slots__:
            setattr(r, s, getattr(self, s))
        r.guards = list(self.guards)
        return r


class PreResolved(A.Node):
    """Internal expression node wrapping an already resolved Ref."""
    __slots__ = ('ref',)
    _fields = ('ref',)


class WriteOp:
    __slots__ = ('indent', 'var', 'slot', 'val', 'keep', 'guards', 'dyn')

    def __init__(self, indent, var, slot, val, keep, guards, dyn):
        self.indent, self.var, self.slot, self.val = indent, var, slot, val
        self.keep, self.guards, self.dyn = keep, guards, dyn


class ProcGen:
    """Code generator for one process."""

    def __init__(self, lookup, opts, where):
        self.lookup = lookup          # name -> Var | Const | None
        self.opts = opts
        self.where = where
        self.locals = []              # stack of {name: ('const', int, ptype) | ('py', pyname, ptype)}
        self.lines = []               # (indent, text) | WriteOp
        self.indent = 1
        self.ntmp = 0
        self.reads = {}               # slot -> mask
        self.writes = {}              # slot -> mask
        self.dyn_write_vars = set()
        self.tcache = {}
        self.unroll_depth = 0
        self.in_ff = False
        self.kind = 'comb'
        self.blocking_ff = []         # (Var, line, is_loopvar)
        self.nb_in_comb = []          # (Var, line)
        self.has_nba = False
        self.alias = None             # (src_slot, dst_slot) for pure pass-through assigns
        self.line = 0

    # ------------------------------------------------------------------ utils
    def tmp(self, prefix='_t'):
        self.ntmp += 1
        return '%s%d' % (prefix, self.ntmp)

    def emit(self, text):
        self.lines.append((self.indent, text))

    def err(self, msg, node=None):
        line = getattr(node, 'line', 0) or self.line
        return SvElabError('%s line %d: %s' % (self.where, line, msg))

    def unsupported(self, msg, node=None):
        line = getattr(node, 'line', 0) or self.line
        return SvUnsupported('%s line %d: %s' % (self.where, line, msg))

    def find_local(self, name):
        for d in reversed(self.locals):
            if name in d:
                return d[name]
        return None

    def note_read(self, slot, m):
        self.reads[slot] = self.reads.get(slot, 0) | m

    def note_write(self, slot, m):
        self.writes[slot] = self.writes.get(slot, 0) | m

    # ------------------------------------------------------------- resolution
    def resolve(self, e):
        if isinstance(e, PreResolved):
            return e.ref.clone()
        if isinstance(e, A.Ident):
            r = Ref()
            loc = self.find_local(e.name)
            if loc is not None:
                r.val, r.ptype = loc[1], loc[2]
                r.tw = r.ptype.width
                return r
            obj = self.lookup(e.name)
            if obj is None:
                raise self.err("undeclared identifier '%s'" % e.name, e)
            if obj == 'instance':
                raise self.unsupported("hierarchical reference through instance '%s'" % e.name, e)
            if isinstance(obj, Const):
                r.val, r.ptype = obj.value, obj.ptype
                r.tw = r.ptype.width
                return r
            r.var = obj
            r.udims = obj.udims
            r.slot = obj.slot
            r.ptype = obj.ptype
            r.tw = obj.ptype.width
            r.stride = obj.nslots
            return r
        if isinstance(e, A.Index):
            r = self.resolve(e.base)
            idx, ibits, isigned = self.index_value(e.idx)
            if r.udims:
                l, rr = r.udims[0]
                n = abs(l - rr) + 1
                stride = r.stride // n
                pos = self.position(idx, l, rr)
                if isc(pos):
                    if not 0 <= pos < n:
                        if self.unroll_depth == 0:
                            raise self.err('constant index %d out of range [%d:%d]' % (idx, l, rr), e)
                        r.guards.append('False')
                        pos = 0
                    r.slot = self.add(r.slot, pos * stride)
                else:
                    if not (not isigned and l == 0 and rr >= l and (1 << ibits) <= n):
                        t = self.tmp('_i')
                        r.guards.append('0 <= (%s := %s) < %d' % (t, pos, n))
                        pos = t
                    r.slot = self.add(r.slot, self.mul(pos, stride))
                r.udims = r.udims[1:]
                r.stride = stride
                return r
            if r.dynpart:
                raise self.unsupported('select on top of a variable indexed part-select', e)
            pt = r.ptype
            if pt.kind == 'parr':
                l, rr, ew, newt = pt.left, pt.right, pt.elem.width, pt.elem
            elif pt.kind == 'vec':
                if pt.scalar and r.var is not None:
                    raise self.err('bit-select of scalar %s' % r.var.name, e)
                l, rr, ew, newt = pt.left, pt.right, 1, BIT_T
            else:
                l, rr, ew, newt = pt.width - 1, 0, 1, BIT_T
            n = abs(l - rr) + 1
            pos = self.position(idx, rr, l)
            # position counted from the right bound (least significant element)
            if isc(pos):
                if not 0 <= pos < n:
                    if self.unroll_depth == 0:
                        raise self.err('constant select [%d] out of range [%d:%d]' % (idx, l, rr), e)
                    r.guards.append('False')
                    pos = 0
            else:
                if not (not isigned and rr == 0 and l >= rr and (1 << ibits) <= n):
                    t = self.tmp('_i')
                    r.guards.append('0 <= (%s := %s) < %d' % (t, pos, n))
                    pos = t
            r.off = self.add(r.off, self.mul(pos, ew))
            r.ptype = newt
            r.whole = False
            return r
        if isinstance(e, A.Slice):
            r = self.resolve(e.base)
            if r.udims:
                raise self.unsupported('slice of an unpacked array', e)
            if r.dynpart:
                raise self.unsupported('select on top of a variable indexed part-select', e)
            a = self.gen_const_signed(e.left, 'part-select bound')
            b = self.gen_const_signed(e.right, 'part-select bound')
            pt = r.ptype
            if pt.kind == 'parr':
                l, rr, ew = pt.left, pt.right, pt.elem.width
            elif pt.kind == 'vec':
                l, rr, ew = pt.left, pt.right, 1
            else:
                l, rr, ew = pt.width - 1, 0, 1
            desc = l >= rr
            if a != b and ((a > b) != desc):
                raise self.err('part-select [%d:%d] direction differs from declaration [%d:%d]' % (a, b, l, rr), e)
            lo, hi = min(l, rr), max(l, rr)
            if not (lo <= a <= hi and lo <= b <= hi):
                if self.unroll_depth == 0:
                    raise self.err('constant part-select [%d:%d] out of range [%d:%d]' % (a, b, l, rr), e)
                r.guards.append('False')
                a = b = rr
            pos = (b - rr) if desc else (rr - b)
            r.off = self.add(r.off, pos * ew)
            r.ptype = PArrT(a, b, pt.elem) if pt.kind == 'parr' else VecT(a, b)
            r.whole = False
            return r
        if isinstance(e, A.IdxPart):
            r = self.resolve(e.base)
            if r.udims:
                raise self.unsupported('slice of an unpacked array', e)
            if r.dynpart:
                raise self.unsupported('select on top of a variable indexed part-select', e)
            w = self.gen_const_signed(e.width, 'indexed part-select width')
            if w <= 0:
                raise self.err('indexed part-select width must be positive', e)
            pt = r.ptype
            if pt.kind == 'parr':
                l, rr, ew = pt.left, pt.right, pt.elem.width
            elif pt.kind == 'vec':
                l, rr, ew = pt.left, pt.right, 1
            else:
                l, rr, ew = pt.width - 1, 0, 1
            n = abs(l - rr) + 1
            desc = l >= rr
            if not desc and n > 1:
                raise self.unsupported('indexed part-select on an ascending range', e)
            idx, ibits, isigned = self.index_value(e.start)
            # lowest selected index
            base = idx if e.up else self.add(idx, -(w - 1))
            pos = self.add(base, -rr)
            if isc(pos):
                if pos < 0 or pos + w > n:
                    if self.unroll_depth == 0:
                        raise self.err('constant indexed part-select out of range [%d:%d]' % (l, rr), e)
                    r.dynpart = True
            else:
                r.dynpart = True
            if r.dynpart and not (isc(r.off) and r.off == 0 and r.ptype.width == r.tw):
                # express the offset relative to the whole object; bounds are those of this level
                if not isc(pos):
                    t = self.tmp('_i')
                    r.guards.append('0 <= (%s := %s) and %s + %d <= %d' % (t, pos, t, w, n))
                    pos = t
                    r.dynpart = False
                else:
                    r.guards.append('False')
                    pos = 0
                    r.dynpart = False
            r.off = self.add(r.off, self.mul(pos, ew))
            r.ptype = PArrT(w - 1, 0, pt.elem) if pt.kind == 'parr' else VecT(w - 1, 0)
            r.whole = False
            return r
        if isinstance(e, A.Member):
            # hierarchical names are not supported: base must be a struct
            r = self.resolve(e.base)
            if r.udims:
                raise self.err("member '.%s' of an unpacked array" % e.name, e)
            if r.dynpart:
                raise self.unsupported('select on top of a variable indexed part-select', e)
            pt = r.ptype
            if pt.kind != 'struct':
                raise self.err("member '.%s' of a non-struct" % e.name, e)
            if e.name not in pt.fmap:
                raise self.err("struct %s has no member '%s'" % (pt.name, e.name), e)
            ft, foff = pt.fmap[e.name]
            r.off = self.add(r.off, foff)
            r.ptype = ft
            r.whole = False
            return r
        raise self.err('expression is not a variable reference', e)

    @staticmethod
    def add(a, b):
        if isc(a) and isc(b):
            return a + b
        if isc(b) and b == 0:
            return a
        if isc(a) and a == 0:
            return b
        if isc(b) and b < 0:
            return '(%s - %d)' % (a, -b)
        return '(%s + %s)' % (a, b)

    @staticmethod
    def mul(a, b):
        if isc(a) and isc(b):
            return a * b
        if isc(b) and b == 1:
            return a
        if isc(a) and a == 1:
            return b
        return '(%s * %s)' % (a, b)

    def position(self, idx, first, last):
        """Distance of idx from `first` walking towards `last`."""
        if first <= last:
            return self.add(idx, -first)
        if isc(idx):
            return first - idx
        return '(%d - %s)' % (first, idx)

    def index_value(self, e):
        """Self-determined index expression as a Python integer (int/source);
        also its width and whether it was interpreted as signed."""
        c, L, S = self.gen_self(e)
        signed = S and self.opts.get('signed_index', 'lrm') == 'lrm'
        if signed:
            if isc(c):
                c = rt._sx(c, L)
            else:
                sb = 1 << (L - 1)
                c = '((%s ^ %d) - %d)' % (c, sb, sb)
        return c, L, signed

    # ---------------------------------------------------------------- reading
    def ref_slots(self, r):
        if isc(r.slot):
            n = 1
            for l, rr in r.udims:
                n *= abs(l - rr) + 1
            return range(r.slot, r.slot + n)
        return range(r.var.slot, r.var.slot + r.var.nslots)

    def read_ref(self, r, e=None):
        """Return (value, L, S) for a fully selected (packed) reference."""
        if r.udims:
            raise self.err('unpacked array used where a packed value is required', e)
        w = r.ptype.width
        signed = bool(r.whole and r.ptype.signed)
        if r.var is None:
            base = r.val
        else:
            m = (mask(w) << r.off) if isc(r.off) else mask(r.tw)
            for s in self.ref_slots(r):
                self.note_read(s, m)
            base = 'V[%s]' % r.slot
        if r.dynpart:
            if isc(base) and isc(r.off):
                v = rt._rdp(base, r.off, w, r.tw)
            else:
                v = '_rdp(%s, %s, %d, %d)' % (base, r.off, w, r.tw)
        elif isc(r.off):
            if isc(base):
                v = (base >> r.off) & mask(w)
            elif r.off == 0 and w == r.tw:
                v = base
            elif r.off == 0:
                v = '(%s & %d)' % (base, mask(w))
            elif r.off + w == r.tw:
                v = '(%s >> %d)' % (base, r.off)
            else:
                v = '(%s >> %d & %d)' % (base, r.off, mask(w))
        else:
            v = '(%s >> %s & %d)' % (base, r.off, mask(w))
        if r.guards:
            if 'False' in r.guards:
                v = 0
            else:
                v = '(%s if %s else 0)' % (v, ' and '.join(r.guards))
        return v, w, signed

    # ----------------------------------------------------------------- typing
    def typeof(self, e):
        key = id(e)
        t = self.tcache.get(key)
        if t is None or t[0] is not e:
            t = (e, self._typeof(e))
            self.tcache[key] = t
        return t[1]

    def _typeof(self, e):
        if isinstance(e, A.Num):
            if e.kind == 'fill':
                return 1, False
            if e.width is None:
                if e.value >= 1 << 32 or (e.kind == 'dec' and e.value >= 1 << 31):
                    raise self.unsupported('unsized literal %d does not fit in 32 bits' % e.value, e)
                return 32, e.signed
            return e.width, e.signed
        if isinstance(e, (A.Ident, A.Index, A.Slice, A.IdxPart, A.Member, PreResolved)):
            r = self.resolve(e)
            if r.udims:
                raise self.err('unpacked array used where a packed value is required', e)
            return r.ptype.width, bool(r.whole and r.ptype.signed)
        if isinstance(e, A.Concat):
            return sum(self.typeof(x)[0] for x in e.items), False
        if isinstance(e, A.Repl):
            n = self.gen_const_signed(e.count, 'replication count')
            if n <= 0:
                raise self.err('replication count must be positive', e)
            return n * sum(self.typeof(x)[0] for x in e.items), False
        if isinstance(e, A.Cast):
            n = self.gen_const_signed(e.width, 'cast width')
            if n <= 0:
                raise self.err('cast width must be positive', e)
            return n, self.typeof(e.e)[1]
        if isinstance(e, A.Unary):
            if e.op in ('~', '-', '+'):
                return self.typeof(e.a)
            self.typeof(e.a)
            return 1, False
        if isinstance(e, A.Binary):
            op = e.op
            if op in ('==', '!=', '<', '<=', '>', '>=', '&&', '||'):
                self.typeof(e.a)
                self.typeof(e.b)
                return 1, False
            if op in ('<<', '>>', '<<<', '>>>', '**'):
                self.typeof(e.b)
                return self.typeof(e.a)
            la, sa = self.typeof(e.a)
            lb, sb = self.typeof(e.b)
            return max(la, lb), sa and sb
        if isinstance(e, A.Cond):
            self.typeof(e.c)
            la, sa = self.typeof(e.a)
            lb, sb = self.typeof(e.b)
            return max(la, lb), sa and sb
        if isinstance(e, A.Call):
            if e.name in ('$clog2', '$bits'):
                return 32, True
            if e.name in ('$signed', '$unsigned'):
                if len(e.args) != 1:
                    raise self.err('%s takes one argument' % e.name, e)
                return self.typeof(e.args[0])[0], e.name == '$signed'
            raise self.unsupported('system function %s' % e.name, e)
        if isinstance(e, A.Pattern):
            raise self.unsupported("assignment pattern '{...} outside an array parameter initialiser", e)
        raise self.unsupported('expression %s' % type(e).__name__, e)

    # ------------------------------------------------------------ expressions
    def gen_self(self, e):
        L, S = self.typeof(e)
        return self.gen(e, L, S), L, S

    def gen_const_signed(self, e, what):
        c, L, S = self.gen_self(e)
        if not isc(c):
            raise self.err('%s must be a constant expression' % what, e)
        return rt._sx(c, L) if S else c

    def ext(self, c, L, S_leaf, W, S):  # S_leaf kept for readability at call sites
        """Convert a leaf of width L to the context (W, S)."""
        if W == L:
            return c
        if W < L:
            return (c & mask(W)) if isc(c) else '(%s & %d)' % (c, mask(W))
        if not S:
            return c
        sb = 1 << (L - 1)
        if isc(c):
            return ((c ^ sb) - sb) & mask(W)
        return '((%s ^ %d) - %d & %d)' % (c, sb, sb, mask(W))

    def gen(self, e, W, S):
        """Value of e in a context of width W >= L(e) and signedness S."""
        m = mask(W)
        if isinstance(e, A.Num):
            if e.kind == 'fill':
                return m if e.value else 0
            L, Sl = self.typeof(e)
            return self.ext(e.value & mask(L), L, Sl, W, S)
        if isinstance(e, (A.Ident, A.Index, A.Slice, A.IdxPart, A.Member, PreResolved)):
            v, L, Sl = self.read_ref(self.resolve(e), e)
            return self.ext(v, L, Sl, W, S)
        if isinstance(e, A.Unary):
            op = e.op
            if op == '+':
                return self.gen(e.a, W, S)
            if op == '-':
                a = self.gen(e.a, W, S)
                return (-a) & m if isc(a) else '(-%s & %d)' % (a, m)
            if op == '~':
                a = self.gen(e.a, W, S)
                return a ^ m if isc(a) else '(%s ^ %d)' % (a, m)
            if op in ('^', '~^', '^~'):
                v = self.gen_parity(e)
            else:
                b = self.gen_bool(e)
                v = (1 if b else 0) if isinstance(b, bool) else '(1 if %s else 0)' % b
            return self.ext(v, 1, False, W, S)
        if isinstance(e, A.Binary):
            op = e.op
            if op in ('==', '!=', '<', '<=', '>', '>=', '&&', '||'):
                b = self.gen_bool(e)
                v = (1 if b else 0) if isinstance(b, bool) else '(1 if %s else 0)' % b
                return self.ext(v, 1, False, W, S)
            if op in ('<<', '<<<', '>>', '>>>', '**'):
                a = self.gen(e.a, W, S)
                b, Lb, Sb = self.gen_self(e.b)
                if op in ('<<', '<<<'):
                    if isc(b):
                        if b >= W:
                            return 0
                        return rt._shl(a, b, W) if isc(a) else '(%s << %d & %d)' % (a, b, m)
                    return '_shl(%s, %s, %d)' % (a, b, W)
                if op == '>>' or (op == '>>>' and not S):
                    if isc(b):
                        if b >= W:
                            return 0
                        return a >> b if isc(a) else '(%s >> %d)' % (a, b)
                    return '_shr(%s, %s)' % (a, b)
                if op == '>>>':
                    if isc(a) and isc(b):
                        return rt._ashr(a, b, W)
                    return '_ashr(%s, %s, %d)' % (a, b, W)
                if S:
                    if isc(a) and isc(b):
                        return rt._pows(a, b, W, Lb) if Sb else rt._pows(a, b, W, Lb + 1)
                    return '_pows(%s, %s, %d, %d)' % (a, b, W, Lb if Sb else Lb + 1)
                if Sb:
                    # unsigned base, signed exponent: negative exponent -> treat via signed rule
                    if isc(a) and isc(b):
                        sbv = rt._sx(b, Lb)
                        return rt._powu(a, sbv, W) if sbv >= 0 else (1 if a == 1 else 0)
                    raise self.unsupported('** with signed run-time exponent', e)
                if isc(a) and isc(b):
                    return rt._powu(a, b, W)
                return '_powu(%s, %s, %d)' % (a, b, W)
            a = self.gen(e.a, W, S)
            b = self.gen(e.b, W, S)
            cc = isc(a) and isc(b)
            if op == '+':
                return (a + b) & m if cc else '(%s + %s & %d)' % (a, b, m)
            if op == '-':
                return (a - b) & m if cc else '(%s - %s & %d)' % (a, b, m)
            if op == '*':
                return (a * b) & m if cc else '(%s * %s & %d)' % (a, b, m)
            if op == '&':
                return a & b if cc else '(%s & %s)' % (a, b)
            if op == '|':
                return a | b if cc else '(%s | %s)' % (a, b)
            if op == '^':
                return a ^ b if cc else '(%s ^ %s)' % (a, b)
            if op in ('~^', '^~'):
                return (a ^ b ^ m) if cc else '(%s ^ %s ^ %d)' % (a, b, m)
            if op == '/':
                if S:
                    return rt._divs(a, b, W) if cc else '_divs(%s, %s, %d)' % (a, b, W)
                return rt._divu(a, b) if cc else '_divu(%s, %s)' % (a, b)
            if op == '%':
                if S:
                    return rt._mods(a, b, W) if cc else '_mods(%s, %s, %d)' % (a, b, W)
                return rt._modu(a, b) if cc else '_modu(%s, %s)' % (a, b)
            raise self.unsupported('binary operator %s' % op, e)
        if isinstance(e, A.Cond):
            c = self.gen_bool(e.c)
            a = self.gen(e.a, W, S)
            b = self.gen(e.b, W, S)
            if isinstance(c, bool):
                return a if c else b
            return '(%s if %s else %s)' % (a, c, b)
        if isinstance(e, A.Concat):
            v, L = self.gen_concat(e.items)
            return self.ext(v, L, False, W, S)
        if isinstance(e, A.Repl):
            n = self.gen_const_signed(e.count, 'replication count')
            v, L = self.gen_concat(e.items)
            k = sum(1 << (i * L) for i in range(n))
            v = v * k if isc(v) else '(%s * %d)' % (v, k)
            return self.ext(v, n * L, False, W, S)
        if isinstance(e, A.Cast):
            n, Se = self.typeof(e)
            Le = self.typeof(e.e)[0]
            wi = max(Le, n)
            v = self.gen(e.e, wi, Se)
            if wi > n:
                v = v & mask(n) if isc(v) else '(%s & %d)' % (v, mask(n))
            return self.ext(v, n, Se, W, S)
        if isinstance(e, A.Call):
            if e.name == '$clog2':
                if len(e.args) != 1:
                    raise self.err('$clog2 takes one argument', e)
                c, L, Sc = self.gen_self(e.args[0])
                if not isc(c):
                    raise self.unsupported('$clog2 of a run-time value', e)
                v = 0 if c < 2 else (c - 1).bit_length()
                return self.ext(v, 32, True, W, S)
            if e.name == '$bits':
                if len(e.args) != 1:
                    raise self.err('$bits takes one argument', e)
                return self.ext(self.typeof(e.args[0])[0], 32, True, W, S)
            if e.name in ('$signed', '$unsigned'):
                c, L, _ = self.gen_self(e.args[0])
                return self.ext(c, L, e.name == '$signed', W, S)
        self.typeof(e)      # raises the appropriate error
        raise self.unsupported('expression %s' % type(e).__name__, e)

    def gen_concat(self, items):
        parts = []
        total = 0
        for x in reversed(items):
            if isinstance(x, A.Num) and x.width is None:
                raise self.err('unsized literal in a concatenation', x)
            c, L, _ = self.gen_self(x)
            parts.append((c, total))
            total += L
        const = 0
        codes = []
        for c, sh in parts:
            if isc(c):
                const |= c << sh
            elif sh:
                codes.append('%s << %d' % (c, sh))
            else:
                codes.append('%s' % c)
        if not codes:
            return const, total
        if const:
            codes.append(str(const))
        if len(codes) == 1 and '<<' not in codes[0]:
            return codes[0], total
        return '(%s)' % ' | '.join(codes), total

    def gen_parity(self, e):
        a, L, _ = self.gen_self(e.a)
        inv = e.op != '^'
        if isc(a):
            return (bin(a).count('1') & 1) ^ (1 if inv else 0)
        if inv:
            return '(%s.bit_count() & 1 ^ 1)' % self.paren(a)
        return '(%s.bit_count() & 1)' % self.paren(a)

    @staticmethod
    def paren(c):
        c = str(c)
        if c.startswith('(') or c.startswith('V[') and c.count('[') == 1 or c.isidentifier():
            return c
        return '(%s)' % c

    def gen_bool(self, e):
        """Python truth-context source (or a bool constant) for e != 0."""
        if isinstance(e, A.Binary):
            op = e.op
            if op in ('==', '!=', '<', '<=', '>', '>='):
                la, sa = self.typeof(e.a)
                lb, sb_ = self.typeof(e.b)
                w = max(la, lb)
                s = sa and sb_
                a = self.gen(e.a, w, s)
                b = self.gen(e.b, w, s)
                if s and op not in ('==', '!='):
                    sb = 1 << (w - 1)
                    a = a ^ sb if isc(a) else '(%s ^ %d)' % (a, sb)
                    b = b ^ sb if isc(b) else '(%s ^ %d)' % (b, sb)
                if isc(a) and isc(b):
                    return {'==': a == b, '!=': a != b, '<': a < b, '<=': a <= b,
                            '>': a > b, '>=': a >= b}[op]
                return '%s %s %s' % (a, op, b)
            if op in ('&&', '||'):
                a = self.gen_bool(e.a)
                b = self.gen_bool(e.b)
                if isinstance(a, bool) and isinstance(b, bool):
                    return (a and b) if op == '&&' else (a or b)
                if isinstance(a, bool):
                    if op == '&&':
                        return b if a else False
                    return True if a else b
                if isinstance(b, bool):
                    if op == '&&':
                        return a if b else False
                    return True if b else a
                return '(%s %s %s)' % (a, 'and' if op == '&&' else 'or', b)
        if isinstance(e, A.Unary) and e.op in ('!', '&', '|', '~&', '~|'):
            op = e.op
            if op == '!':
                a = self.gen_bool(e.a)
                return (not a) if isinstance(a, bool) else '(not %s)' % a
            a, L, _ = self.gen_self(e.a)
            if op in ('&', '~&'):
                r = (a == mask(L)) if isc(a) else '%s == %d' % (a, mask(L))
            else:
                r = (a != 0) if isc(a) else '%s != 0' % a
            if op in ('~&', '~|'):
                return (not r) if isinstance(r, bool) else '(not %s)' % r
            return r
        c, L, _ = self.gen_self(e)
        if isc(c):
            return c != 0
        return c

    # ------------------------------------------------------------- statements
    def stmt(self, s):
        self.line = s.line or self.line
        if isinstance(s, A.Block):
            if not s.stmts:
                self.emit('pass')
            for x in s.stmts:
                self.stmt(x)
        elif isinstance(s, A.Null):
            self.emit('pass')
        elif isinstance(s, A.If):
            c = self.gen_bool(s.c)
            self.emit('if %s:' % c)
            self.indent += 1
            self.stmt(s.t)
            self.indent -= 1
            if s.e is not None:
                self.emit('else:')
                self.indent += 1
                self.stmt(s.e)
                self.indent -= 1
        elif isinstance(s, A.For):
            self.for_stmt(s)
        elif isinstance(s, A.Assign):
            self.assign(s.lhs, s.rhs, s.blocking, s)
        else:
            raise self.unsupported('statement %s' % type(s).__name__, s)

    @staticmethod
    def assigns_to(s, name):
        """Does statement s assign to the plain identifier `name`?"""
        if isinstance(s, A.Block):
            return any(ProcGen.assigns_to(x, name) for x in s.stmts)
        if isinstance(s, A.If):
            return ProcGen.assigns_to(s.t, name) or (s.e is not None and ProcGen.assigns_to(s.e, name))
        if isinstance(s, A.For):
            return s.var == name and s.decl is None or ProcGen.assigns_to(s.body, name)
        if isinstance(s, A.Assign):
            b = s.lhs
            while not isinstance(b, A.Ident):
                b = b.base
            return b.name == name
        return False

    def loop_var_type(self, s):
        if s.decl is not None:
            return self.decl_type(s.decl)
        loc = self.find_local(s.var)
        if loc is not None:
            return loc[2]
        obj = self.lookup(s.var)
        if obj is None or obj == 'instance':
            raise self.err("undeclared loop variable '%s'" % s.var, s)
        if isinstance(obj, Const):
            raise self.err("loop variable '%s' is a constant" % s.var, s)
        if obj.udims:
            raise self.err("loop variable '%s' is an array" % s.var, s)
        return obj.ptype

    def decl_type(self, t):
        if t.base in ('int', 'integer'):
            signed = True if t.signing is None else t.signing
            return VecT(31, 0, signed=signed)
        if t.base in ('logic', 'implicit'):
            signed = bool(t.signing)
            if not t.pdims:
                return VecT(0, 0, signed=signed, scalar=True)
            if len(t.pdims) == 1:
                l = self.gen_const_signed(t.pdims[0][0], 'range bound')
                r = self.gen_const_signed(t.pdims[0][1], 'range bound')
                return VecT(l, r, signed=signed)
        raise self.unsupported('loop variable type', t)

    def assign_value(self, rhs, ptype):
        """rhs evaluated in the assignment context of a target of type ptype."""
        Lr, Sr = self.typeof(rhs)
        w = max(Lr, ptype.width)
        v = self.gen(rhs, w, Sr)
        if w > ptype.width:
            v = v & mask(ptype.width) if isc(v) else '(%s & %d)' % (v, mask(ptype.width))
        return v

    def for_stmt(self, s):
        vt = self.loop_var_type(s)
        module_var = None
        if s.decl is None and self.find_local(s.var) is None:
            module_var = self.lookup(s.var)
        step_lhs = s.step.lhs
        if not (isinstance(step_lhs, A.Ident) and step_lhs.name == s.var):
            raise self.unsupported('for-loop step that does not assign the loop variable', s)
        static = not self.assigns_to(s.body, s.var)
        if static:
            # try to unroll: init/cond/step must fold to constants
            saved = (len(self.lines), self.ntmp, dict(self.reads), dict(self.writes),
                     len(self.blocking_ff), len(self.nb_in_comb))
            frame = {}
            self.locals.append(frame)
            self.unroll_depth += 1
            ok = True
            try:
                v = self.assign_value(s.init, vt)
                if not isc(v):
                    ok = False
                n = 0
                while ok:
                    frame[s.var] = ('const', v, vt)
                    self.tcache.clear()
                    c = self.gen_bool(s.cond)
                    if not isinstance(c, bool):
                        ok = False
                        break
                    if not c:
                        break
                    n += 1
                    if n > LOOP_UNROLL_CAP:
                        raise self.unsupported('for loop with more than %d iterations' % LOOP_UNROLL_CAP, s)
                    self.stmt(s.body)
                    v = self.assign_value(s.step.rhs, vt)
                    if not isc(v):
                        ok = False
            finally:
                self.unroll_depth -= 1
                self.locals.pop()
                self.tcache.clear()
            if ok:
                if module_var is not None:
                    self.write_ref(self.resolve(A.Ident(s.var, line=s.line)), v, True, s, loopvar=True)
                return
            del self.lines[saved[0]:]
            self.ntmp = saved[1]
            self.reads, self.writes = saved[2], saved[3]
            del self.blocking_ff[saved[4]:]
            del self.nb_in_comb[saved[5]:]
        # run-time loop
        cnt = self.tmp('_n')
        if module_var is None and s.decl is not None:
            py = self.tmp('L_' + s.var)
            self.locals.append({s.var: ('py', py, vt)})
            v = self.assign_value(s.init, vt)
            self.emit('%s = %s' % (py, v))
        else:
            self.locals.append({})
            self.assign(A.Ident(s.var, line=s.line), s.init, True, s, loopvar=True)
        self.emit('%s = 0' % cnt)
        c = self.gen_bool(s.cond)
        self.emit('while %s:' % c)
        self.indent += 1
        self.emit('%s += 1' % cnt)
        self.emit('if %s > %d: _loop_overrun(%r)' % (cnt, LOOP_RUNTIME_CAP, '%s line %d' % (self.where, s.line)))
        self.stmt(s.body)
        if module_var is None and s.decl is not None:
            v = self.assign_value(s.step.rhs, vt)
            self.emit('%s = %s' % (self.find_local(s.var)[1], v))
        else:
            self.assign(s.step.lhs, s.step.rhs, True, s, loopvar=True)
        self.indent -= 1
        self.locals.pop()

    def assign(self, lhs, rhs, blocking, node, loopvar=False):
        r = self.resolve(lhs)
        if r.var is None:
            loc = None
            if isinstance(lhs, A.Ident):
                loc = self.find_local(lhs.name)
            if loc is not None and loc[0] == 'py':
                self.emit('%s = %s' % (loc[1], self.assign_value(rhs, loc[2])))
                return
            raise self.err('assignment to a constant', node)
        if r.var.kind == 'param':
            raise self.err("assignment to parameter '%s'" % r.var.name, node)
        if r.udims:
            self.assign_array(r, rhs, blocking, node)
            return
        v = self.assign_value(rhs, r.ptype)
        self.write_ref(r, v, blocking, node, loopvar=loopvar)

    def assign_array(self, r, rhs, blocking, node):
        try:
            src = self.resolve(rhs)
        except SvElabError:
            raise self.err('unpacked array assigned from a non-array expression', node)
        ddims = tuple(abs(a - b) + 1 for a, b in r.udims)
        sdims = tuple(abs(a - b) + 1 for a, b in src.udims)
        if ddims != sdims:
            raise self.err('unpacked array dimensions differ: target %s, source %s' % (list(ddims), list(sdims)), node)
        if src.ptype.width != r.ptype.width:
            raise self.err('unpacked array element widths differ: target %d, source %d'
                           % (r.ptype.width, src.ptype.width), node)
        n = 1
        for d in ddims:
            n *= d
        for i in range(n):
            d = r.clone()
            d.udims = ()
            d.slot = self.add(r.slot, i)
            sr = src.clone()
            sr.udims = ()
            sr.slot = self.add(src.slot, i)
            v, _, _ = self.read_ref(sr, node)
            self.write_ref(d, v, blocking, node)

    def write_ref(self, r, v, blocking, node, loopvar=False):
        """Write the (already target-width) value v to the resolved target."""
        var = r.var
        w = r.ptype.width
        tw = r.tw
        full = mask(tw)
        dyn_slot = not isc(r.slot)
        if 'False' in r.guards:
            self.emit('pass')
            return
        # driver bookkeeping
        bits_mask = (mask(w) << r.off) if isc(r.off) else full
        for s in self.ref_slots(r):
            self.note_write(s, bits_mask)
        if self.in_ff and blocking:
            self.blocking_ff.append((var, getattr(node, 'line', 0), loopvar))
        if not self.in_ff and not blocking and self.kind == 'comb':
            self.nb_in_comb.append((var, getattr(node, 'line', 0)))
        whole = isc(r.off) and r.off == 0 and w == tw
        # keep-mask and positioned bits
        if whole:
            keep, bits = None, v
        elif r.dynpart:
            keep, bits = 'dynpart', v
        elif isc(r.off):
            keep = full ^ (mask(w) << r.off)
            bits = (v << r.off) if isc(v) else ('(%s << %d)' % (v, r.off) if r.off else v)
        else:
            keep = '(%d ^ (%d << %s))' % (full, mask(w), r.off)
            bits = '(%s << %s)' % (v, r.off)
        if blocking:
            self.lines.append(WriteOp(self.indent, var, r.slot, bits,
                                      (keep, r.off, w, tw), list(r.guards), dyn_slot))
        else:
            self.has_nba = True
            ind = self.indent
            if r.guards:
                self.lines.append((ind, 'if %s:' % ' and '.join(r.guards)))
                ind += 1
            if keep is None:
                self.lines.append((ind, 'NB.append((%s, 0, %s))' % (r.slot, bits)))
            elif keep == 'dynpart':
                o = self.tmp('_o')
                self.lines.append((ind, '%s = %s' % (o, r.off)))
                self.lines.append((ind, 'NB.append((%s, _wrp(%d, 0, %s, %d, %d), _wrp(0, %s, %s, %d, %d)))'
                                   % (r.slot, full, o, w, tw, bits, o, w, tw)))
            else:
                self.lines.append((ind, 'NB.append((%s, %s, %s))' % (r.slot, keep, bits)))

    # ---------------------------------------------------------------- render
    def render(self, name, wake_groups, slot_var):
        """Return the Python source of the process function.

        Wake-up of other processes is by *net change per execution*: the value
        of every variable element this process may write (and somebody is
        sensitive to) is snapshotted on entry and compared on exit; a reader is
        woken only if a bit inside its read mask differs.  A glitch that is
        restored within one execution wakes nobody.

        wake_groups(slot, written_mask) -> [(mask or None, (pid, ...)), ...]
            readers that can be affected by a write of `written_mask` to `slot`,
            grouped by read mask (None = every bit of the element).
        slot_var(slot) -> Var
        """
        ops = [x for x in self.lines if isinstance(x, WriteOp)]
        dyn_vars = []
        for op in ops:
            if op.dyn and op.var not in dyn_vars:
                dyn_vars.append(op.var)
        dyn_ranges = [(v.slot, v.slot + v.nslots) for v in dyn_vars]
        static_slots = []
        for op in ops:
            if not op.dyn and op.slot not in static_slots \
                    and not any(lo <= op.slot < hi for lo, hi in dyn_ranges):
                static_slots.append(op.slot)
        pro, epi = [], []
        for k in static_slots:
            groups = wake_groups(k, self.writes.get(k, 0))
            if not groups:
                continue
            pro.append('    _o%d = V[%d]' % (k, k))
            if len(groups) == 1 and groups[0][0] is None:
                epi.append('    if V[%d] != _o%d: %s' % (k, k, self._upd(groups[0][1])))
            else:
                epi.append('    _x = V[%d] ^ _o%d' % (k, k))
                epi.append('    if _x:')
                for m, pids in groups:
                    if m is None:
                        epi.append('        ' + self._upd(pids))
                    else:
                        epi.append('        if _x & %d: %s' % (m, self._upd(pids)))
        for v in dyn_vars:
            lo, hi = v.slot, v.slot + v.nslots
            if not any(wake_groups(k, self.writes.get(k, 0)) for k in range(lo, hi)):
                continue
            pro.append('    _oa%d = V[%d:%d]' % (lo, lo, hi))
            epi.append('    if V[%d:%d] != _oa%d: _wake_range(V, D, FM, %d, _oa%d)' % (lo, hi, lo, lo, lo))
        out = ['def %s(V=V, D=D, NB=NB):' % name]
        out.extend(pro)
        if not self.lines:
            out.append('    pass')
        for item in self.lines:
            if isinstance(item, tuple):
                out.append('    ' * item[0] + item[1])
                continue
            op = item
            ind = op.indent
            if op.guards:
                out.append('    ' * ind + 'if %s:' % ' and '.join(op.guards))
                ind += 1
            pad = '    ' * ind
            if op.dyn:
                out.append(pad + '_k = %s' % op.slot)
                k = '_k'
            else:
                k = str(op.slot)
            keep, off, w, tw = op.keep
            if keep is None:
                val = op.val
            elif keep == 'dynpart':
                val = '_wrp(V[%s], %s, %s, %d, %d)' % (k, op.val, off, w, tw)
            else:
                val = '(V[%s] & %s | %s)' % (k, keep, op.val)
            out.append(pad + 'V[%s] = %s' % (k, val))
        out.extend(epi)
        return '\n'.join(out)

    @staticmethod
    def _upd(pids):
        if len(pids) == 1:
            return 'D.add(%d)' % pids[0]
        return 'D.update(%r)' % (tuple(pids),)
