"""Run-time helpers referenced by generated process code (also used for
constant folding, so that folded and run-time results cannot differ)."""

from .errors import SvError


def _sx(v, w):
    """Interpret the w-bit pattern v as a two's complement number."""
    sb = 1 << (w - 1)
    return (v ^ sb) - sb


def _divu(a, b):
    return a // b if b else 0          # x/0 is X in four-state; 0 in two-state


def _modu(a, b):
    return a % b if b else 0


def _divs(a, b, w):
    if not b:
        return 0
    a, b = _sx(a, w), _sx(b, w)
    q = abs(a) // abs(b)
    if (a < 0) != (b < 0):
        q = -q
    return q & ((1 << w) - 1)


def _mods(a, b, w):
    if not b:
        return 0
    a, b = _sx(a, w), _sx(b, w)
    r = abs(a) % abs(b)
    if a < 0:
        r = -r                          # sign of the first operand
    return r & ((1 << w) - 1)


def _shl(a, b, w):
    return (a << b) & ((1 << w) - 1) if b < w else 0


def _shr(a, b):
    return a >> b if b < 1 << 16 else 0


def _ashr(a, b, w):
    """Arithmetic shift right of the signed w-bit pattern a."""
    if b >= w:
        b = w
    return (_sx(a, w) >> b) & ((1 << w) - 1)


def _powu(a, b, w):
    return pow(a, b, 1 << w)


def _pows(a, b, w, bw):
    """Signed power (IEEE 1800-2017 table 11-4); b is a bw-bit signed pattern."""
    a, b = _sx(a, w), _sx(b, bw)
    m = (1 << w) - 1
    if b >= 0:
        return pow(a, b, 1 << w) & m
    if a == 1:
        return 1
    if a == -1:
        return (1 if b % 2 == 0 else -1) & m
    return 0                            # |a|>1: 0 ; a==0: X -> 0


def _rdp(v, o, w, tw):
    """Read w bits at (possibly out-of-range) bit offset o of a tw-bit value;
    out-of-range bits read as 0."""
    if o >= 0:
        if o >= tw:
            return 0
        return (v >> o) & ((1 << min(w, tw - o)) - 1)
    w2 = w + o
    if w2 <= 0:
        return 0
    return (v & ((1 << min(w2, tw)) - 1)) << -o


def _wrp(old, val, o, w, tw):
    """Write the w-bit val at bit offset o into the tw-bit old value;
    out-of-range bits are not written."""
    lo = max(o, 0)
    hi = min(o + w, tw)
    if hi <= lo:
        return old
    m = ((1 << (hi - lo)) - 1) << lo
    bits = (val << o) if o >= 0 else (val >> -o)
    return (old & ~m) | (bits & m)


def _wake_range(V, D, FM, lo, old):
    """Net-change wake-up for an unpacked array written through a run-time
    index: compare every element with its value on entry of the process."""
    for j, o in enumerate(old):
        x = V[lo + j] ^ o
        if x:
            for m, ps in FM[lo + j]:
                if x & m:
                    D.update(ps)


def _loop_overrun(where):
    raise SvError('for loop at %s exceeded the iteration cap (non-terminating loop?)' % where)


NAMESPACE = {
    '_sx': _sx, '_divu': _divu, '_modu': _modu, '_divs': _divs, '_mods': _mods,
    '_shl': _shl, '_shr': _shr, '_ashr': _ashr, '_powu': _powu, '_pows': _pows,
    '_rdp': _rdp, '_wrp': _wrp, '_loop_overrun': _loop_overrun, '_wake_range': _wake_range,
}
