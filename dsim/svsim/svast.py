"""AST node classes (plain data)."""


class Node:
    __slots__ = ('line',)
    _fields = ()

    def __init__(self, *args, line=0):
        assert len(args) == len(self._fields), (type(self).__name__, args)
        for f, a in zip(self._fields, args):
            setattr(self, f, a)
        self.line = line

    def __repr__(self):
        return '%s(%s)' % (type(self).__name__,
                           ', '.join('%s=%r' % (f, getattr(self, f)) for f in self._fields))


def _node(name, fields):
    fields = tuple(fields.split())
    return type(name, (Node,), {'__slots__': fields, '_fields': fields})


# ---- expressions ----------------------------------------------------------
Num = _node('Num', 'width signed value kind')        # kind: 'dec' | 'based' | 'fill'
Ident = _node('Ident', 'name')
Index = _node('Index', 'base idx')
Slice = _node('Slice', 'base left right')
IdxPart = _node('IdxPart', 'base start width up')
Member = _node('Member', 'base name')
Unary = _node('Unary', 'op a')
Binary = _node('Binary', 'op a b')
Cond = _node('Cond', 'c a b')
Concat = _node('Concat', 'items')
Repl = _node('Repl', 'count items')
Cast = _node('Cast', 'width e')
Call = _node('Call', 'name args')
Pattern = _node('Pattern', 'items')
Str = _node('Str', 'value')

# ---- data types -----------------------------------------------------------
# base: 'logic' | 'integer' | 'int' | 'named'; name for 'named'; signing: None|True|False
# pdims: list of (left_expr, right_expr)
TypeRef = _node('TypeRef', 'base name signing pdims')
StructDef = _node('StructDef', 'name fields')          # fields: list of (TypeRef, fname)

# ---- statements -----------------------------------------------------------
Block = _node('Block', 'label stmts')
If = _node('If', 'c t e')
For = _node('For', 'decl var init cond step body')     # decl: TypeRef or None; step: Assign
Assign = _node('Assign', 'lhs rhs blocking')
Null = _node('Null', '')

# ---- module items ---------------------------------------------------------
# names: list of (name, udims [(l_expr, r_expr) | (size_expr, None)], init_expr)
Decl = _node('Decl', 'kind type names')               # kind: 'var'|'localparam'|'parameter'|'genvar'
AlwaysComb = _node('AlwaysComb', 'body')
AlwaysFF = _node('AlwaysFF', 'edge clk body')
ContAssign = _node('ContAssign', 'lhs rhs')
Instance = _node('Instance', 'module params name conns')   # conns: list of (port, expr|None)
GenFor = _node('GenFor', 'var init cond step label items')
GenIf = _node('GenIf', 'c t e')
PortDecl = _node('PortDecl', 'direction type name udims')
Module = _node('Module', 'name params ports items')   # params: list of Decl(kind='parameter')


class Source:
    def __init__(self):
        self.modules = {}             # name -> Module (first definition wins), file order
        self.module_defs_count = {}
        self.typedefs = {}            # name -> StructDef
        self.typedef_order = []
        self.issues = []              # (kind, message) found while parsing
