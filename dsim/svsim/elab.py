"""Elaboration: hierarchy, storage allocation, process compilation, static checks."""

import re

from . import svast as A
from . import rt
from .codegen import PreResolved, ProcGen, Ref, WriteOp, isc, mask
from .errors import SvElabError, SvUnsupported
from .types import INT_T, Const, PArrT, Port, StructT, Var, VecT

_PLAIN_SLOT = re.compile(r'^V\[(\d+)\]$')


class Proc:
    __slots__ = ('id', 'kind', 'name', 'path', 'gen', 'clk_slot', 'line', 'sens')

    def __init__(self, kind, name, path, gen, line):
        self.id = None
        self.kind = kind          # 'comb' | 'assign' | 'ff'
        self.name = name
        self.path = path
        self.gen = gen
        self.clk_slot = None
        self.line = line
        self.sens = ()

    def describe(self):
        where = self.path or '<top>'
        return '%s %s in %s (line %d)' % (
            {'comb': 'always_comb', 'assign': 'assign', 'ff': 'always_ff'}[self.kind],
            self.name, where, self.line)


class Design:
    """An elaborated design; create simulations with new_sim()."""

    def __init__(self):
        self.top = None
        self.ports = []
        self.vars = []
        self.by_path = {}
        self.init = []
        self.procs = []
        self.opts = {}
        self._issues = []          # found during parsing/elaboration
        self._static = None
        self.code = None
        self.source_text = None
        self.fan = []
        self.fm = []
        self.comb_ids = ()
        self.ff_ids = ()
        self.clk_slots = set()
        self.top_inputs = {}
        self.fatal = None

    # ----------------------------------------------------------------- static
    def static_issues(self):
        if self._static is None:
            self._static = list(self._issues) + _static_checks(self)
        return list(self._static)

    def new_sim(self, order_seed=0):
        from .sim import Sim
        if self.fatal:
            raise SvElabError(self.fatal)
        return Sim(self, order_seed)


class _Elab:
    def __init__(self, source, opts):
        self.src = source
        self.opts = opts
        self.d = Design()
        self.d.opts = opts
        self.structs = {}
        self.depth = 0

    # ---------------------------------------------------------------- helpers
    def issue(self, kind, msg):
        self.d._issues.append((kind, msg))

    def alloc(self, var, path, init=None):
        var.slot = len(self.d.init)
        var.path = path
        self.d.init.extend(init if init is not None else [0] * var.nslots)
        self.d.vars.append(var)
        self.d.by_path[path] = var

    def cgen(self, scope, where):
        return ProcGen(scope.get, self.opts, where)

    def struct_type(self, name, line=0):
        st = self.structs.get(name)
        if st is None:
            sd = self.src.typedefs.get(name)
            if sd is None:
                raise SvElabError('line %d: unknown type %s' % (line, name))
            cg = self.cgen({}, 'typedef %s' % name)
            members = []
            seen = set()
            for ft, fname in sd.fields:
                if fname in seen:
                    self.issue('dup_identifier', "typedef %s: member '%s' declared twice" % (name, fname))
                    continue
                seen.add(fname)
                members.append((fname, self.make_type(ft, cg)))
            st = StructT(name, members)
            self.structs[name] = st
        return st

    def make_type(self, t, cg):
        dims = []
        for le, re_ in t.pdims:
            l = cg.gen_const_signed(le, 'range bound')
            r = cg.gen_const_signed(re_, 'range bound')
            dims.append((l, r))
        if t.base in ('integer', 'int'):
            signed = True if t.signing is None else t.signing
            return VecT(31, 0, signed=signed)
        if t.base == 'named':
            pt = self.struct_type(t.name, t.line)
            for l, r in reversed(dims):
                pt = PArrT(l, r, pt)
            return pt
        signed = bool(t.signing)
        if not dims:
            return VecT(0, 0, signed=signed, scalar=True)
        l, r = dims[-1]
        pt = VecT(l, r, signed=signed and len(dims) == 1)
        if signed and len(dims) > 1:
            raise SvUnsupported('line %d: signed multi-dimensional packed array' % t.line)
        for l, r in reversed(dims[:-1]):
            pt = PArrT(l, r, pt)
        return pt

    def make_udims(self, udims, cg):
        out = []
        for le, re_ in udims:
            l = cg.gen_const_signed(le, 'array bound')
            if re_ is None:
                if l <= 0:
                    raise SvElabError('%s: array size must be positive' % cg.where)
                out.append((0, l - 1))
            else:
                out.append((l, cg.gen_const_signed(re_, 'array bound')))
        return out

    def declare(self, scope, name, obj, where, line):
        if name in scope:
            self.issue('dup_identifier', "%s line %d: identifier '%s' declared more than once" % (where, line, name))
            return False
        scope[name] = obj
        return True

    # --------------------------------------------------------------- modules
    def const_of(self, cg, expr, ptype):
        v = cg.assign_value(expr, ptype)
        if not isc(v):
            raise SvElabError('%s line %d: constant expression required' % (cg.where, expr.line))
        return v

    def pattern_values(self, cg, expr, dims, ptype, out):
        if not dims:
            if isinstance(expr, A.Pattern):
                raise SvUnsupported("%s line %d: assignment pattern for a packed value" % (cg.where, expr.line))
            out.append(self.const_of(cg, expr, ptype))
            return
        if not isinstance(expr, A.Pattern):
            raise SvElabError("%s line %d: array parameter needs a '{...} initialiser" % (cg.where, expr.line))
        n = abs(dims[0][0] - dims[0][1]) + 1
        if len(expr.items) != n:
            raise SvElabError("%s line %d: '{...} has %d items, array dimension has %d"
                              % (cg.where, expr.line, len(expr.items), n))
        for it in expr.items:
            self.pattern_values(cg, it, dims[1:], ptype, out)

    def declare_param(self, scope, decl, path, where, overrides=None, parent=None):
        cg = self.cgen(scope, where)
        for name, udims, init in decl.names:
            cg.line = decl.line
            override = None
            if overrides is not None and decl.kind == 'parameter' and name in overrides:
                override = overrides.pop(name)
            if init is None and override is None:
                raise SvElabError("%s line %d: parameter '%s' has no value" % (where, decl.line, name))
            t = decl.type
            implicit = t.base == 'implicit'
            dims = self.make_udims(udims, cg)
            if dims:
                if override is not None:
                    raise SvUnsupported('%s: override of array parameter %s' % (where, name))
                ptype = VecT(31, 0, signed=True) if implicit else self.make_type(t, cg)
                vals = []
                self.pattern_values(cg, init, dims, ptype, vals)
                v = Var(name, None, ptype, dims, 'param', decl.line,
                        t.name if t.base == 'named' else None)
                if self.declare(scope, name, v, where, decl.line):
                    self.alloc(v, (path + '.' if path else '') + name, vals)
                continue
            if override is not None:
                # override: (value, L, S) computed in the parent's scope
                oval, oL, oS = override
                if implicit:
                    c = Const(oval, VecT(oL - 1, 0, signed=oS))
                else:
                    ptype = self.make_type(t, cg)
                    if oL < ptype.width and oS:
                        oval = rt._sx(oval, oL)
                    c = Const(oval, ptype)
            elif implicit:
                val, L, S = cg.gen_self(init)
                if not isc(val):
                    raise SvElabError("%s line %d: parameter '%s' is not constant" % (where, decl.line, name))
                c = Const(val, VecT(L - 1, 0, signed=S))
            else:
                ptype = self.make_type(t, cg)
                c = Const(self.const_of(cg, init, ptype), ptype)
            self.declare(scope, name, c, where, decl.line)

    def elab_module(self, mod, path, overrides):
        """Elaborate one instance of `mod` at hierarchical `path` ('' = top).
        Returns the list of port Vars (in declaration order) and the scope."""
        self.depth += 1
        if self.depth > 64:
            raise SvElabError('instantiation depth exceeds 64 (recursive instantiation of %s?)' % mod.name)
        where = 'module %s' % mod.name
        scope = {}
        pfx = path + '.' if path else ''
        overrides = dict(overrides or {})
        for decl in mod.params:
            self.declare_param(scope, decl, path, where, overrides)
        # body parameters may be overridden too (non-ANSI style parameter declarations)
        cg = self.cgen(scope, where)
        ports = []
        for p in mod.ports:
            cg.line = p.line
            ptype = self.make_type(p.type, cg)
            dims = self.make_udims(p.udims, cg)
            v = Var(p.name, None, ptype, dims, p.direction, p.line,
                    p.type.name if p.type.base == 'named' else None)
            if self.declare(scope, p.name, v, where, p.line):
                self.alloc(v, pfx + p.name)
                ports.append(v)
        # pass 1: declarations
        for it in mod.items:
            if not isinstance(it, A.Decl):
                continue
            cg.line = it.line
            if it.kind in ('localparam', 'parameter'):
                self.declare_param(scope, it, path, where,
                                   overrides if it.kind == 'parameter' else None)
            elif it.kind == 'genvar':
                for name, _, _ in it.names:
                    self.declare(scope, name, Const(0, INT_T), where, it.line)
            else:
                ptype = self.make_type(it.type, cg)
                for name, udims, init in it.names:
                    dims = self.make_udims(udims, cg)
                    v = Var(name, None, ptype, dims, 'var', it.line,
                            it.type.name if it.type.base == 'named' else None)
                    if self.declare(scope, name, v, where, it.line):
                        self.alloc(v, pfx + name)
        if overrides:
            raise SvElabError("%s: parameter override for unknown parameter(s) %s (instance %s)"
                              % (where, sorted(overrides), path or '<top>'))
        # pass 2: processes and instances
        self.elab_items(mod.items, scope, path, where, '')
        self.depth -= 1
        return ports, scope

    def elab_items(self, items, scope, path, where, genpfx):
        for it in items:
            if isinstance(it, A.Decl):
                continue
            if isinstance(it, A.AlwaysComb):
                cg = self.cgen(scope, where)
                cg.kind = 'comb'
                cg.stmt(it.body)
                label = getattr(it.body, 'label', None) or 'at line %d' % it.line
                self.add_proc('comb', genpfx + label, path, cg, it.line)
            elif isinstance(it, A.AlwaysFF):
                cg = self.cgen(scope, where)
                cg.kind = 'ff'
                cg.in_ff = True
                cg.line = it.line
                r = cg.resolve(it.clk)
                if r.var is None or r.udims or not isc(r.slot) or r.ptype.width != 1 or r.guards:
                    raise SvUnsupported('%s line %d: always_ff clock must be a 1-bit variable' % (where, it.line))
                cg.stmt(it.body)
                label = getattr(it.body, 'label', None) or 'at line %d' % it.line
                p = self.add_proc('ff', genpfx + label, path, cg, it.line)
                p.clk_slot = r.slot
            elif isinstance(it, A.ContAssign):
                cg = self.cgen(scope, where)
                cg.kind = 'assign'
                cg.line = it.line
                cg.assign(it.lhs, it.rhs, True, it)
                self.mark_alias(cg, it.rhs)
                self.add_proc('assign', genpfx + _expr_text(it.lhs), path, cg, it.line)
            elif isinstance(it, A.Instance):
                self.elab_instance(it, scope, path, where, genpfx)
            elif isinstance(it, A.GenFor):
                self.elab_genfor(it, scope, path, where, genpfx)
            elif isinstance(it, A.GenIf):
                cg = self.cgen(scope, where)
                cg.line = it.line
                c = cg.gen_bool(it.c)
                if not isinstance(c, bool):
                    raise SvElabError('%s line %d: generate-if condition is not constant' % (where, it.line))
                branch = it.t if c else it.e
                if branch:
                    self.elab_items(branch, scope, path, where, genpfx)
            else:
                raise SvUnsupported('%s line %d: module item %s' % (where, it.line, type(it).__name__))

    def elab_genfor(self, it, scope, path, where, genpfx):
        if not isinstance(scope.get(it.var), Const):
            raise SvElabError("%s line %d: generate loop variable '%s' is not a genvar" % (where, it.line, it.var))
        if not (isinstance(it.step.lhs, A.Ident) and it.step.lhs.name == it.var):
            raise SvElabError('%s line %d: generate loop step must assign the genvar' % (where, it.line))
        sub = dict(scope)
        cg = self.cgen(sub, where)
        cg.line = it.line
        v = self.const_of(cg, it.init, INT_T)
        n = 0
        label = it.label or 'genblk'
        while True:
            sub = dict(scope)
            sub[it.var] = Const(v, INT_T)
            cg = self.cgen(sub, where)
            cg.line = it.line
            c = cg.gen_bool(it.cond)
            if not isinstance(c, bool):
                raise SvElabError('%s line %d: generate loop condition is not constant' % (where, it.line))
            if not c:
                break
            n += 1
            if n > 65536:
                raise SvUnsupported('%s line %d: generate loop with more than 65536 iterations' % (where, it.line))
            self.elab_items(it.items, sub, path, where, '%s%s[%d].' % (genpfx, label, rt._sx(v, 32)))
            v = self.const_of(cg, it.step.rhs, INT_T)

    def mark_alias(self, cg, rhs):
        """Record pure pass-through assignments (used for clock tracing)."""
        ops = [x for x in cg.lines if isinstance(x, WriteOp)]
        if len(ops) != 1 or len(cg.lines) != 1:
            return
        op = ops[0]
        if op.dyn or op.guards or op.keep[0] is not None or not isinstance(op.val, str):
            return
        m = _PLAIN_SLOT.match(op.val)
        if m and isinstance(rhs, (A.Ident, A.Index, A.Member, PreResolved)):
            cg.alias = (int(m.group(1)), op.slot)

    def add_proc(self, kind, name, path, cg, line):
        p = Proc(kind, name, path, cg, line)
        p.id = len(self.d.procs)
        self.d.procs.append(p)
        return p

    def elab_instance(self, it, scope, path, where, genpfx):
        mod = self.src.modules.get(it.module)
        ipath = (path + '.' if path else '') + genpfx + it.name
        if it.name in scope and not genpfx:
            self.issue('dup_identifier', "%s line %d: identifier '%s' declared more than once" % (where, it.line, it.name))
        elif not genpfx:
            scope[it.name] = 'instance'  # occupies the name space; not usable in expressions
        if mod is None:
            self.issue('undefined_module', "%s line %d: instance '%s' of undefined module '%s'"
                       % (where, it.line, it.name, it.module))
            self.d.fatal = "undefined module '%s'" % it.module
            # still account for reads in the connection expressions
            return
        pcg = self.cgen(scope, where)
        pcg.line = it.line
        overrides = {}
        for pn, pe in it.params:
            if pn in overrides:
                raise SvElabError("%s line %d: parameter '%s' overridden twice" % (where, it.line, pn))
            if pe is None:
                continue
            val, L, S = pcg.gen_self(pe)
            if not isc(val):
                raise SvElabError("%s line %d: parameter override '%s' is not constant" % (where, it.line, pn))
            overrides[pn] = (val, L, S)
        ports, cscope = self.elab_module(mod, ipath, overrides)
        pmap = {p.name: p for p in ports}
        seen = set()
        for pn, pe, line in it.conns:
            if pn not in pmap:
                raise SvElabError("%s line %d: module %s has no port '%s' (instance %s)"
                                  % (where, line, mod.name, pn, it.name))
            if pn in seen:
                raise SvElabError("%s line %d: port '%s' connected twice (instance %s)" % (where, line, pn, it.name))
            seen.add(pn)
            if pe is None:
                continue
            pv = pmap[pn]
            cg = self.cgen(scope, where)
            cg.kind = 'assign'
            cg.line = line
            pref = Ref()
            pref.var, pref.udims, pref.slot, pref.ptype = pv, pv.udims, pv.slot, pv.ptype
            pref.tw, pref.stride = pv.ptype.width, pv.nslots
            pnode = PreResolved(pref, line=line)
            # width / shape check: exact match required
            if pv.udims:
                try:
                    er = cg.resolve(pe)
                except SvElabError as e:
                    raise SvElabError("%s line %d: array port '%s' of %s connected to a non-array expression (%s)"
                                      % (where, line, pn, mod.name, e))
                edims = tuple(abs(a - b) + 1 for a, b in er.udims)
                if edims != pv.dims or er.ptype.width != pv.ptype.width:
                    raise SvElabError("%s line %d: port '%s' of %s is %s x %d bits but is connected to %s x %d bits"
                                      % (where, line, pn, mod.name, list(pv.dims), pv.ptype.width,
                                         list(edims), er.ptype.width))
            else:
                if isinstance(pe, A.Num) and pe.width is None:
                    L = pv.ptype.width      # unsized literal adapts to the port
                else:
                    L = cg.typeof(pe)[0]
                if L != pv.ptype.width:
                    raise SvElabError("%s line %d: port '%s' of %s is %d bits wide but is connected to a %d-bit expression"
                                      % (where, line, pn, mod.name, pv.ptype.width, L))
            if pv.kind == 'input':
                cg.assign(pnode, pe, True, pnode)
                self.mark_alias(cg, pe)
            else:
                if not isinstance(pe, (A.Ident, A.Index, A.Slice, A.IdxPart, A.Member)):
                    raise SvElabError("%s line %d: output port '%s' of %s connected to an expression that is not a variable"
                                      % (where, line, pn, mod.name))
                cg.assign(pe, pnode, True, pnode)
                self.mark_alias(cg, pnode)
            self.add_proc('assign', 'port connection %s.%s' % (genpfx + it.name, pn), path, cg, line)


def _expr_text(e):
    if isinstance(e, A.Ident):
        return e.name
    if isinstance(e, A.Index):
        return '%s[%s]' % (_expr_text(e.base), _expr_text(e.idx))
    if isinstance(e, A.Slice):
        return '%s[%s:%s]' % (_expr_text(e.base), _expr_text(e.left), _expr_text(e.right))
    if isinstance(e, A.IdxPart):
        return '%s[%s%s%s]' % (_expr_text(e.base), _expr_text(e.start), '+:' if e.up else '-:', _expr_text(e.width))
    if isinstance(e, A.Member):
        return '%s.%s' % (_expr_text(e.base), e.name)
    if isinstance(e, A.Num):
        return str(e.value)
    return '<expr>'


# ---------------------------------------------------------------------------
# finalisation: sensitivity, fan-out, code
# ---------------------------------------------------------------------------

def _finalise(d):
    n = len(d.init)
    slot_var = [None] * n
    for v in d.vars:
        for k in range(v.slot, v.slot + v.nslots):
            slot_var[k] = v
    # sensitivity at bit granularity: per variable element, the bits each
    # process may read (IEEE 1800-2017 9.2.2.2.1: longest static prefix of each
    # select); an always_comb is not sensitive to the bits it writes itself.
    readers = [dict() for _ in range(n)]          # slot -> {read mask: [pid, ...]}
    for p in d.procs:
        if p.kind == 'ff':
            continue
        g = p.gen
        sens = []
        for slot, rmask in g.reads.items():
            if p.kind == 'comb':
                rmask &= ~g.writes.get(slot, 0)
            if rmask:
                sens.append(slot)
                readers[slot].setdefault(rmask, []).append(p.id)
        p.sens = tuple(sens)
    d.fm = [tuple((m, tuple(pids)) for m, pids in sorted(r.items())) for r in readers]
    d.fan = [tuple(sorted({pid for _, pids in f for pid in pids})) for f in d.fm]

    def wake_groups(slot, wmask):
        out = []
        for m, pids in d.fm[slot]:
            if m & wmask:
                # every bit this writer can change lies inside the reader's mask:
                # any change wakes it, no mask test needed
                out.append((None if not (wmask & ~m) else m, pids))
        return out

    src = []
    for p in d.procs:
        src.append(p.gen.render('p%d' % p.id, wake_groups, slot_var.__getitem__))
    d.source_text = '\n\n'.join(src) + '\n'
    d.code = compile(d.source_text, '<svsim:%s>' % d.top, 'exec')
    d.comb_ids = tuple(p.id for p in d.procs if p.kind != 'ff')
    # clock tracing
    clk_name = d.opts.get('clk', 'clk')
    clk = set()
    top_clk = d.by_path.get(clk_name)
    if top_clk is not None and top_clk.kind == 'input' and not top_clk.udims and top_clk.ptype.width == 1:
        clk.add(top_clk.slot)
    changed = True
    aliases = [p.gen.alias for p in d.procs if p.gen.alias]
    while changed:
        changed = False
        for s, t in aliases:
            if s in clk and t not in clk:
                clk.add(t)
                changed = True
    d.clk_slots = clk
    d.ff_ids = tuple(p.id for p in d.procs if p.kind == 'ff' and p.clk_slot in clk)


# ---------------------------------------------------------------------------
# static checks
# ---------------------------------------------------------------------------

def _static_checks(d):
    issues = []
    for name, cnt in d.module_defs_count.items():
        if cnt > 1:
            issues.append(('dup_module', "module '%s' is defined %d times" % (name, cnt)))
    n = len(d.init)
    slot_var = [None] * n
    for v in d.vars:
        for k in range(v.slot, v.slot + v.nslots):
            slot_var[k] = v
    drivers = [[] for _ in range(n)]       # (who, mask)
    readers = [0] * n
    for v in d.vars:
        if v.kind == 'input' and '.' not in v.path:
            for k in range(v.slot, v.slot + v.nslots):
                drivers[k].append(('top-level input port', mask(v.ptype.width)))
        if v.kind == 'output' and '.' not in v.path:
            for k in range(v.slot, v.slot + v.nslots):
                readers[k] |= mask(v.ptype.width)
    touched = {}                            # var -> set of proc ids reading or writing it
    for p in d.procs:
        g = p.gen
        for slot, m in g.writes.items():
            drivers[slot].append((p, m))
            touched.setdefault(slot_var[slot], set()).add(p.id)
        for slot, m in g.reads.items():
            readers[slot] |= m
            touched.setdefault(slot_var[slot], set()).add(p.id)
        if p.clk_slot is not None:
            readers[p.clk_slot] |= 1

    def who(x):
        return x if isinstance(x, str) else x.describe()

    for v in d.vars:
        if v.kind == 'param':
            continue
        multi = {}
        undriven = 0
        for k in range(v.slot, v.slot + v.nslots):
            ds = drivers[k]
            driven = 0
            for i in range(len(ds)):
                driven |= ds[i][1]
                for j in range(i + 1, len(ds)):
                    if ds[i][0] is not ds[j][0] and ds[i][1] & ds[j][1]:
                        key = (id(ds[i][0]), id(ds[j][0]))
                        multi.setdefault(key, (ds[i][0], ds[j][0], k - v.slot))
            if readers[k] & ~driven:
                undriven += 1
        for a, b, idx in multi.values():
            elem = '' if not v.udims else ' (element %d)' % idx
            issues.append(('multi_driver', "variable '%s'%s is driven by %s and by %s"
                           % (v.path, elem, who(a), who(b))))
        if undriven:
            issues.append(('undriven', "variable '%s' is read but %s no driver"
                           % (v.path, 'has' if not v.udims else '%d of its %d elements have' % (undriven, v.nslots))))
    # clock used as data
    for p in d.procs:
        g = p.gen
        for slot in g.reads:
            if slot in d.clk_slots and not (g.alias and g.alias[0] == slot):
                issues.append(('clk_read_as_data', "clock net '%s' is read as data by %s"
                               % (slot_var[slot].path, p.describe())))
    for p in d.procs:
        if p.kind == 'ff' and p.clk_slot not in d.clk_slots:
            issues.append(('unclocked_ff', "%s is clocked by '%s', which is not derived from the top-level clock; "
                           "it never runs" % (p.describe(), slot_var[p.clk_slot].path)))
    # blocking assignments in always_ff / non-blocking in always_comb
    for p in d.procs:
        g = p.gen
        seen = set()
        for var, line, loopvar in g.blocking_ff:
            if loopvar or var in seen:
                continue
            local = var.kind == 'var' and touched.get(var, set()) <= {p.id}
            if local:
                continue
            seen.add(var)
            issues.append(('blocking_in_ff', "blocking assignment to '%s' at line %d inside %s"
                           % (var.path, line, p.describe())))
        seen = set()
        for var, line in g.nb_in_comb:
            if var in seen:
                continue
            seen.add(var)
            issues.append(('nonblocking_in_comb', "non-blocking assignment to '%s' at line %d inside %s"
                           % (var.path, line, p.describe())))
    return issues


def elaborate(source, top=None, **opts):
    """Elaborate `top` (default: the last module in the text)."""
    unknown = set(opts) - {'signed_index', 'clk'}
    if unknown:
        raise TypeError('unknown elaborate() option(s): %s' % sorted(unknown))
    if opts.get('signed_index', 'lrm') not in ('lrm', 'unsigned'):
        raise ValueError("signed_index must be 'lrm' or 'unsigned'")
    if top is None:
        top = getattr(source, 'last_module', None)
        if top is None:
            raise SvElabError('the text defines no module')
    if top not in source.modules:
        raise SvElabError("top module '%s' is not defined" % top)
    el = _Elab(source, opts)
    d = el.d
    d.top = top
    d.module_defs_count = dict(source.module_defs_count)
    d._issues.extend(source.issues)
    mod = source.modules[top]
    ports, scope = el.elab_module(mod, '', None)
    d.ports = [Port(v.name, v.kind, v.ptype.width, v.dims, v.type_name) for v in ports]
    d.top_inputs = {v.name: v for v in ports if v.kind == 'input'}
    _finalise(d)
    return d
