"""Stratified event simulation (active region + NBA region) of a Design."""

import random
import re

from . import rt
from .errors import SvCombLoop, SvError

DELTA_CAP = 200
_NAME = re.compile(r'^([^\[\]]+)((?:\[\d+\])*)$')


class Sim:
    def __init__(self, design, order_seed=0):
        self.design = design
        self.order_seed = order_seed
        self._rng = random.Random(order_seed)
        self.V = V = list(design.init)
        self.D = D = set(design.comb_ids)        # time zero: every comb process runs once
        self.NB = NB = []
        ns = dict(rt.NAMESPACE)
        ns.update(V=V, D=D, NB=NB, FM=design.fm)
        exec(design.code, ns)
        self._procs = [ns['p%d' % p.id] for p in design.procs]
        self._ff = list(design.ff_ids)
        self._fm = design.fm
        self.stats = {'activations': 0, 'delta_cycles': 0, 'evals': 0, 'ticks': 0, 'nba_updates': 0}

    # ------------------------------------------------------------------ names
    def _lookup(self, name):
        m = _NAME.match(name.strip())
        if not m:
            raise SvError("malformed signal name '%s'" % name)
        base, idx = m.group(1), m.group(2)
        var = self.design.by_path.get(base)
        if var is None:
            raise SvError("no such signal '%s'" % base)
        idxs = [int(x) for x in re.findall(r'\[(\d+)\]', idx)]
        if len(idxs) > len(var.udims):
            raise SvError("'%s': too many indices (bit selects are not supported here)" % name)
        slot = var.slot
        stride = var.nslots
        for i, (l, r) in zip(idxs, var.udims):
            n = abs(l - r) + 1
            stride //= n
            pos = i - l if l <= r else l - i
            if not 0 <= pos < n:
                raise SvError("'%s': index %d out of range [%d:%d]" % (name, i, l, r))
            slot += pos * stride
        return var, slot, var.dims[len(idxs):]

    def _nest(self, slot, dims):
        if not dims:
            return self.V[slot]
        stride = 1
        for d in dims[1:]:
            stride *= d
        return [self._nest(slot + i * stride, dims[1:]) for i in range(dims[0])]

    def get(self, name):
        var, slot, dims = self._lookup(name)
        return self._nest(slot, dims)

    def _store(self, name, var, slot, dims, value):
        if not dims:
            if isinstance(value, bool):
                value = int(value)
            if not isinstance(value, int):
                try:
                    value = int(value)
                except Exception:
                    raise SvError("'%s': expected an int, got %r" % (name, value))
            if not 0 <= value <= (1 << var.ptype.width) - 1:
                raise SvError("'%s': value %d does not fit in %d bits" % (name, value, var.ptype.width))
            x = self.V[slot] ^ value
            if x:
                self.V[slot] = value
                for m, ps in self._fm[slot]:
                    if x & m:
                        self.D.update(ps)
            return
        if not isinstance(value, (list, tuple)) or len(value) != dims[0]:
            raise SvError("'%s': expected a list of %d elements" % (name, dims[0]))
        stride = 1
        for d in dims[1:]:
            stride *= d
        for i, x in enumerate(value):
            self._store(name, var, slot + i * stride, dims[1:], x)

    def set(self, name, value):
        var, slot, dims = self._lookup(name)
        if var.kind != 'input' or '.' in var.path:
            raise SvError("'%s' is not a top-level input port" % name)
        if var.slot in self.design.clk_slots:
            if value not in (0, False):
                raise SvError("the clock '%s' is not driven as data; use tick()" % name)
            return
        self._store(name, var, slot, dims, value)

    # -------------------------------------------------------------- execution
    def _run(self):
        D, NB, V = self.D, self.NB, self.V
        procs, fm = self._procs, self._fm
        shuffle = self._rng.shuffle
        st = self.stats
        deltas = 0
        while True:
            while D:
                deltas += 1
                if deltas > DELTA_CAP:
                    st['delta_cycles'] += deltas
                    pending = sorted(D)[:8]
                    names = '; '.join(self.design.procs[p].describe() for p in pending)
                    D.clear()
                    del NB[:]
                    raise SvCombLoop('no quiescence after %d delta cycles; still active: %s' % (DELTA_CAP, names))
                batch = sorted(D)
                D.clear()
                if len(batch) > 1:
                    shuffle(batch)
                st['activations'] += len(batch)
                for p in batch:
                    procs[p]()
            if not NB:
                break
            st['nba_updates'] += len(NB)
            for k, keep, bits in NB:
                o = V[k]
                n = (o & keep) | bits
                if o != n:
                    V[k] = n
                    x = o ^ n
                    for m, ps in fm[k]:
                        if x & m:
                            D.update(ps)
            del NB[:]
        st['delta_cycles'] += deltas

    def eval(self):
        """Settle: run the active region (and any NBA updates) to quiescence."""
        self.stats['evals'] += 1
        self._run()

    def tick(self):
        """One positive clock edge followed by settling."""
        if self.D:
            self._run()
        self.stats['ticks'] += 1
        self.D.update(self._ff)
        self._run()
