"""svsim -- a small event-driven, two-state SystemVerilog simulator for the
subset emitted by the PyMTL3 Verilog and Yosys translation passes.

It is a *stub* for a real simulator (see /verif/DESIGN.md section 3.4 and
Appendix A, which is the contract): IEEE 1800-2017 context-determined
expression sizing and signedness (11.6, 11.8), literal truncation, an active
and an NBA region, a seeded order of active processes, static single-driver
checks.  Pure standard library.

    src    = parse(text)                      # SvSyntaxError / SvUnsupported
    design = elaborate(src)                   # top = last module in the text
    design.ports                              # [Port(name, direction, width, dims, type_name)]
    design.static_issues()                    # [(kind, message), ...]
    sim    = design.new_sim(order_seed=3)
    sim.set('in_', 5); sim.eval(); sim.get('out'); sim.tick(); sim.stats

API
---
parse(text, defines=None) -> Source
    Source.modules (name -> ModuleAST, file order, first definition wins),
    Source.module_defs_count, Source.typedefs, Source.issues.
    `defines`: iterable of macro names (or dict name -> text) predefined for
    the preprocessor (nothing is predefined: SYNTHESIS and VERILATOR are off).
elaborate(source, top=None, signed_index='lrm', clk='clk') -> Design
    signed_index='lrm'     : an index/select expression that is signed (e.g.
                             N'(integer_var), 6.24.1: a size cast keeps the
                             signedness of its operand) is a signed number, so
                             a set top bit means a negative = out-of-range index.
    signed_index='unsigned': the index bits are read as an unsigned number
                             (what Verilator does).
    clk                    : name of the top-level clock input.
Design.ports, Design.static_issues(), Design.new_sim(order_seed=0),
    Design.source_text (generated Python, for debugging)
    static issue kinds: multi_driver, undriven, dup_module, undefined_module,
    dup_identifier, reserved_identifier, clk_read_as_data, blocking_in_ff,
    nonblocking_in_comb, unclocked_ff
Sim.set(name, value), Sim.get(name), Sim.eval(), Sim.tick(), Sim.stats
    names: top-level ports / variables, 'arr[2]' elements, hierarchical
    'inst.sub.var' for internals.  Unpacked arrays are (nested) lists.
    tick() settles pending input changes first, then runs every always_ff
    (clocked by a net that is a pure pass-through of the top-level clock) and
    any processes they trigger in seeded order, applies the NBA updates and
    settles again.  The clock itself is never toggled as data.

Errors: SvError > SvSyntaxError, SvUnsupported, SvElabError, SvCombLoop.
Anything outside the subset raises SvUnsupported; nothing is ignored silently.
"""

from .errors import SvCombLoop, SvElabError, SvError, SvSyntaxError, SvUnsupported
from .parser import parse
from .svast import Module as ModuleAST
from .svast import Source
from .elab import Design, elaborate
from .sim import Sim
from .types import Port

__all__ = ['SvError', 'SvSyntaxError', 'SvUnsupported', 'SvElabError', 'SvCombLoop',
           'parse', 'elaborate', 'Source', 'ModuleAST', 'Design', 'Sim', 'Port']
