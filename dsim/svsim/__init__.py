"""svsim -- a small event-driven two-state SystemVerilog simulator for the
subset emitted by the PyMTL3 Verilog and Yosys translation passes.

It is a stub for a real simulator (see /verif/DESIGN.md section 3.4 and
Appendix A): IEEE 1800-2017 context-determined expression sizing, literal
truncation, an active and an NBA region, a seeded order of active processes
and static single-driver checks.

    src = parse(text)
    design = elaborate(src)                  # top = last module in the text
    design.static_issues()                   # [(kind, message), ...]
    sim = design.new_sim(order_seed=3)
    sim.set('in_', 5); sim.eval(); sim.get('out'); sim.tick()
"""

from .errors import SvCombLoop, SvElabError, SvError, SvSyntaxError, SvUnsupported
from .parser import parse
from .svast import Module as ModuleAST
from .svast import Source
from .elab import Design, elaborate
from .sim import Sim
from .types import Port

__all__ = ['SvError', 'SvSyntaxError', 'SvUnsupported', 'SvElabError', 'SvCombLoop',
           'parse', 'elaborate', 'Source', 'ModuleAST', 'Design', 'Sim', 'Port']
