"""Exception hierarchy of svsim."""


class SvError(Exception):
    """Base class of every svsim error."""


class SvSyntaxError(SvError):
    """The text is not valid SystemVerilog in the grammar of our subset."""


class SvUnsupported(SvError):
    """A valid-looking construct svsim does not implement (harness gap)."""


class SvElabError(SvError):
    """Elaboration-time error: undefined module, port/width mismatch, ..."""


class SvCombLoop(SvError):
    """No quiescence within the delta-cycle cap."""
