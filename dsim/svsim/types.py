"""Packed types, variables and constants of an elaborated design."""

import collections


class VecT:
    """logic [left:right]; `scalar` when declared without a range."""
    kind = 'vec'
    __slots__ = ('left', 'right', 'width', 'signed', 'scalar')

    def __init__(self, left, right, signed=False, scalar=False):
        self.left, self.right = left, right
        self.width = abs(left - right) + 1
        self.signed = signed
        self.scalar = scalar

    def __repr__(self):
        return 'logic%s[%d:%d]' % (' signed' if self.signed else '', self.left, self.right)


class PArrT:
    """Packed array [left:right] of a packed element type."""
    kind = 'parr'
    signed = False
    __slots__ = ('left', 'right', 'elem', 'width')

    def __init__(self, left, right, elem):
        self.left, self.right, self.elem = left, right, elem
        self.width = (abs(left - right) + 1) * elem.width

    def __repr__(self):
        return '[%d:%d]%r' % (self.left, self.right, self.elem)


class StructT:
    """struct packed; first member most significant."""
    kind = 'struct'
    signed = False
    __slots__ = ('name', 'fields', 'fmap', 'width')

    def __init__(self, name, members):
        self.name = name
        self.width = sum(t.width for _, t in members)
        off = self.width
        self.fields = []
        self.fmap = {}
        for fname, t in members:
            off -= t.width
            self.fields.append((fname, t, off))
            self.fmap[fname] = (t, off)

    def __repr__(self):
        return 'struct %s' % self.name


INT_T = VecT(31, 0, signed=True)
UINT_T = VecT(31, 0, signed=False)
BIT_T = VecT(0, 0, scalar=True)


def vec_of_width(w, signed=False):
    return VecT(w - 1, 0, signed=signed)


class Var:
    """A module-level variable, port or array parameter: `nslots` consecutive
    slots of the flat value store starting at `slot`."""
    __slots__ = ('name', 'path', 'ptype', 'udims', 'slot', 'nslots', 'kind',
                 'line', 'type_name', 'inst')

    def __init__(self, name, path, ptype, udims, kind, line=0, type_name=None):
        self.name = name
        self.path = path
        self.ptype = ptype
        self.udims = tuple(udims)       # ((left, right), ...)
        n = 1
        for l, r in self.udims:
            n *= abs(l - r) + 1
        self.nslots = n
        self.slot = None
        self.kind = kind                # 'input' | 'output' | 'var' | 'param'
        self.line = line
        self.type_name = type_name
        self.inst = None

    @property
    def dims(self):
        return tuple(abs(l - r) + 1 for l, r in self.udims)

    def __repr__(self):
        return 'Var(%s)' % self.path


class Const:
    """A scalar constant (parameter, localparam, genvar value)."""
    __slots__ = ('value', 'ptype')

    def __init__(self, value, ptype):
        self.ptype = ptype
        self.value = value & ((1 << ptype.width) - 1)

    def __repr__(self):
        return 'Const(%d:%r)' % (self.value, self.ptype)


Port = collections.namedtuple('Port', 'name direction width dims type_name')
Port.__doc__ = """A top-level port: name, direction 'input'|'output', width (packed bits
per element), dims (tuple of unpacked dimensions, () if none), type_name (struct
typedef name or None)."""
