"""Preprocessor (conditional compilation, object-like macros) and tokenizer."""

import re

from .errors import SvSyntaxError, SvUnsupported

# IEEE 1800-2017 Annex B keyword list.
KEYWORDS = frozenset("""
accept_on alias always always_comb always_ff always_latch and assert assign
assume automatic before begin bind bins binsof bit break buf bufif0 bufif1
byte case casex casez cell chandle checker class clocking cmos config const
constraint context continue cover covergroup coverpoint cross deassign default
defparam design disable dist do edge else end endcase endchecker endclass
endclocking endconfig endfunction endgenerate endgroup endinterface endmodule
endpackage endprimitive endprogram endproperty endspecify endsequence endtable
endtask enum event eventually expect export extends extern final first_match
for force foreach forever fork forkjoin function generate genvar global highz0
highz1 if iff ifnone ignore_bins illegal_bins implements implies import incdir
include initial inout input inside instance int integer interconnect interface
intersect join join_any join_none large let liblist library local localparam
logic longint macromodule matches medium modport module nand negedge nettype
new nexttime nmos nor noshowcancelled not notif0 notif1 null or output package
packed parameter pmos posedge primitive priority program property protected
pull0 pull1 pulldown pullup pulsestyle_ondetect pulsestyle_onevent pure rand
randc randcase randsequence rcmos real realtime ref reg reject_on release
repeat restrict return rnmos rpmos rtran rtranif0 rtranif1 s_always
s_eventually s_nexttime s_until s_until_with scalared sequence shortint
shortreal showcancelled signed small soft solve specify specparam static
string strong strong0 strong1 struct super supply0 supply1 sync_accept_on
sync_reject_on table tagged task this throughout time timeprecision timeunit
tran tranif0 tranif1 tri tri0 tri1 triand trior trireg type typedef union
unique unique0 unsigned until until_with untyped use uwire var vectored
virtual void wait wait_order wand weak weak0 weak1 while wildcard wire with
within wor xnor xor
""".split())


class Tok:
    __slots__ = ('kind', 'val', 'line')

    def __init__(self, kind, val, line):
        self.kind = kind
        self.val = val
        self.line = line

    def __repr__(self):
        return 'Tok(%s,%r,@%d)' % (self.kind, self.val, self.line)


# ---------------------------------------------------------------------------
# preprocessor
# ---------------------------------------------------------------------------

_DIRECTIVE = re.compile(r'^\s*`(\w+)(.*)$', re.S)
_MACRO_USE = re.compile(r'`(\w+)')
_IGNORED_DIRECTIVES = {'line', 'timescale', 'default_nettype', 'resetall',
                       'celldefine', 'endcelldefine', 'begin_keywords',
                       'end_keywords', 'nounconnected_drive',
                       'unconnected_drive', 'pragma'}


def _strip_comments(text):
    """Replace comments by spaces, preserving newlines (and strings)."""
    out = []
    i, n = 0, len(text)
    while i < n:
        c = text[i]
        if c == '"':
            j = i + 1
            while j < n and text[j] != '"':
                if text[j] == '\\':
                    j += 1
                j += 1
            out.append(text[i:j + 1])
            i = j + 1
        elif c == '/' and i + 1 < n and text[i + 1] == '/':
            j = text.find('\n', i)
            if j < 0:
                j = n
            i = j
        elif c == '/' and i + 1 < n and text[i + 1] == '*':
            j = text.find('*/', i + 2)
            if j < 0:
                raise SvSyntaxError('line %d: unterminated block comment'
                                    % (text.count('\n', 0, i) + 1))
            out.append(''.join(ch if ch == '\n' else ' ' for ch in text[i:j + 2]))
            i = j + 2
        else:
            out.append(c)
            i += 1
    return ''.join(out)


def preprocess(text, defines=None):
    """Return text with directives resolved; line structure is preserved."""
    macros = {}
    if defines:
        if isinstance(defines, dict):
            for k, v in defines.items():
                macros[k] = v if isinstance(v, tuple) else (None, '' if v is None or v is True else str(v))
        else:
            for k in defines:
                macros[k] = (None, '')
    text = _strip_comments(text)
    lines = text.split('\n')
    out = []
    # stack entries: [active_now, any_branch_taken, parent_active]
    stack = []
    i = 0

    def active():
        return all(s[0] for s in stack)

    def expand(line, lineno, depth=0):
        if '`' not in line:
            return line
        if depth > 50:
            raise SvSyntaxError('line %d: recursive macro expansion' % lineno)

        def repl(m):
            name = m.group(1)
            if name not in macros:
                raise SvSyntaxError('line %d: undefined macro `%s' % (lineno, name))
            params, body = macros[name]
            if params is not None:
                raise SvUnsupported('line %d: function-like macro `%s' % (lineno, name))
            return ' ' + body + ' '
        return expand(_MACRO_USE.sub(repl, line), lineno, depth + 1)

    while i < len(lines):
        line = lines[i]
        lineno = i + 1
        m = _DIRECTIVE.match(line)
        name = m.group(1) if m else None
        if name in ('ifdef', 'ifndef', 'elsif', 'else', 'endif'):
            rest = m.group(2).strip()
            if name in ('ifdef', 'ifndef'):
                mm = re.match(r'(\w+)\s*(.*)$', rest, re.S)
                if not mm:
                    raise SvSyntaxError('line %d: `%s without a macro name' % (lineno, name))
                cond = (mm.group(1) in macros) == (name == 'ifdef')
                stack.append([cond, cond])
                tail = mm.group(2)
            elif name == 'elsif':
                if not stack:
                    raise SvSyntaxError('line %d: `elsif without `ifdef' % lineno)
                mm = re.match(r'(\w+)\s*(.*)$', rest, re.S)
                if not mm:
                    raise SvSyntaxError('line %d: `elsif without a macro name' % lineno)
                cond = (mm.group(1) in macros) and not stack[-1][1]
                stack[-1][0] = cond
                stack[-1][1] = stack[-1][1] or cond
                tail = mm.group(2)
            elif name == 'else':
                if not stack:
                    raise SvSyntaxError('line %d: `else without `ifdef' % lineno)
                stack[-1][0] = not stack[-1][1]
                stack[-1][1] = True
                tail = rest
            else:
                if not stack:
                    raise SvSyntaxError('line %d: `endif without `ifdef' % lineno)
                stack.pop()
                tail = rest
            # anything after the directive on the same line is ordinary text
            lines[i] = tail
            if not tail.strip():
                out.append('')
                i += 1
            continue
        if not active():
            # skipped text; still honour line continuations of `define
            out.append('')
            i += 1
            continue
        if name == 'define':
            body = m.group(2)
            nl = 0
            while body.rstrip().endswith('\\'):
                body = body.rstrip()[:-1] + ' '
                i += 1
                nl += 1
                if i >= len(lines):
                    break
                body += lines[i]
            mm = re.match(r'\s*(\w+)(\([^)]*\))?\s*(.*)$', body, re.S)
            if not mm:
                raise SvSyntaxError('line %d: malformed `define' % lineno)
            # a '(' only starts a parameter list when it follows the name
            # immediately (no white space)
            mname = mm.group(1)
            after = body.lstrip()[len(mname):]
            if mm.group(2) and after.startswith('('):
                macros[mname] = (mm.group(2), mm.group(3))
            else:
                macros[mname] = (None, after.strip())
            out.extend([''] * (nl + 1))
            i += 1
            continue
        if name == 'undef':
            macros.pop(m.group(2).strip(), None)
            out.append('')
            i += 1
            continue
        if name == 'include':
            raise SvUnsupported('line %d: `include' % lineno)
        if name in _IGNORED_DIRECTIVES:
            out.append('')
            i += 1
            continue
        out.append(expand(line, lineno))
        i += 1
    if stack:
        raise SvSyntaxError('unterminated `ifdef/`ifndef at end of text')
    return '\n'.join(out)


# ---------------------------------------------------------------------------
# tokenizer
# ---------------------------------------------------------------------------

_OPS = [
    "<<<=", ">>>=", "<<<", ">>>", "===", "!==", "<<=", ">>=", "'{",
    "**", "==", "!=", "<=", ">=", "&&", "||", "<<", ">>", "+:", "-:",
    "+=", "-=", "*=", "/=", "%=", "&=", "|=", "^=", "++", "--", "~&", "~|",
    "~^", "^~", "->", "::",
    "+", "-", "*", "/", "%", "&", "|", "^", "~", "!", "<", ">", "=", "?",
    ":", ";", ",", ".", "(", ")", "[", "]", "{", "}", "#", "@", "'",
]
_OP_RE = '|'.join(re.escape(o) for o in _OPS)

_TOKEN = re.compile(r"""
    (?P<ws>\s+)
  | (?P<based>(?P<size>\d[\d_]*)?\s*'(?P<sgn>[sS])?(?P<base>[dDbBhHoO])\s*(?P<digits>[0-9a-fA-FxXzZ?_]+))
  | (?P<fill>'[01xXzZ])(?![\w(])
  | (?P<real>\d[\d_]*\.\d[\d_]*)
  | (?P<dec>\d[\d_]*)
  | (?P<id>[A-Za-z_][A-Za-z0-9_$]*)
  | (?P<esc>\\\S+)
  | (?P<sys>\$[A-Za-z_][A-Za-z0-9_$]*)
  | (?P<str>"(?:[^"\\]|\\.)*")
  | (?P<op>%s)
""" % _OP_RE, re.X)

_BASES = {'d': 10, 'b': 2, 'h': 16, 'o': 8}


def tokenize(text):
    toks = []
    pos = 0
    line = 1
    n = len(text)
    while pos < n:
        m = _TOKEN.match(text, pos)
        if not m:
            raise SvSyntaxError('line %d: unexpected character %r' % (line, text[pos]))
        kind = m.lastgroup
        s = m.group(0)
        if kind == 'ws':
            pass
        elif m.group('based') is not None:
            digits = m.group('digits').replace('_', '')
            base = _BASES[m.group('base').lower()]
            if re.search(r'[xXzZ?]', digits):
                raise SvUnsupported('line %d: x/z digits in literal %s (two-state only)' % (line, s.strip()))
            try:
                value = int(digits, base)
            except ValueError:
                raise SvSyntaxError('line %d: bad digits in literal %s' % (line, s.strip()))
            size = m.group('size')
            width = int(size.replace('_', '')) if size else None
            if width == 0:
                raise SvSyntaxError('line %d: zero-width literal %s' % (line, s.strip()))
            toks.append(Tok('num', (width, bool(m.group('sgn')), value, 'based'), line))
        elif kind == 'fill':
            if s[1] not in '01':
                raise SvUnsupported("line %d: x/z literal %s (two-state only)" % (line, s))
            toks.append(Tok('num', (None, False, int(s[1]), 'fill'), line))
        elif kind == 'real':
            raise SvUnsupported('line %d: real literal %s' % (line, s))
        elif kind == 'dec':
            toks.append(Tok('num', (None, True, int(s.replace('_', '')), 'dec'), line))
        elif kind == 'id':
            toks.append(Tok('id', s, line))
        elif kind == 'esc':
            raise SvUnsupported('line %d: escaped identifier %s' % (line, s))
        elif kind == 'sys':
            toks.append(Tok('sys', s, line))
        elif kind == 'str':
            toks.append(Tok('str', s[1:-1], line))
        else:
            toks.append(Tok('op', s, line))
        line += s.count('\n')
        pos = m.end()
    toks.append(Tok('eof', None, line))
    return toks
