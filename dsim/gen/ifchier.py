"""Seeded generator of *hierarchy-only* designs for C14: nested lists of components, interfaces (with
ports, lists of ports, struct-typed ports, nested interfaces, lists of nested interfaces, method ports),
lists (1-3 dimensions) of interfaces, CL method ports and callee / caller interfaces, and a few legal
pass-through connections.  Returns Python source (a function of the seed only) + statistics."""


def _dims(c, p=0.5, maxd=3):
  if c.random() >= p:
    return []
  return [c.choice([1, 2, 3]) for _ in range(c.randint(1, maxd))]


def _prod(dims):
  n = 1
  for d in dims:
    n *= d
  return n


def _wrap(expr, dims):
  for d in reversed(dims):
    expr = "[%s for _ in range(%d)]" % (expr, d)
  return expr


def gen_pipe(c, uid):
  """pipelines of stdlib queues connected give -> recv inside (lists of) list-held components: the stdlib
  connect hooks insert adapter components into the connecting parent, whose generated names must also be
  proper names"""
  q = lambda: c.choice(["NormalQueueRTL(Bits8, %d)" % c.choice([1, 2, 3]), "PipeQueueRTL(Bits8, %d)" % c.choice([1, 2]),
                        "BypassQueueRTL(Bits8, %d)" % c.choice([1, 2])])
  n = c.randint(1, 3)
  L = ["from pymtl3 import *", "from pymtl3.stdlib.queues import NormalQueueRTL, PipeQueueRTL, BypassQueueRTL",
       "from pymtl3.stdlib.ifcs import RecvIfcRTL, GiveIfcRTL", "",
       "class Pipe_%s(Component):" % uid, "  def construct(s):", "    s.enq = RecvIfcRTL(Bits8)", "    s.deq = GiveIfcRTL(Bits8)"]
  if c.random() < 0.5:
    L.append("    s.qs = [%s]" % ", ".join(q() for _ in range(n)))
    stage = lambda i: "s.qs[%d]" % i
  else:
    for i in range(n):
      L.append("    s.q%d = %s" % (i, q()))
    stage = lambda i: "s.q%d" % i
  L.append("    s.enq //= %s.enq" % stage(0))
  for i in range(n - 1):
    L.append("    %s.deq //= %s.enq" % (stage(i), stage(i + 1)))
  L.append("    %s.deq //= s.deq" % stage(n - 1))
  dims = c.choice([[2], [3], [2, 2], [1, 2], []])
  cells = []

  def rec(pre, ds):
    if not ds:
      cells.append(pre)
      return
    for i in range(ds[0]):
      rec(pre + "[%d]" % i, ds[1:])
  rec("s.p", dims)
  L += ["", "class Top_%s(Component):" % uid, "  def construct(s):", "    s.enq = RecvIfcRTL(Bits8)", "    s.deq = GiveIfcRTL(Bits8)",
        "    s.p = %s" % _wrap("Pipe_%s()" % uid, dims), "    s.enq //= %s.enq" % cells[0]]
  for a, b in zip(cells, cells[1:]):
    L.append("    %s.deq //= %s.enq" % (a, b))
  L.append("    %s.deq //= s.deq" % cells[-1])
  stats = {"ifc_classes": 2, "comp_classes": 2, "ifc_lists": 0, "nested_ifcs": 0, "method_ports": 0,
           "comp_lists_nd": int(len(dims) > 1), "struct_ports_in_ifc": 0, "stdlib_adapter_pipelines": 1}
  return "\n".join(L) + "\n", stats


def gen_adapt(c, uid):
  """tiles whose construct() connects interfaces of different levels (FL masters to a CL memory, CL sources to
  RTL queues / sinks, RTL sources to CL queues / sinks): the stdlib connect hooks create numbered adapter
  components (MemIfcFL2CL_<n>, RecvCL2SendRTL_<n>, RecvRTL2SendCL_<n>, give_recv_ander_<n>) in the tile"""
  L = ["from pymtl3 import *", "from pymtl3.stdlib.mem import MagicMemoryCL, MagicMemoryFL, MemMasterIfcFL, mk_mem_msg",
       "from pymtl3.stdlib.queues import NormalQueueRTL, PipeQueueRTL, BypassQueueRTL, PipeQueueCL, BypassQueueCL, NormalQueueCL",
       "from pymtl3.stdlib.test_utils.test_srcs import TestSrcCL, TestSrcRTL",
       "from pymtl3.stdlib.test_utils.test_sinks import TestSinkCL, TestSinkRTL", "",
       "class Core_%s(Component):" % uid, "  def construct(s):", "    s.mem = MemMasterIfcFL()", "    s.acc = Wire(Bits32)",
       "    @update_once", "    def up_core():", "      s.acc @= s.mem.read(0x1000, 4)", ""]
  ntile = c.randint(1, 2)
  for ti in range(ntile):
    decl, conn = [], []
    nc = c.randint(0, 3)
    if nc:
      decl.append("s.cores = [Core_%s() for _ in range(%d)]" % (uid, nc))
      if c.random() < 0.75:
        decl.append("s.dmem = MagicMemoryCL(%d, [mk_mem_msg(8, 32, 32)] * %d)" % (nc, nc))
        perm = list(range(nc))
        c.shuffle(perm)
        for i in range(nc):
          a, b = "s.cores[%d].mem" % i, "s.dmem.ifc[%d]" % perm[i]
          conn.append("connect(%s, %s)" % ((a, b) if c.random() < 0.5 else (b, a)))
      else:
        decl.append("s.fmem = [MagicMemoryFL() for _ in range(%d)]" % nc)
        for i in range(nc):
          conn.append("connect(s.cores[%d].mem, s.fmem[%d].ifc)" % (i, i))
    for k in range(c.randint(0 if nc else 1, 3)):
      kind = c.choice("ABCDFG")
      qr = c.choice(["NormalQueueRTL(Bits8, 2)", "PipeQueueRTL(Bits8, 1)", "BypassQueueRTL(Bits8, 2)"])
      qc = c.choice(["PipeQueueCL(2)", "BypassQueueCL(1)", "NormalQueueCL(3)"])
      flip = lambda a, b: "connect(%s, %s)" % ((a, b) if c.random() < 0.5 else (b, a))
      if kind == "A":
        decl += ["s.a%d = TestSrcCL(Bits8, [1, 2])" % k, "s.q%d = %s" % (k, qr), "s.z%d = TestSinkRTL(Bits8, [1, 2])" % k]
        conn += [flip("s.a%d.send" % k, "s.q%d.enq" % k), flip("s.q%d.deq" % k, "s.z%d.recv" % k)]
      elif kind == "B":
        decl += ["s.a%d = TestSrcRTL(Bits8, [1, 2])" % k, "s.q%d = %s" % (k, qc)]
        conn += [flip("s.a%d.send" % k, "s.q%d.enq" % k)]
      elif kind == "C":
        decl += ["s.a%d = TestSrcCL(Bits8, [1, 2])" % k, "s.z%d = TestSinkRTL(Bits8, [1, 2])" % k]
        conn += [flip("s.a%d.send" % k, "s.z%d.recv" % k)]
      elif kind == "D":
        decl += ["s.a%d = TestSrcRTL(Bits8, [1, 2])" % k, "s.z%d = TestSinkCL(Bits8, [1, 2])" % k]
        conn += [flip("s.a%d.send" % k, "s.z%d.recv" % k)]
      elif kind == "F":
        decl += ["s.a%d = TestSrcCL(Bits8, [1, 2])" % k, "s.q%d = %s" % (k, qc)]
        conn += ["connect(s.a%d.send, s.q%d.enq)" % (k, k)]
      else:
        decl += ["s.a%d = TestSrcCL(Bits8, [1, 2])" % k, "s.z%d = TestSinkCL(Bits8, [1, 2])" % k]
        conn += ["connect(s.a%d.send, s.z%d.recv)" % (k, k)]
    c.shuffle(conn)
    L += ["class Tile%d_%s(Component):" % (ti, uid), "  def construct(s):"] + ["    " + x for x in decl + conn] + [""]
  dims = c.choice([[2], [3], [2, 2], [1, 2], []])
  L += ["class Top_%s(Component):" % uid, "  def construct(s):"]
  for ti in range(ntile):
    L.append("    s.t%d = %s" % (ti, _wrap("Tile%d_%s()" % (ti, uid), dims if ti == 0 else c.choice([[], [2]]))))
  stats = {"ifc_classes": 2, "comp_classes": 2 + ntile, "ifc_lists": 0, "nested_ifcs": 0, "method_ports": 1,
           "comp_lists_nd": int(len(dims) > 1), "struct_ports_in_ifc": 0, "stdlib_adapter_pipelines": 1, "stdlib_adapter_tiles": 1}
  return "\n".join(L) + "\n", stats


def gen(c, uid):
  r = c.random()
  if r < 0.15:
    return gen_pipe(c, uid)
  if r < 0.27:
    return gen_adapt(c, uid)
  L = ["from pymtl3 import *", ""]
  stats = {"ifc_classes": 0, "comp_classes": 0, "ifc_lists": 0, "nested_ifcs": 0, "method_ports": 0,
           "comp_lists_nd": 0, "struct_ports_in_ifc": 0}
  # structs (field names with prefix relations and list fields)
  structs = []
  for i in range(c.randint(0, 2)):
    fields = []
    names = c.sample(["a", "ab", "abc", "b", "b0", "msg", "msg2", "x"], c.randint(2, 4))
    for n in names:
      r = c.random()
      if r < 0.25 and structs:
        fields.append("'%s': %s" % (n, c.choice(structs)))
      elif r < 0.5:
        fields.append("'%s': [Bits%d]*%d" % (n, c.choice([1, 3, 8]), c.choice([2, 3])))
      else:
        fields.append("'%s': Bits%d" % (n, c.choice([1, 2, 4, 8, 16])))
    sn = "St%d_%s" % (i, uid)
    L.append("%s = mk_bitstruct('%s', {%s})" % (sn, sn, ", ".join(fields)))
    structs.append(sn)
  L.append("")

  def sigtype():
    if structs and c.random() < 0.35:
      return c.choice(structs), True
    return "Bits%d" % c.choice([1, 2, 4, 8, 16, 32]), False

  # interface classes; member names deliberately include prefix pairs and names that look like indices
  ifcs = []
  isize = {}        # interface class -> approximate number of named objects in one instance
  csize = {}        # component class -> the same (bounds the size of the generated hierarchy)
  feedable = []     # interface classes made of InPorts only (they can be passed down from the top-level inputs)
  for i in range(c.randint(1, 4)):
    name = "If%d_%s" % (i, uid)
    body = []
    isz = 1
    feed = i == 0 or c.random() < 0.4
    pool = ["msg", "msg2", "val", "rdy", "en", "d", "d0", "dd", "q", "resp", "r"]
    c.shuffle(pool)
    k = 0
    for _ in range(c.randint(1, 4)):
      t, is_st = sigtype()
      dims = _dims(c, 0.4, 2)
      body.append("s.%s = %s" % (pool[k], _wrap("%s(%s)" % ("InPort" if feed else c.choice(["InPort", "OutPort"]), t), dims)))
      stats["struct_ports_in_ifc"] += 1 if is_st else 0
      isz += _prod(dims)
      k += 1
    inner = feedable if feed else ifcs
    if inner and c.random() < 0.6:
      for _ in range(c.randint(1, 2)):
        dims = _dims(c, 0.5, 2)
        ni = c.choice(inner)
        body.append("s.%s = %s" % (pool[k], _wrap("%s()" % ni, dims)))
        isz += _prod(dims) * isize[ni]
        stats["nested_ifcs"] += 1
        k += 1
    if feed:
      feedable.append(name)
    elif c.random() < 0.3:
      body.append("s.%s = %s" % (pool[k], _wrap(c.choice(["CalleePort()", "CallerPort()"]), _dims(c, 0.3, 1))))
      stats["method_ports"] += 1
      k += 1
    L.append("class %s(Interface):" % name)
    L.append("  def construct(s):")
    L.extend("    " + b for b in body)
    L.append("")
    ifcs.append(name)
    isize[name] = isz + 1
    stats["ifc_classes"] += 1

  comps = []
  needs = {}     # comp class -> [(member name, feedable ifc class, dims)]: interfaces the parent must feed
  ncomp = c.randint(2, 5)
  for i in range(ncomp):
    top = i == ncomp - 1
    name = ("Top_%s" if top else "K%d_" + uid) % (uid if top else i)
    body = []
    pool = ["a", "a0", "ab", "b", "in_", "out", "w", "w1", "w10", "ifc", "ifc2", "sub", "sub1", "m", "p", "st"] + \
           ["z%d" % j for j in range(400)]
    c.shuffle(pool)
    k = 0
    mine = []
    mysz = 3
    for _ in range(c.randint(1, 3)):
      t, _st = sigtype()
      sd_ = _dims(c, 0.4, 3)
      body.append("s.%s = %s" % (pool[k], _wrap("%s(%s)" % (c.choice(["InPort", "OutPort", "Wire"]), t), sd_)))
      mysz += _prod(sd_)
      k += 1
    for _ in range(c.randint(1, 3)):
      ic = c.choice(ifcs)
      dims = _dims(c, 0.6, 3)
      while dims and _prod(dims) * isize[ic] > 300:
        dims = dims[:-1]
      mysz += _prod(dims) * isize[ic]
      fed = ic in feedable and c.random() < 0.7
      inv = False      # Interface.inverse() is broken at this commit (F31, probed by C09): not used here
      body.append("s.%s = %s" % (pool[k], _wrap("%s()%s" % (ic, ".inverse()" if inv else ""), dims)))
      if dims:
        stats["ifc_lists"] += 1
      if inv:
        stats["inversed"] = stats.get("inversed", 0) + 1
      if fed:
        mine.append((pool[k], ic, dims))
      k += 1
    # ragged lists: triangular (first row EMPTY), and mixed nesting depth inside one list
    if c.random() < 0.35:
      n = c.randint(2, 4)
      what = c.choice(["Wire(Bits8)", "%s()" % c.choice(ifcs), "InPort(Bits4)"])
      form = c.choice(["tri0", "tri1", "mixed", "deep_first_shallow_later"])
      if form == "tri0":
        body.append("s.%s = [[%s for _ in range(i)] for i in range(%d)]" % (pool[k], what, n))
      elif form == "tri1":
        body.append("s.%s = [[%s for _ in range(i + 1)] for i in range(%d)]" % (pool[k], what, n))
      elif form == "mixed":
        body.append("s.%s = [%s, [%s, %s], [[%s]]]" % (pool[k], what, what, what, what))
      else:
        body.append("s.%s = [[[%s]], [%s, %s], %s]" % (pool[k], what, what, what, what))
      stats["ragged_lists"] = stats.get("ragged_lists", 0) + 1
      k += 1
    if c.random() < 0.5:
      kind = c.choice(["CalleePort()", "CallerPort()", "CalleeIfcCL()", "CallerIfcCL()"])
      body.append("s.%s = %s" % (pool[k], _wrap(kind, _dims(c, 0.4, 2))))
      stats["method_ports"] += 1
      k += 1
    if comps:
      for _ in range(c.randint(1, 2) if not top else c.randint(1, 3)):
        cc = c.choice(comps)
        dims = _dims(c, 0.6, 3)
        if len(needs.get(cc, [])) * max(1, len(dims)) > 6:
          dims = dims[:1]
        # bound the hierarchy: about 1500 named objects per component class at most
        per = csize[cc] + sum(_prod(d) * isize[ic] for (mn, ic, d) in needs.get(cc, []))
        while dims and _prod(dims) * per > 600:
          dims = dims[:-1]
        if mysz + _prod(dims) * per > 1500:
          continue
        mysz += _prod(dims) * per
        sub = pool[k]
        k += 1
        body.append("s.%s = %s" % (sub, _wrap("%s()" % cc, dims)))
        if len(dims) >= 2:
          stats["comp_lists_nd"] += 1
        # pass-through: every interface the child needs fed gets an own interface list of the same class
        for (mn, ic, d) in needs.get(cc, []):
          own = pool[k]
          k += 1
          alld = dims + d
          body.append("s.%s = %s" % (own, _wrap("%s()" % ic, alld)))
          ind = ""
          for j, dd in enumerate(alld):
            body.append("%sfor i%d in range(%d):" % (ind, j, dd))
            ind += "  "
          i1 = "".join("[i%d]" % j for j in range(len(dims)))
          i2 = "".join("[i%d]" % j for j in range(len(dims), len(alld)))
          body.append("%sconnect(s.%s%s%s, s.%s%s.%s%s)" % (ind, own, i1, i2, sub, i1, mn, i2))
          stats["passthrough"] = stats.get("passthrough", 0) + 1
          mine.append((own, ic, alld))
    needs[name] = mine
    L.append("class %s(Component):" % name)
    L.append("  def construct(s):")
    L.extend("    " + b for b in body)
    has_push = c.random() < 0.4
    if has_push:
      L.append("  @non_blocking(lambda s: True)")
      L.append("  def push(s, v):")
      L.append("    pass")
      stats["method_ports"] += 1
    L.append("")
    comps.append(name)
    csize[name] = mysz
    stats["comp_classes"] += 1
    if has_push and not top and c.random() < 0.6:
      # a subclass that adds decorated methods of its own (and may override the inherited one): whatever is
      # decided per CLASS about decorated methods must not leak from the base class to the subclass
      sub = name + "S"
      L.append("class %s(%s):" % (sub, name))
      L.append("  @non_blocking(lambda s: True)")
      L.append("  def pull(s):")
      L.append("    return 0")
      L.append("  @method_port")
      L.append("  def peek(s):")
      L.append("    return 1")
      if c.random() < 0.4:
        L.append("  @non_blocking(lambda s: False)")
        L.append("  def push(s, v):")
        L.append("    pass")
      L.append("")
      needs[sub] = needs[name]
      csize[sub] = mysz + 8
      comps.append(sub)
      stats["method_ports"] += 2
      stats["subclass_with_methods"] = stats.get("subclass_with_methods", 0) + 1
  return "\n".join(L) + "\n", stats
