"""Constructive generator of legal RTL DesignSpecs (DESIGN.md 3.1, Appendix C).

Every signal bit gets exactly one driver; drivers are created one after the
other and may only read what is already driven (or registers / inputs), so the
block graph is acyclic by construction.  Every combinational block assigns all
of its targets on every path (default assignment first).
"""
import itertools

from .spec import field_layout, tbits, walk_exprs, width

WIDTHS = [1, 1, 2, 3, 4, 4, 5, 7, 8, 8, 12, 16, 16, 31, 32, 32, 33, 64]
BIG_WIDTHS = [65, 100, 128, 200, 512]

DEFAULT_PROFILE = dict(
  n_structs=(0, 2), n_child_classes=(0, 2), depth=2,
  n_in=(1, 4), n_out=(1, 3), n_wire=(0, 5),
  p_list=0.25, p_struct=0.3, p_reg=0.35, p_split=0.35,
  p_connect=0.3, p_lambda=0.12, max_block_targets=3,
  expr_depth=3, p_if=0.4, p_for=0.25, p_tmp=0.2, p_free=0.15,
  p_big_width=0.04, p_reset_in_ff=0.5, translatable=False,
  p_var_index=0.2, min_blocks=0, p_read_own=0.05, yosys=False, p_sub2d=0.0, p_func=0.0,
)


def profile(name):
  p = dict(DEFAULT_PROFILE)
  if name == "acyclic":
    p.update(p_sub2d=0.2, p_func=0.05)
  elif name == "ff_heavy":
    p.update(p_reg=0.75, n_wire=(2, 7), p_connect=0.25, p_func=0.05)
  elif name == "big":
    p.update(n_wire=(10, 18), n_out=(2, 4), n_in=(2, 5), p_connect=0.1, p_lambda=0.05,
             max_block_targets=1, p_if=0.9, p_split=0.5, n_child_classes=(0, 1))
  elif name == "shapes":
    p.update(p_split=0.8, p_struct=0.6, n_structs=(1, 2), p_connect=0.4, n_wire=(3, 7), p_sub2d=0.2, p_func=0.05)
  elif name == "translatable":
    p.update(translatable=True, p_big_width=0.0, p_sub2d=0.2)
  elif name == "translatable_yosys":
    p.update(translatable=True, p_big_width=0.0, yosys=True, p_sub2d=0.2)
  else:
    raise ValueError(name)
  p["name"] = name
  return p


def floordiv_ok(path, nwhole):
  """`x.f.g //= y` does setattr on the lazily created field signal x.f, which
  pymtl3 cannot handle (AttributeError NamedObject_fields); connect() works."""
  extra = path[nwhole:]
  return not extra or extra[-1][0] != "a" or len(extra) == 1


def is_const(e):
  """no signal / temporary / loop-variable read anywhere inside"""
  return not any(x[0] in ("rd", "tmpv", "lv") for x in walk_exprs(e))


def has_const_subtree(e):
  """some operator node whose operands are all constant"""
  for x in walk_exprs(e):
    if x[0] in ("bin", "shift", "cmp", "inv", "ife", "zext", "sext", "trunc", "concat", "red", "cast") and is_const(x):
      return True
  return False


def yosys_safe(e):
  """Known finding F18: the Yosys backend emits trunc() of a struct field or of a sub-component
  port with the un-flattened name (`1'(i0.f1)`, `1'(m0[1].i0)`).  Use the equivalent slice read."""
  if isinstance(e, list):
    if e and e[0] == "trunc" and e[1][0] == "rd" and len(e[1]) == 3:
      path, w0 = e[1][1], e[1][2]
      if len(path) > 1:
        w = e[2]
        if path[-1][0] == "s":
          return ["rd", path[:-1] + [["s", path[-1][1], path[-1][1] + w]], w]
        if path[-1][0] == "b":
          return ["rd", path, 1]
        return ["rd", path + [["s", 0, w]], w]
    return [yosys_safe(x) for x in e]
  return e


class Atom:
  """A readable leaf: (path, width, type, is_conn_src)."""
  __slots__ = ("path", "w", "t", "conn", "key")

  def __init__(self, path, w, t, conn, key):
    self.path, self.w, self.t, self.conn, self.key = path, w, t, conn, key


class CompGen:
  def __init__(self, G, cname, is_top, child_classes):
    self.G = G
    self.c = G.c
    self.P = G.P
    self.spec = G.spec
    self.cname = cname
    self.is_top = is_top
    self.child_classes = child_classes
    self.signals = []
    self.subs = []
    self.frees = []
    self.items = []
    self.atoms = []          # readable atoms
    self.funcs = []          # @s.func helpers (value-returning), in definition order
    self.pending_child = {}  # child instance path-key -> set of undriven in-port piece ids
    self.child_outs = {}     # child instance key -> list of Atom to release
    self.nblk = 0
    self.ntmp = 0

  # ---- declarations ----------------------------------------------------
  def pick_type(self):
    c, P = self.c, self.P
    if self.spec["structs"] and c.random() < P["p_struct"]:
      return c.choice(sorted(self.spec["structs"]))
    if c.random() < P["p_big_width"]:
      return c.choice(BIG_WIDTHS)
    return c.choice(WIDTHS)

  def declare(self):
    c, P = self.c, self.P
    if getattr(self, "fixed_ports", None) is not None:
      # same external interface as another class (C15 replacement families): ports given, insides free
      self.signals = [dict(sg) for sg in self.fixed_ports]
      for j in range(c.randint(*P["n_wire"])):
        dims = [c.choice([2, 3, 4])] if c.random() < P["p_list"] else []
        self.signals.append({"name": "w%d" % j, "kind": "wire", "type": self.pick_type(), "dims": dims})
      for j, cls in enumerate(self.child_classes):
        dims = [c.choice([2, 3])] if c.random() < P["p_list"] else []
        self.subs.append({"name": "m%d" % j, "cls": cls, "dims": dims})
      return
    n_in = c.randint(*P["n_in"])
    n_out = c.randint(*P["n_out"])
    n_wire = c.randint(*P["n_wire"])
    for kind, n, pre in (("in", n_in, "i"), ("out", n_out, "o"), ("wire", n_wire, "w")):
      for j in range(n):
        dims = [c.choice([2, 3, 4])] if c.random() < P["p_list"] else []
        self.signals.append({"name": "%s%d" % (pre, j), "kind": kind, "type": self.pick_type(),
                             "dims": dims})
    # a Bits wire exactly as wide as a struct-typed signal of this component: the target of a
    # struct -> Bits assignment (the packed value of the whole struct)
    stsigs = [sg for sg in self.signals if isinstance(sg["type"], str)]
    if stsigs and c.random() < 0.35:
      sg = c.choice(stsigs)
      self.signals.append({"name": "wpk0", "kind": "wire", "type": tbits(self.spec, sg["type"]), "dims": []})
    # make sure an index-capable input exists sometimes
    for j, cls in enumerate(self.child_classes):
      dims = [c.choice([2, 3])] if c.random() < P["p_list"] else []
      if P.get("p_sub2d") and c.random() < P["p_sub2d"]:
        dims = c.choice([[2, 3], [3, 2], [2, 2], [1, 3]])     # list of lists of components
      self.subs.append({"name": "m%d" % j, "cls": cls, "dims": dims})
    if c.random() < P["p_free"] * 2:
      for j in range(c.randint(1, 2)):
        if c.random() < 0.5:
          self.frees.append({"name": "k%d" % j, "kind": "int", "w": None, "v": c.randint(0, 7)})
        else:
          w = c.choice([2, 4, 8, 16])
          self.frees.append({"name": "kb%d" % j, "kind": "bits", "w": w, "v": c.getrandbits(w)})

  # ---- atoms -----------------------------------------------------------
  def add_atoms_for(self, path, t, conn, key):
    """Register `path` (fully driven from now on) and its struct fields."""
    spec = self.spec
    w = tbits(spec, t)
    self.atoms.append(Atom(path, w, t, conn, key))
    if isinstance(t, str):
      for fname, ft, lo, fw in field_layout(spec, t):
        fp = path + [["a", fname]]
        if isinstance(ft, list):
          for i in range(ft[2]):
            self.add_atoms_for(fp + [["i", i]], ft[1], conn, key)
        else:
          self.add_atoms_for(fp, ft, conn, key)

  def sig_elems(self, base, sg):
    if sg["dims"]:
      return [base + [["a", sg["name"]], ["i", i]] for i in range(sg["dims"][0])]
    return [base + [["a", sg["name"]]]]

  # ---- targets ---------------------------------------------------------
  def split_target(self, path, t):
    """-> list of (piece_path, piece_type)"""
    c, P = self.c, self.P
    spec = self.spec
    w = tbits(spec, t)
    if c.random() >= P["p_split"]:
      return [(path, t)]
    if isinstance(t, str):
      out = []
      for fname, ft, lo, fw in field_layout(spec, t):
        fp = path + [["a", fname]]
        if isinstance(ft, list):
          for i in range(ft[2]):
            out.extend(self.split_target(fp + [["i", i]], ft[1]) if c.random() < 0.3
                       else [(fp + [["i", i]], ft[1])])
        elif c.random() < 0.3:
          out.extend(self.split_target(fp, ft))
        else:
          out.append((fp, ft))
      return out
    if isinstance(t, int) and w >= 2:
      n = c.randint(2, min(4, w))
      cuts = sorted(c.sample(range(1, w), n - 1))
      bounds = [0] + cuts + [w]
      out = []
      for a, b in zip(bounds, bounds[1:]):
        if b - a == 1 and c.random() < 0.5:
          out.append((path + [["b", a]], 1))
        else:
          out.append((path + [["s", a, b]], b - a))
      return out
    return [(path, t)]

  # ---- expression generation ------------------------------------------
  def const(self, w):
    c = self.c
    r = c.random()
    if r < 0.2:
      v = 0
    elif r < 0.35:
      v = (1 << w) - 1
    elif r < 0.5:
      v = 1
    else:
      v = c.getrandbits(w)
    return ["const", w, v]

  def small_int(self, w):
    hi = min((1 << w) - 1, 9)
    return ["int", self.c.randint(0, hi)]

  def leaf(self, w, env):
    """A leaf expression of width w."""
    c = self.c
    cands = [a for a in self.atoms if a.w == w and isinstance(a.t, int)]
    tmps = [n for n, tw in env.get("tmps", {}).items() if tw == w]
    pars = [n for n, pw in env.get("params", {}).items() if pw == w]
    if pars and c.random() < 0.4:
      return ["param", c.choice(pars), w]
    r = c.random()
    if tmps and r < 0.25:
      n = c.choice(tmps)
      return ["tmpv", n, w]
    if cands and r < 0.75:
      a = c.choice(cands)
      return ["rd", a.path, w]
    frees = [f for f in self.frees if f["kind"] == "bits" and f["w"] == w]
    if frees and r < 0.85:
      return ["free", frees[0]["name"], w]
    # derive from an atom of another width
    others = [a for a in self.atoms if isinstance(a.t, int) and a.w != w]
    if others and r < 0.95:
      a = c.choice(others)
      e = ["rd", a.path, a.w]
      if a.w > w:
        if a.path[-1][0] in ("a", "i") and a.w >= 4 and c.random() < self.P.get("p_vslice", 0.12):
          # part select with a run-time base: s.x[b : b + w], b an (clog2 width)-bit expression that can
          # never run past the end (masked, or zero-extended from a narrower signal)
          iw = (a.w - 1).bit_length()
          room = a.w - w                     # largest legal base
          srcs = [x for x in self.atoms if isinstance(x.t, int) and x.path[-1][0] in ("a", "i")]
          same = [x for x in srcs if x.w == iw]
          narrow = [x for x in srcs if x.w < iw and (1 << x.w) - 1 <= room]
          m = (1 << (room.bit_length() - 1)) - 1 if room >= 1 else 0     # mask <= room (2^k - 1)
          be = None
          if same and m >= 1 and c.random() < 0.6:
            be = ["bin", "and", ["rd", c.choice(same).path, iw], ["const", iw, m]]
          elif narrow:
            x = c.choice(narrow)
            be = ["zext", ["rd", x.path, x.w], iw]
          if be is not None:
            return ["vslice", a.path, be, w]
        if c.random() < 0.6:
          lo = c.randint(0, a.w - w)
          base, off = a.path, 0
          if base[-1][0] == "s":          # no slice of a slice: compose
            base, off = base[:-1], base[-1][1]
          if w == 1 and c.random() < 0.5:
            return ["rd", base + [["b", off + lo]], 1]
          return ["rd", base + [["s", off + lo, off + lo + w]], w]
        return ["trunc", e, w]
      kind = c.choice(["zext", "zext", "sext"])
      if kind == "sext" and self.P["translatable"] and a.path[-1][0] not in ("a", "s"):
        kind = "zext"
      return [kind, e, w]
    return self.const(w)

  def index_expr(self, iw, n):
    """an index expression that is always < n == 2**iw: a whole atom of width iw, or (behavioural
    profiles only) a slice of a wider atom / a wider atom masked with n-1"""
    c = self.c
    idx = [x for x in self.atoms if isinstance(x.t, int) and x.w == iw and x.path[-1][0] in ("a", "i")]
    wide = [x for x in self.atoms if isinstance(x.t, int) and x.w > iw and x.path[-1][0] in ("a", "i")]
    if wide and not self.P["translatable"] and (not idx or c.random() < 0.4):
      x = c.choice(wide)
      if c.random() < 0.5:
        lo = c.randint(0, x.w - iw)
        return ["rd", x.path + [["s", lo, lo + iw]], iw]
      return ["bin", "and", ["rd", x.path, x.w], ["const", x.w, n - 1]]
    if idx:
      return ["rd", c.choice(idx).path, iw]
    return None

  def var_index_nonfinal(self, w, env):
    """s.list[idx].field / s.list[idx][lo:hi] / s.list[idx][k]: a variable index that is NOT the last
    step of the name (the index is read through a different code path of the read extraction)"""
    c = self.c
    lists = {}
    for a in self.atoms:
      if len(a.path) == 2 and a.path[0][0] == "a" and a.path[1][0] == "i":
        lists.setdefault(a.path[0][1], []).append(a)
    names = sorted(lists)
    c.shuffle(names)
    for name in names:
      elems = lists[name]
      n = self.list_len([["a", name]])
      if n is None or len(elems) != n or n not in (2, 4):
        continue
      t = elems[0].t
      conts = []
      if isinstance(t, int):
        if t > w:
          lo = c.randint(0, t - w)
          conts.append([["s", lo, lo + w]])
          if w == 1:
            conts.append([["b", lo]])
      elif isinstance(t, str):
        for fname, ft, flo, fw in field_layout(self.spec, t):
          if isinstance(ft, int) and fw == w:
            conts.append([["a", fname]])
          elif isinstance(ft, int) and fw > w:
            lo = c.randint(0, fw - w)
            conts.append([["a", fname], ["s", lo, lo + w]])
      if not conts:
        continue
      ie = self.index_expr(n.bit_length() - 1, n)
      if ie is None:
        continue
      return ["rd", [["a", name], ["vi", ie]] + c.choice(conts), w]
    return None

  def var_index_read(self, w, env):
    """s.list[idx] or s.x[idx] (bit) with an index that is always in range."""
    c = self.c
    if not self.P["translatable"] and c.random() < 0.5:
      e = self.var_index_nonfinal(w, env)
      if e is not None:
        return e
    # bit index into a power-of-two wide atom
    if w == 1:
      cands = [a for a in self.atoms if isinstance(a.t, int) and a.w in (2, 4, 8, 16, 32, 64)
               and a.path[-1][0] == "a"]
      c.shuffle(cands)
      for a in cands:
        iw = a.w.bit_length() - 1
        idx = [x for x in self.atoms if isinstance(x.t, int) and x.w == iw and x.path[-1][0] in ("a", "i")]
        if idx:
          return ["rd", a.path + [["vb", ["rd", c.choice(idx).path, iw]]], 1]
    # list element
    lists = {}
    for a in self.atoms:
      if isinstance(a.t, int) and a.w == w and len(a.path) >= 2 and a.path[-1][0] == "i" \
         and a.path[-2][0] == "a":
        lists.setdefault(repr(a.path[:-1]), []).append(a)
    keys = sorted(lists)
    c.shuffle(keys)
    for key in keys:
      elems = lists[key]
      n = self.list_len(elems[0].path[:-1])
      if n is None or len(elems) != n or n not in (2, 4):
        continue
      iw = n.bit_length() - 1
      ie = self.index_expr(iw, n)
      if ie is not None:
        return ["rd", elems[0].path[:-1] + [["vi", ie]], w]
    return None

  def list_len(self, path):
    """length of the signal list / array field a path (without final index) names, in this comp."""
    if len(path) == 1:
      for sg in self.signals:
        if sg["name"] == path[0][1] and sg["dims"]:
          return sg["dims"][0]
    # a port list of a sub-component (possibly an element of a 1-2-D list of sub-components):
    # s.m0[1].o1[<index>]
    if len(path) >= 2 and path[0][0] == "a" and path[-1][0] == "a" and all(st[0] == "i" for st in path[1:-1]):
      for sb in self.subs:
        if sb["name"] == path[0][1] and len(sb["dims"]) == len(path) - 2:
          for sg in self.spec["comps"][sb["cls"]]["signals"]:
            if sg["name"] == path[-1][1] and sg["dims"]:
              return sg["dims"][0]
    return None

  def expr(self, w, depth, env):
    e = self._expr(w, depth, env)
    if self.P["translatable"]:
      # RTLIR folds all-constant sub-expressions and types them by the folded value: keep at
      # least one signal read in every operator node
      for _ in range(4):
        if not has_const_subtree(e):
          break
        e = self._expr(w, depth, env)
      else:
        e = self.leaf_nonconst(w, env)
    if self.P["yosys"]:
      e = yosys_safe(e)
    return e

  def leaf_nonconst(self, w, env):
    for _ in range(8):
      e = self.leaf(w, env)
      if not is_const(e):
        return e
    # zero-extend / truncate any readable atom
    atoms = [a for a in self.atoms if isinstance(a.t, int)]
    a = self.c.choice(atoms)
    e = ["rd", a.path, a.w]
    if a.w == w:
      return e
    return ["trunc", e, w] if a.w > w else ["zext", e, w]

  def get_func(self, w, env):
    """an existing helper of width w, or a new one that reads what is readable now (every later caller
    can read at least that, so the block graph stays acyclic); helpers may call earlier helpers"""
    c = self.c
    have = [f for f in self.funcs if f["w"] == w]
    if have and (c.random() < 0.6 or len(self.funcs) >= 4):
      return c.choice(have)
    if len(self.funcs) >= 4 or env.get("fdepth", 0) >= 2:
      return None
    params = [["p%d" % j, c.choice([1, 4, 8, w])] for j in range(c.randint(0, 2))]
    fenv = {"tmps": {}, "params": {n: pw for n, pw in params}, "fdepth": env.get("fdepth", 0) + 1}
    ret = self._expr(w, 2, fenv)
    if not any(x[0] == "rd" for x in walk_exprs(ret)):
      ret = ["bin", "xor", ret, self.leaf_nonconst(w, {"tmps": {}})]
    fn = {"name": "fn%d" % len(self.funcs), "params": params, "ret": ret, "w": w}
    self.funcs.append(fn)
    return fn

  def _expr(self, w, depth, env):
    c, P = self.c, self.P
    if P.get("p_func") and not env.get("nofunc") and c.random() < P["p_func"]:
      fn = self.get_func(w, env)
      if fn is not None:
        return ["fcall", fn["name"], [self._expr(pw, 1, env) for _, pw in fn["params"]], w]
    if depth <= 0 or c.random() < 0.25:
      return self.leaf(w, env)
    r = c.random()
    if r < 0.30:
      op = c.choice(["add", "sub", "and", "or", "xor", "add", "sub"] + ([] if w > 16 else ["mul"]))
      a = self._expr(w, depth - 1, env)
      if c.random() < 0.2:
        b = self.small_int(w)
      else:
        b = self._expr(w, depth - 1, env)
      if c.random() < 0.12 and width(a) == w:
        # a SAME-width trunc / zext / sext around an operand: a no-op that must still group its operand
        a = [c.choice(["trunc", "zext", "sext"]), a, w]
      return ["bin", op, a, b]
    if r < 0.40:
      a = self._expr(w, depth - 1, env)
      if c.random() < 0.6:
        b = ["int", c.randint(0, min(w + 1, (1 << w) - 1, 70))]
      else:
        b = self._expr(w, depth - 1, env)
      return ["shift", c.choice(["shl", "shr"]), a, b]
    if r < 0.48:
      return ["inv", self._expr(w, depth - 1, env)]
    if r < 0.60:
      cond = self._expr(1, depth - 1, env)
      return ["ife", cond, self._expr(w, depth - 1, env), self._expr(w, depth - 1, env)]
    if r < 0.70 and w >= 2:
      n = c.randint(2, min(3, w))
      cuts = sorted(c.sample(range(1, w), n - 1))
      bounds = [0] + cuts + [w]
      return ["concat", [self._expr(b - a, depth - 1, env) for a, b in zip(bounds, bounds[1:])]]
    if r < 0.78 and w >= 2:
      w2 = c.randint(1, w - 1)
      kind = c.choice(["zext", "sext"])
      if kind == "sext" and P["translatable"]:
        # known finding F17: sext() of a non-trivial expression is mistranslated; plain reads only
        # (F19: sext() of a list / array element is mistranslated too: attribute-ended reads and slices only)
        cands = [a for a in self.atoms if isinstance(a.t, int) and a.w == w2 and a.path[-1][0] in ("a", "s")]
        if not cands:
          return ["zext", self._expr(w2, depth - 1, env), w]
        return ["sext", ["rd", c.choice(cands).path, w2], w]
      return [kind, self._expr(w2, depth - 1, env), w]
    if r < 0.84:
      w2 = w + c.randint(1, 8)
      return ["trunc", self._expr(w2, depth - 1, env), w]
    if w == 1 and r < 0.95:
      w2 = c.choice([1, 2, 4, 8, 5])
      if c.random() < 0.6:
        a = self._expr(w2, depth - 1, env)
        b = self.small_int(w2) if c.random() < 0.3 else self._expr(w2, depth - 1, env)
        return ["cmp", c.choice(["eq", "ne", "lt", "le", "gt", "ge"]), a, b]
      return ["red", c.choice(["and", "or", "xor"]), self._expr(w2, depth - 1, env)]
    if r < 0.97 and c.random() < P["p_var_index"] * 3:
      e = self.var_index_read(w, env)
      if e is not None:
        return e
    return self.leaf(w, env)

  def value_expr(self, t, depth, env):
    """expression for a target of type t (Bits or struct)."""
    c = self.c
    if isinstance(t, str):
      cands = [a for a in self.atoms if a.t == t]
      itmps = env.get("itmps")
      if cands and not itmps and c.random() < 0.6:
        a = c.choice(cands)
        return ["rd", a.path, a.w, t]
      args = []
      ok = True
      for fname, ft, lo, fw in field_layout(self.spec, t):
        if isinstance(ft, list):
          ok = False
          break
        if itmps and isinstance(ft, int):
          fit = sorted(n for n, v in itmps.items() if v < (1 << ft))
          if fit and c.random() < 0.6:
            args.append(["tmpv", c.choice(fit), ft])
            continue
        args.append(self.value_expr(ft, depth - 1, env))
        if args[-1] is None:
          ok = False
          break
      if ok:
        return ["mkstruct", t, args, tbits(self.spec, t)]
      if cands:
        a = c.choice(cands)
        return ["rd", a.path, a.w, t]
      return None
    return self.expr(t, depth, env)

  # ---- statements ------------------------------------------------------
  def default_stmt(self, path, t):
    if isinstance(t, str):
      cands = [a for a in self.atoms if a.t == t]
      if cands:
        return ["assign", path, ["rd", self.c.choice(cands).path, tbits(self.spec, t), t]]
      e = self.value_expr(t, 1, {})
      return ["assign", path, e] if e is not None else None
    return ["assign", path, self.const(t) if self.c.random() < 0.7 else self.small_int(t)]

  def tmp_copy_and_patch(self, env):
    """t = s.x[0:W] (a WHOLE-width slice: a copy of the signal's value), then t[lo:hi] = e in place: the
    temporary must be a copy, never an alias of the signal's storage.  -> statements or []"""
    c = self.c
    cands = [a for a in self.atoms if isinstance(a.t, int) and a.w >= 2 and a.path[-1][0] in ("a", "i")]
    if not cands or self.P["translatable"]:
      return []
    a = c.choice(cands)
    name = "t%d" % self.ntmp
    self.ntmp += 1
    lo = c.randint(0, a.w - 1)
    hi = c.randint(lo + 1, a.w)
    out = [["tmp", name, ["rd", a.path + [["s", 0, a.w]], a.w]],
           ["tmpset", name, lo, hi, self.expr(hi - lo, 1, env)]]
    env["tmps"][name] = a.w
    return out

  def gen_comb_block(self, targets):
    """targets: list of (path, type).  Returns item or None."""
    c, P = self.c, self.P
    env = {"tmps": {}}
    stmts = []
    if c.random() < P["p_tmp"]:
      for _ in range(c.randint(1, 2)):
        w = c.choice(WIDTHS[:14])
        name = "t%d" % self.ntmp
        self.ntmp += 1
        st = ["tmp", name, self.expr(w, 2, env)]
        env["tmps"][name] = w
        if c.random() < 0.25:       # chained assignment to two temporaries
          st.append([name + "b"])
          env["tmps"][name + "b"] = w
        stmts.append(st)
    if c.random() < P.get("p_tmp_patch", 0.12):
      stmts.extend(self.tmp_copy_and_patch(env))
    if self.spec["structs"] and c.random() < P.get("p_itmp", 0.2):
      # a temporary of IMPLICIT width (initialised from an int literal), used as a struct-constructor argument
      name = "k%d" % self.ntmp
      self.ntmp += 1
      v = c.choice([0, 1, 1, 2, 3, 5, 6, 9])
      stmts.append(["tmp", name, ["int", v]])
      env.setdefault("itmps", {})[name] = v
    own_driven = []
    for (path, t) in targets:
      use_if = c.random() < P["p_if"]
      if use_if:
        d = self.default_stmt(path, t)
        if d is None:
          return None
        stmts.append(d)
        cond = self.expr(1, 2, env)
        e1 = self.value_expr(t, P["expr_depth"], env)
        if e1 is None:
          return None
        then = [["assign", path, e1]]
        els = []
        if c.random() < 0.5:
          e2 = self.value_expr(t, P["expr_depth"] - 1, env)
          if e2 is not None:
            els = [["assign", path, e2]]
        if c.random() < 0.3 and els:
          cond2 = self.expr(1, 1, env)
          e3 = self.value_expr(t, 1, env)
          if e3 is not None:
            els = [["if", cond2, [["assign", path, e3]], els]]
        stmts.append(["if", cond, then, els])
      else:
        e = self.value_expr(t, P["expr_depth"], env)
        if e is None:
          return None
        if isinstance(t, int) and path[-1][0] in ("a", "i") and \
           c.random() < (0.7 if path[0][1].startswith("wpk") else P.get("p_struct_as_bits", 0.2)):
          # a whole struct signal assigned to a Bits signal of the same width (its packed value)
          packed = [a for a in self.atoms if a.w == t and isinstance(a.t, str) and a.path[-1][0] in ("a", "i")]
          if packed:
            e = ["rd", c.choice(packed).path, t]
        stmts.append(["assign", path, e])
      own_driven.append((path, t))
      # whole target first, then one piece of it (one or two levels down) again in the same block:
      # the block is the writer of the whole AND of the piece (writer bookkeeping of nets that tap a
      # sibling piece must still find the whole-signal writer)
      if path[-1][0] in ("a", "i") and c.random() < P.get("p_override", 0.15):
        pc = self.sub_piece(path, t)
        if pc is not None:
          stmts.append(["assign", pc[0], self.expr(pc[1], 2, env)])
    name = "up%d" % self.nblk
    self.nblk += 1
    return {"k": "comb", "name": name, "stmts": stmts}

  def sub_piece(self, path, t, depth=0):
    """-> (path, width) of a Bits piece strictly inside the target, or None"""
    c, spec = self.c, self.spec
    if isinstance(t, int):
      if t < 2:
        return None
      lo = c.randint(0, t - 1)
      hi = c.randint(lo + 1, t) if not (lo == 0) else c.randint(1, t - 1)
      if hi - lo == 1 and c.random() < 0.5:
        return path + [["b", lo]], 1
      return path + [["s", lo, hi]], hi - lo
    if isinstance(t, str):
      fname, ft, flo, fw = c.choice(field_layout(spec, t))
      fp = path + [["a", fname]]
      if isinstance(ft, list):
        fp = fp + [["i", c.randrange(ft[2])]]
        ft = ft[1]
      if isinstance(ft, int):
        if ft >= 2 and c.random() < 0.6:
          return self.sub_piece(fp, ft, depth + 1)
        return fp, ft
      if depth < 2:
        return self.sub_piece(fp, ft, depth + 1)
    return None

  def gen_for_block(self, path, t):
    """whole Bits target written bit by bit / decoder-style in a loop."""
    c = self.c
    if not isinstance(t, int) or t < 2 or t > 16:
      return None
    env = {"tmps": {}}
    same = [a for a in self.atoms if isinstance(a.t, int) and a.w == t and a.path[-1][0] in ("a", "i")]
    name = "up%d" % self.nblk
    if t in (2, 4, 8, 16) and c.random() < 0.4:
      iw = t.bit_length() - 1
      idx = [x for x in self.atoms if isinstance(x.t, int) and x.w == iw and x.path[-1][0] in ("a", "i")]
      if idx:
        self.nblk += 1
        return {"k": "comb", "name": name, "stmts": [
          ["assign", path, self.const(t)],
          ["assign", path + [["vb", ["rd", c.choice(idx).path, iw]]], self.expr(1, 2, env)]]}
    if not same:
      return None
    a = c.choice(same)
    b = c.choice(same)
    op = c.choice(["and", "or", "xor"])
    body = [["assign", path + [["vb", ["lv", "i"]]],
             ["bin", op, ["rd", a.path + [["vb", ["lv", "i"]]], 1], ["rd", b.path + [["vb", ["lv", "i"]]], 1]]]]
    if c.random() < 0.4:
      body = [["if", ["rd", a.path + [["vb", ["lv", "i"]]], 1], body,
               [["assign", path + [["vb", ["lv", "i"]]], self.expr(1, 1, env)]]]]
    self.nblk += 1
    if c.random() < 0.25 and not self.P["translatable"]:
      # (the RTLIR type checker rejects a negative loop end, so translatable designs count upwards;
      #  splitting off index 0 would make one block write x[i] and x[0:1], the order-dependent shape F21)
      return {"k": "comb", "name": name, "stmts": [["for", "i", t - 1, -1, -1, body]]}
    return {"k": "comb", "name": name, "stmts": [["for", "i", 0, t, 1, body]]}

  def conn_op(self, pc):
    if floordiv_ok(pc["path"], len(pc["whole"][0])):
      return self.c.choice(["connect", "//="])
    return "connect"

  def gen_accum_loop(self, path, t):
    """whole Bits target accumulated over a counted loop; the loop variable is used as a value
    (shift amount, BitsN(i) cast, temporary), ascending or descending with a non-negative stop."""
    c = self.c
    if not isinstance(t, int) or t < 2 or t > 32:
      return None
    same = [a for a in self.atoms if isinstance(a.t, int) and a.w == t]
    if not same:
      return None
    a = c.choice(same)
    n = c.randint(2, min(6, t))
    lo = c.randint(0, 2)
    hi = lo + n
    if hi > (1 << t) - 1 or hi >= t + 2:
      hi = min((1 << t) - 1, t)
      lo = max(0, hi - n)
    if hi <= lo:
      return None
    if c.random() < 0.5:
      rng_ = [hi, lo, -1]          # hi, hi-1, ..., lo+1
    else:
      rng_ = [lo, hi, 1]
    acc = ["rd", path, t]
    kind = c.choice(["shift", "shift", "cast", "tmp"])
    cw = max(1, hi.bit_length())
    if kind == "shift":
      term = ["shift", c.choice(["shr", "shl"]), ["rd", a.path, t], ["lv", "i"]]
      body = [["assign", path, ["bin", c.choice(["xor", "add", "or"]), acc, term]]]
    elif kind == "cast":
      if cw > t:
        return None
      term = ["cast", t, ["lv", "i"]]
      body = [["assign", path, ["bin", c.choice(["add", "xor"]), acc, ["bin", "and", ["rd", a.path, t], term]]]]
    else:
      name = "t%d" % self.ntmp
      self.ntmp += 1
      if cw > t:
        return None
      body = [["tmp", name, ["cast", t, ["lv", "i"]]],
              ["assign", path, ["bin", "add", acc, ["bin", "xor", ["tmpv", name, t], ["rd", a.path, t]]]]]
    name = "up%d" % self.nblk
    self.nblk += 1
    return {"k": "comb", "name": name,
            "stmts": [["assign", path, self.const(t)], ["for", "i", rng_[0], rng_[1], rng_[2], body]]}

  # ---- the main construction ------------------------------------------
  def build(self):
    c, P = self.c, self.P
    spec = self.spec
    self.declare()
    S = []
    # inputs readable from the start
    for sg in self.signals:
      if sg["kind"] == "in":
        for p in self.sig_elems([], sg):
          self.add_atoms_for(p, sg["type"], True, None)
    # targets: own outs / wires, children's in ports
    targets = []   # (path, type, host-kind)
    # a struct wire that is only a connected COPY of another struct signal of this component (the source
    # itself is typically driven piece by piece: fields, slices of fields)
    self.copy_of = None
    cands = [sg for sg in self.signals if sg["kind"] in ("out", "wire") and isinstance(sg["type"], str) and not sg["dims"]]
    if cands and c.random() < 0.3 and getattr(self, "fixed_ports", None) is None:
      src = c.choice(cands)
      self.signals.append({"name": "wcp0", "kind": "wire", "type": src["type"], "dims": []})
      self.copy_of = ("wcp0", src["name"])
    for sg in self.signals:
      if sg["kind"] in ("out", "wire") and sg["name"] != "wcp0":
        for p in self.sig_elems([], sg):
          targets.append((p, sg["type"], None))
    child_insts = []
    for sb in self.subs:
      cd = spec["comps"][sb["cls"]]
      bases = [[["a", sb["name"]]] + [["i", i] for i in idx] for idx in itertools.product(*[range(d) for d in sb["dims"]])]
      for base in bases:
        key = repr(base)
        child_insts.append((key, base, cd))
        self.pending_child[key] = 0
        for sg in cd["signals"]:
          if sg["kind"] == "in":
            for p in self.sig_elems(base, sg):
              targets.append((p, sg["type"], key))
    # registers
    regs = []
    rest = []
    for (p, t, key) in targets:
      if c.random() < P["p_reg"]:
        regs.append((p, t, key))
        self.add_atoms_for(p, t, key is None, None)   # child in-ports are not connect sources
      else:
        rest.append((p, t, key))
    # delay-line idiom: a whole register list written by ONE block, element 0 by constant index and the
    # rest through the loop variable (the same list written through a narrower and a broader name)
    delay_lines = []
    for sg in self.signals:
      if sg["kind"] in ("out", "wire") and sg["dims"] and sg["dims"][0] >= 2 and isinstance(sg["type"], int):
        elems = [r_ for r_ in regs if len(r_[0]) == 2 and r_[0][0] == ["a", sg["name"]]]
        if len(elems) == sg["dims"][0] and c.random() < 0.5:
          regs = [r_ for r_ in regs if not any(r_ is e_ for e_ in elems)]
          delay_lines.append(sg)
    # child outputs become readable once all non-register in-port pieces of the child are driven
    pieces = []
    for (p, t, key) in rest:
      ps = self.split_target(p, t)
      for (pp, pt) in ps:
        pieces.append({"path": pp, "t": pt, "key": key, "whole": (p, t), "n": len(ps)})
      if key is not None:
        self.pending_child[key] += len(ps)
    whole_left = {}
    for pc in pieces:
      whole_left[repr(pc["whole"][0])] = pc["n"]

    def release_children():
      for key, base, cd in child_insts:
        if self.pending_child.get(key) == 0:
          self.pending_child[key] = -1
          for sg in cd["signals"]:
            if sg["kind"] == "out":
              for p in self.sig_elems(base, sg):
                self.add_atoms_for(p, sg["type"], True, None)

    release_children()
    c.shuffle(pieces)

    def done(pc):
      # piece readable; whole readable when all pieces done
      conn = pc["key"] is None
      wp, wt = pc["whole"]
      if pc["n"] == 1:
        self.add_atoms_for(pc["path"], pc["t"], conn, None)
      else:
        self.add_atoms_for(pc["path"], pc["t"], conn, None)
        whole_left[repr(wp)] -= 1
        if whole_left[repr(wp)] == 0:
          self.atoms.append(Atom(wp, tbits(spec, wt), wt, conn, None))
      if pc["key"] is not None:
        self.pending_child[pc["key"]] -= 1
        release_children()

    i = 0
    while i < len(pieces):
      pc = pieces[i]
      r = c.random()
      made = False
      w = tbits(spec, pc["t"])
      if r < P["p_connect"]:
        srcs = [a for a in self.atoms if a.conn and a.t == pc["t"]] if isinstance(pc["t"], str) else \
               [a for a in self.atoms if a.conn and a.w == w and isinstance(a.t, int)]
        rr = c.random()
        if srcs and rr < 0.7:
          a = c.choice(srcs)
          # fan-out bias: reuse the previous connect source so that nets get several members
          used = getattr(self, "used_srcs", [])
          again = [x for x in srcs if any(x is u for u in used)]
          if again and c.random() < 0.5:
            a = c.choice(again)
          used.append(a)
          self.used_srcs = used
          self.items.append({"k": "connect", "a": pc["path"], "b": a.path, "flip": c.random() < 0.5,
                             "op": self.conn_op(pc)})
          made = True
        elif isinstance(pc["t"], int) and rr < 0.8:
          wide = [a for a in self.atoms if a.conn and isinstance(a.t, int) and a.w > w and a.path[-1][0] in ("a", "i")]
          if wide:
            a = c.choice(wide)
            lo = c.randint(0, a.w - w)
            it = {"k": "connect", "a": pc["path"], "b": a.path + [["s", lo, lo + w]],
                  "flip": c.random() < 0.5, "op": self.conn_op(pc)}
            if c.random() < 0.4:
              olo = c.randint(0, lo)
              ohi = c.randint(lo + w, a.w)
              if (olo, ohi) != (lo, lo + w):
                it["bnest"] = [olo, ohi]
            self.items.append(it)
            made = True
        elif isinstance(pc["t"], int):
          v = c.getrandbits(w) if c.random() < 0.7 else 0
          cw = None if (c.random() < 0.5) else w
          self.items.append({"k": "connect", "a": pc["path"], "b": {"const": v, "w": cw},
                             "flip": c.random() < 0.3, "op": self.conn_op(pc)})
          made = True
      elif r < P["p_connect"] + P["p_lambda"] and isinstance(pc["t"], int) and \
           floordiv_ok(pc["path"], len(pc["whole"][0])):
        e = self.expr(w, 2, {"nofunc": True})
        # a lambda that never mentions `s` has no closure for the generated block (NameError in pymtl3)
        if any(x[0] == "rd" for x in walk_exprs(e)):
          self.items.append({"k": "lambda", "t": pc["path"], "e": e})
          made = True
      elif r < P["p_connect"] + P["p_lambda"] + P["p_for"] * 0.5 and pc["n"] == 1:
        it = self.gen_for_block(pc["path"], pc["t"]) if c.random() < 0.5 else self.gen_accum_loop(pc["path"], pc["t"])
        if it is not None:
          self.items.append(it)
          made = True
      if made:
        done(pc)
        i += 1
        continue
      # combinational block over 1..k pieces
      k = c.randint(1, P["max_block_targets"])
      group = pieces[i:i + k]
      it = self.gen_comb_block([(g["path"], g["t"]) for g in group])
      if it is None:
        # fall back: constant / same-type copy
        group = [pc]
        st = self.default_stmt(pc["path"], pc["t"])
        if st is None:
          # struct with list field and nothing to copy from: drive leaf by leaf
          st_list = self.leafwise_default(pc["path"], pc["t"])
          it = {"k": "comb", "name": "up%d" % self.nblk, "stmts": st_list}
        else:
          it = {"k": "comb", "name": "up%d" % self.nblk, "stmts": [st]}
        self.nblk += 1
      self.items.append(it)
      for g in group:
        done(g)
      i += len(group)

    # flip-flop blocks
    c.shuffle(regs)
    j = 0
    nff = 0
    for sg in delay_lines:
      n, t, nm = sg["dims"][0], sg["type"], sg["name"]
      e = self.value_expr(t, 2, {"tmps": {}})
      if e is None:
        e = self.const(t)
      head = ["assign", [["a", nm], ["i", 0]], e]
      loop = ["for", "i", 1, n, 1, [["assign", [["a", nm], ["vi", ["lv", "i"]]],
                                     ["rd", [["a", nm], ["vi", ["bin", "sub", ["lv", "i"], ["int", 1]]]], t]]]]
      stmts = [head, loop] if c.random() < 0.6 else [loop, head]
      if c.random() < P["p_reset_in_ff"]:
        stmts = [["if", ["rd", [["a", "reset"]], 1],
                  [["for", "i", 0, n, 1, [["assign", [["a", nm], ["vi", ["lv", "i"]]], ["int", 0]]]]], stmts]]
      self.items.append({"k": "ff", "name": "ffd%d" % nff, "stmts": stmts})
      nff += 1
    while j < len(regs):
      k = c.randint(1, 3)
      group = regs[j:j + k]
      j += k
      stmts = []
      env = {"tmps": {}}
      body = []
      if c.random() < P["p_tmp"]:
        # temporaries in a sequential block are blocking: later statements see the new value
        for _ in range(c.randint(1, 2)):
          w = c.choice(WIDTHS[:14])
          name = "t%d" % self.ntmp
          self.ntmp += 1
          st = ["tmp", name, self.expr(w, 2, env)]
          env["tmps"][name] = w
          if c.random() < 0.35:
            st.append([name + "b"])
            env["tmps"][name + "b"] = w
          body.append(st)
      if c.random() < P.get("p_tmp_patch", 0.2):
        body.extend(self.tmp_copy_and_patch(env))
      for (p, t, key) in group:
        e = self.value_expr(t, P["expr_depth"], env)
        if e is None:
          e_st = self.default_stmt(p, t)
          if e_st is None:
            continue
          body.append(e_st)
          continue
        r = c.random()
        if r < 0.12:
          # default, then hold-override by self-assignment: the LAST executed assignment wins
          me = ["rd", p, tbits(self.spec, t)] + ([t] if isinstance(t, str) else [])
          body.append(["assign", p, e])
          body.append(["if", self.expr(1, 2, env), [["assign", p, me]], []])
        elif r < 0.35:
          body.append(["if", self.expr(1, 2, env), [["assign", p, e]], []])       # hold otherwise
        elif r < 0.5:
          e0 = self.value_expr(t, 1, env)
          if e0 is not None:
            body.append(["assign", p, e0])                                          # overwritten below
          body.append(["assign", p, e])
        else:
          body.append(["assign", p, e])
      if c.random() < P["p_reset_in_ff"]:
        rst = []
        for (p, t, key) in group:
          if isinstance(t, int):
            rst.append(["assign", p, ["int", 0] if c.random() < 0.6 else self.const(t)])
        if rst:
          stmts.append(["if", ["rd", [["a", "reset"]], 1], rst, body])
        else:
          stmts = body
      else:
        stmts = body
      if stmts:
        self.items.append({"k": "ff", "name": "ff%d" % nff, "stmts": stmts})
        nff += 1
      else:
        # could not build a value: registers hold their default forever
        self.items.append({"k": "ff", "name": "ff%d" % nff, "stmts": []})
        nff += 1
    if self.copy_of:
      self.items.append({"k": "connect", "a": [["a", self.copy_of[0]]], "b": [["a", self.copy_of[1]]],
                         "flip": c.random() < 0.5, "op": "connect"})
    # seeded source order of the items (order.stmt)
    c.shuffle(self.items)
    return {"signals": self.signals, "subs": self.subs, "frees": self.frees, "items": self.items,
            "funcs": self.funcs}

  def leafwise_default(self, path, t):
    out = []
    for fname, ft, lo, fw in field_layout(self.spec, t):
      fp = path + [["a", fname]]
      if isinstance(ft, list):
        for i in range(ft[2]):
          if isinstance(ft[1], str):
            out.extend(self.leafwise_default(fp + [["i", i]], ft[1]))
          else:
            out.append(["assign", fp + [["i", i]], self.const(ft[1])])
      elif isinstance(ft, str):
        out.extend(self.leafwise_default(fp, ft))
      else:
        out.append(["assign", fp, self.const(ft)])
    return out


def add_variants(spec, c, P, nvar=2):
  """C15: for every non-top class add `nvar` classes with the same ports and different insides.
  -> {class name: [variant names]}"""
  out = {}
  G = DesignGen(c, P, uid=spec["uid"])
  G.spec = spec
  for cname in [n for n in list(spec["comps"]) if n != spec["top"]]:
    cd = spec["comps"][cname]
    ports = [sg for sg in cd["signals"] if sg["kind"] in ("in", "out")]
    kids = sorted({sb["cls"] for sb in cd["subs"]})
    out[cname] = []
    for v in range(nvar):
      vname = "%sv%d" % (cname, v)
      small = dict(G.P, n_wire=(0, 4))
      saveP = G.P
      G.P = small
      cg = CompGen(G, vname, False, kids if c.random() < 0.6 else [])
      cg.fixed_ports = ports
      newcd = cg.build()
      G.P = saveP
      # explicit, non-inverting constraints between blocks in creation order
      blks = sorted([it["name"] for it in newcd["items"] if it["k"] == "comb"],
                    key=lambda n: int(n[2:]) if n[2:].isdigit() else 0)
      cons = []
      if len(blks) >= 2 and c.random() < 0.7:
        a, b = sorted(c.sample(range(len(blks)), 2))
        cons.append("U(%s) < U(%s)" % (blks[a], blks[b]))
      for it in newcd["items"]:
        if it["k"] == "comb" and c.random() < 0.3:
          tgt = [st for st in it["stmts"] if st[0] == "assign" and len(st[1]) == 1]
          if tgt:
            cons.append("WR(s.%s) < U(%s)" % (tgt[0][1][0][1], it["name"]) if False else
                        "RD(s.%s) > U(%s)" % (tgt[0][1][0][1], it["name"]))
      # WR(x) > U(earlier block): the earlier block runs before x's writer (creation order, no cycle)
      combs = [it for it in newcd["items"] if it["k"] == "comb"]
      for it in combs:
        if c.random() < 0.3:
          tgt = [st for st in it["stmts"] if st[0] == "assign" and len(st[1]) == 1]
          me = int(it["name"][2:]) if it["name"][2:].isdigit() else 0
          earlier = [b for b in blks if b[2:].isdigit() and int(b[2:]) < me]
          if tgt and earlier:
            cons.append("WR(s.%s) > U(%s)" % (tgt[0][1][0][1], c.choice(earlier)))
      if cons:
        newcd["items"].append({"k": "constraint", "src": ", ".join(dict.fromkeys(cons))})
      # insert before the top (dict order = definition order; variants only use earlier classes)
      spec["comps"][vname] = newcd
      out[cname].append(vname)
  # keep the top last
  top = spec["comps"].pop(spec["top"])
  spec["comps"][spec["top"]] = top
  return out


class DesignGen:
  def __init__(self, rng, prof="acyclic", uid="x"):
    self.c = rng
    self.P = profile(prof) if isinstance(prof, str) else prof
    self.spec = {"uid": uid, "structs": {}, "comps": {}, "top": "Top", "profile": self.P.get("name", "")}

  def gen_structs(self):
    c = self.c
    n = c.randint(*self.P["n_structs"])
    for i in range(n):
      fields = []
      total = 0
      pool = ["f0", "f1", "f2", "f3"] if c.random() < 0.4 else c.sample(["f0", "f1", "f2", "f3", "a", "zz", "m", "d9", "b"], 4)
      for j in range(c.randint(2, 4)):
        r = c.random()
        if r < 0.3 and i > 0:
          ft = "S%d" % c.randrange(i)
        elif r < 0.35:
          ft = ["arr", c.choice([1, 3, 4, 8]), c.choice([2, 3])]
        else:
          ft = c.choice(WIDTHS[:14])
        # some field names are string prefixes of a sibling's name (f1 / f1x): name-based bookkeeping
        # in the SCC variable list and in name tables must still tell them apart
        # declaration order is NOT alphabetical order in general (layout follows declaration order)
        name = pool[j]
        if j >= 1 and c.random() < 0.3:
          name = fields[-1][0] + "x"
        fields.append([name, ft])
      self.spec["structs"]["S%d" % i] = fields

  def gen(self):
    c, P = self.c, self.P
    self.gen_structs()
    ncls = c.randint(*P["n_child_classes"])
    classes = []
    for i in range(ncls):
      name = "C%d" % i
      kids = []
      if classes and P["depth"] >= 2 and c.random() < 0.4:
        kids = [c.choice(classes)]
      small = dict(P, n_in=(1, 3), n_out=(1, 2), n_wire=(0, 3))
      saveP = self.P
      self.P = small
      cg = CompGen(self, name, False, kids)
      self.spec["comps"][name] = cg.build()
      self.P = saveP
      classes.append(name)
    kids = []
    for name in classes:
      # every generated class is instantiated somewhere; top takes those unused
      used = any(sb["cls"] == name for cd in self.spec["comps"].values() for sb in cd["subs"])
      if not used or c.random() < 0.3:
        kids.append(name)
    cg = CompGen(self, "Top", True, kids)
    self.spec["comps"]["Top"] = cg.build()
    return self.spec


def gen_inputs(spec, rng, ncycles, p_reset=0.0):
  """Seeded input sequence for the top-level in ports: list of
  {"in": {key: value}, "reset": 0/1, "glitch": {key: [v..]}, "dup_eval": n}."""
  top = spec["comps"][spec["top"]]
  ports = []
  for sg in top["signals"]:
    if sg["kind"] == "in":
      w = tbits(spec, sg["type"])
      if sg["dims"]:
        for i in range(sg["dims"][0]):
          ports.append(("s.%s[%d]" % (sg["name"], i), w))
      else:
        ports.append(("s.%s" % sg["name"], w))
  seq = []
  prev = {k: 0 for k, _ in ports}
  seen = {k: [0] for k, _ in ports}
  for t in range(ncycles):
    vals = {}
    for k, w in ports:
      r = rng.random()
      if r < 0.12:
        v = 0
      elif r < 0.24:
        v = (1 << w) - 1
      elif r < 0.40:
        v = prev[k]
      elif r < 0.50:
        v = rng.choice(seen[k])
      elif r < 0.60:
        v = rng.getrandbits(min(w, 3))
      else:
        v = rng.getrandbits(w)
      vals[k] = v
      prev[k] = v
      if len(seen[k]) < 8:
        seen[k].append(v)
    st = {"in": vals, "reset": 1 if rng.random() < p_reset else 0}
    seq.append(st)
  return seq
