"""Emit real PyMTL source for a DesignSpec, exec it under a unique file name
registered in linecache (inspect.getsourcelines must work for update blocks),
and return fresh classes."""
import linecache

from .spec import type_name

_counter = [0]


def r_path(path, base="s"):
  out = [base]
  for st in path:
    k = st[0]
    if k == "a":
      out.append("." + st[1])
    elif k in ("i", "b"):
      out.append("[%d]" % st[1])
    elif k == "s":
      out.append("[%d:%d]" % (st[1], st[2]))
    elif k in ("vi", "vb"):
      out.append("[%s]" % r_expr(st[1]))
    else:
      raise ValueError(st)
  return "".join(out)


_BIN = {"add": "+", "sub": "-", "mul": "*", "and": "&", "or": "|", "xor": "^"}
_SH = {"shl": "<<", "shr": ">>"}
_CMP = {"eq": "==", "ne": "!=", "lt": "<", "le": "<=", "gt": ">", "ge": ">="}
_UID = [""]


def r_expr(e):
  k = e[0]
  if k == "const":
    return "Bits%d(%d)" % (e[1], e[2])
  if k == "int":
    return str(e[1])
  if k == "rd":
    return r_path(e[1])
  if k == "tmpv":
    return e[1]
  if k == "lv":
    return e[1]
  if k == "free":
    return e[1]
  if k == "bin":
    return "(%s %s %s)" % (r_expr(e[2]), _BIN[e[1]], r_expr(e[3]))
  if k == "shift":
    return "(%s %s %s)" % (r_expr(e[2]), _SH[e[1]], r_expr(e[3]))
  if k == "inv":
    return "(~%s)" % r_expr(e[1])
  if k == "cmp":
    return "(%s %s %s)" % (r_expr(e[2]), _CMP[e[1]], r_expr(e[3]))
  if k == "ife":
    return "(%s if %s else %s)" % (r_expr(e[2]), r_expr(e[1]), r_expr(e[3]))
  if k in ("zext", "sext", "trunc"):
    return "%s(%s, %d)" % (k, r_expr(e[1]), e[2])
  if k == "concat":
    return "concat(%s)" % ", ".join(r_expr(x) for x in e[1])
  if k == "red":
    return "reduce_%s(%s)" % (e[1], r_expr(e[2]))
  if k == "cast":
    return "Bits%d(%s)" % (e[1], r_expr(e[2]))
  if k == "mkstruct":
    return "%s_%s(%s)" % (e[1], _UID[0], ", ".join(r_expr(x) for x in e[2]))
  if k == "fcall":
    return "%s(%s)" % (e[1], ", ".join(r_expr(x) for x in e[2]))
  if k == "param":
    return e[1]
  if k == "vslice":
    b = r_expr(e[2])
    return "%s[%s : %s + %d]" % (r_path(e[1]), b, b, e[3])
  raise ValueError(e)


def r_stmts(stmts, op, ind, out):
  if not stmts:
    out.append(" " * ind + "pass")
  for st in stmts:
    k = st[0]
    if k == "assign":
      # an optional 4th element overrides the assignment operator (C09 defect injection)
      out.append("%s%s %s %s" % (" " * ind, r_path(st[1]), st[3] if len(st) > 3 else op, r_expr(st[2])))
    elif k == "tmpset":
      out.append("%s%s[%d:%d] = %s" % (" " * ind, st[1], st[2], st[3], r_expr(st[4])))
    elif k == "call":
      out.append("%s%s(%s)" % (" " * ind, st[1], ", ".join(r_expr(x) for x in (st[2] if len(st) > 2 else []))))
    elif k == "tmp":
      # optional 4th element: more names of a chained assignment (a = b = expr)
      out.append("%s%s = %s" % (" " * ind, " = ".join([st[1]] + list(st[3] if len(st) > 3 else [])), r_expr(st[2])))
    elif k == "if":
      out.append("%sif %s:" % (" " * ind, r_expr(st[1])))
      r_stmts(st[2], op, ind + 2, out)
      if st[3]:
        out.append("%selse:" % (" " * ind))
        r_stmts(st[3], op, ind + 2, out)
    elif k == "for":
      if st[4] == 1:
        out.append("%sfor %s in range(%d, %d):" % (" " * ind, st[1], st[2], st[3]))
      else:
        out.append("%sfor %s in range(%d, %d, %d):" % (" " * ind, st[1], st[2], st[3], st[4]))
      r_stmts(st[5], op, ind + 2, out)
    else:
      raise ValueError(st)


def r_sigtype(t, uid):
  return type_name(t, uid)


def r_ftype(t, uid):
  if isinstance(t, list) and t[0] == "arr":
    return "[%s]*%d" % (r_ftype(t[1], uid), t[2]) if not (isinstance(t[1], list)) else \
           "[%s for _ in range(%d)]" % (r_ftype(t[1], uid), t[2])
  return type_name(t, uid)


def source(spec):
  uid = spec["uid"]
  _UID[0] = uid
  L = ["from pymtl3 import *", ""]
  for sname, fields in spec["structs"].items():
    L.append("%s_%s = mk_bitstruct('%s_%s', {%s})" % (
      sname, uid, sname, uid,
      ", ".join("'%s': %s" % (f, r_ftype(ft, uid)) for f, ft in fields)))
  L.append("")
  for cname, cd in spec["comps"].items():
    L.append("class %s_%s(Component):" % (cname, uid))
    L.append("  def construct(s):")
    body = []
    for sg in cd["signals"]:
      ctor = {"in": "InPort", "out": "OutPort", "wire": "Wire"}[sg["kind"]]
      t = r_sigtype(sg["type"], uid)
      if sg["dims"]:
        body.append("s.%s = [%s(%s) for _ in range(%d)]" % (sg["name"], ctor, t, sg["dims"][0]))
      else:
        body.append("s.%s = %s(%s)" % (sg["name"], ctor, t))
    for sb in cd["subs"]:
      if sb["dims"] and sb.get("cls_list"):
        # cls_list is flat (row-major) for lists of lists
        def lit(flat, dims):
          if len(dims) == 1:
            return "[%s]" % ", ".join("%s_%s()" % (cn, uid) for cn in flat)
          step = len(flat) // dims[0]
          return "[%s]" % ", ".join(lit(flat[i * step:(i + 1) * step], dims[1:]) for i in range(dims[0]))
        body.append("s.%s = %s" % (sb["name"], lit(list(sb["cls_list"]), sb["dims"])))
      elif sb["dims"]:
        inner = "%s_%s()" % (sb["cls"], uid)
        for d in reversed(sb["dims"]):
          inner = "[%s for _ in range(%d)]" % (inner, d)
        body.append("s.%s = %s" % (sb["name"], inner))
      else:
        body.append("s.%s = %s_%s()" % (sb["name"], sb["cls"], uid))
    for fr in cd.get("frees", []):
      if fr["kind"] == "int":
        body.append("%s = %d" % (fr["name"], fr["v"]))
      else:
        body.append("%s = Bits%d(%d)" % (fr["name"], fr["w"], fr["v"]))
    for fn in cd.get("funcs", []):
      body.append("@s.func")
      body.append("def %s(%s):" % (fn["name"], ", ".join(p[0] for p in fn["params"])))
      if fn.get("stmts"):          # helpers that write signals (C09 injections): statements, then the return
        sub = []
        r_stmts(fn["stmts"], "@=", 2, sub)
        body.extend(sub)
      if fn.get("ret") is not None:
        body.append("  return %s" % r_expr(fn["ret"]))
    for it in [x for x in cd["items"] if x["k"] != "constraint"] + [x for x in cd["items"] if x["k"] == "constraint"]:
      k = it["k"]
      if k == "connect":
        a = r_path(it["a"])
        b = it["b"]
        if isinstance(b, dict):
          bs = str(b["const"]) if b.get("w") is None else "Bits%d(%d)" % (b["w"], b["const"])
        else:
          bs = r_path(b)
          nest = it.get("bnest")
          if nest and b[-1][0] == "s":
            # slice of a slice: s.x[olo:ohi][lo-olo:hi-olo] names the same bits as s.x[lo:hi]
            olo, ohi = nest
            lo, hi = b[-1][1], b[-1][2]
            bs = "%s[%d:%d][%d:%d]" % (r_path(b[:-1]), olo, ohi, lo - olo, hi - olo)
        if it.get("flip") and not isinstance(b, dict):
          a, bs = bs, a
        if it.get("op", "connect") == "//=" and not it.get("flip"):
          body.append("%s //= %s" % (a, bs))
        else:
          body.append("connect(%s, %s)" % (a, bs))
      elif k in ("comb", "ff"):
        body.append("@update" if k == "comb" else "@update_ff")
        body.append("def %s():" % it["name"])
        sub = []
        r_stmts(it["stmts"], "@=" if k == "comb" else "<<=", 2, sub)
        body.extend(sub)
      elif k == "lambda":
        body.append("%s //= lambda: %s" % (r_path(it["t"]), r_expr(it["e"])))
      elif k == "constraint":
        body.append("s.add_constraints(%s)" % it["src"])
      elif k == "raw":
        body.extend(it["src"])
      else:
        raise ValueError(it)
    if not body:
      body.append("pass")
    L.extend("    " + b for b in body)
    L.append("")
  text = "\n".join(L) + "\n"
  import re
  import pymtl3
  extra = sorted({int(m) for m in re.findall(r"\bBits(\d+)\b", text)
                  if not hasattr(pymtl3, "Bits" + m)})
  if extra:
    text = text.replace("from pymtl3 import *\n", "from pymtl3 import *\n" +
                        "".join("Bits%d = mk_bits(%d)\n" % (n, n) for n in extra), 1)
  return text


_live = []
_uid_count = {}


def build(spec, src=None):
  """exec the source; returns (namespace, top_class, source_text).  The code
  lives in a registered module with a __file__ that linecache knows, so that
  inspect.getsourcelines / getsourcefile work for blocks and classes."""
  import sys
  import types
  src = src if src is not None else source(spec)
  # the name is a function of (uid, how often this uid was built): independent of what ran
  # earlier in this process (file names end up in translated text and error messages)
  k = _uid_count[spec["uid"]] = _uid_count.get(spec["uid"], 0) + 1
  if len(_uid_count) > 64:
    for old_uid in list(_uid_count)[:32]:
      if old_uid != spec["uid"]:
        del _uid_count[old_uid]
  fname = "<dsim-%s-%d>" % (spec["uid"], k)
  modname = "dsim_generated_%s_%d" % (spec["uid"], k)
  mod = types.ModuleType(modname)
  mod.__file__ = fname
  sys.modules[modname] = mod
  _live.append((modname, fname))
  while len(_live) > 12:
    old_mod, old_file = _live.pop(0)
    sys.modules.pop(old_mod, None)
    linecache.cache.pop(old_file, None)
  ns = mod.__dict__
  lines = src.splitlines(True)
  linecache.cache[fname] = (len(src), None, lines, fname)
  exec(compile(src, fname, "exec"), ns)
  return ns, ns["%s_%s" % (spec["top"], spec["uid"])], src
