"""Hand-shaped DesignSpec families that concentrate on one mechanism."""


def rd(path, w, t=None):
  return ["rd", path, w] if t is None else ["rd", path, w, t]


def A(name, *more):
  return [["a", name]] + list(more)


def ff_ring(c, uid):
  """k registers in k (or fewer) update_ff blocks with cross reads: swap rings,
  shift chains written in reverse, conditional hold, several assignments to one
  register, struct-typed and list registers, registers forwarded through nets."""
  k = c.randint(2, 8)
  w = c.choice([1, 3, 8, 16, 33])
  use_struct = c.random() < 0.3
  use_list = (not use_struct) and c.random() < 0.4
  structs = {}
  t = w
  if use_struct:
    structs["S0"] = [["f0", w], ["f1", c.choice([1, 4, 8])]]
    t = "S0"
  tb = w if not use_struct else w + structs["S0"][1][1]
  signals = [{"name": "in0", "kind": "in", "type": t, "dims": []},
             {"name": "sel", "kind": "in", "type": 1, "dims": []},
             {"name": "idx", "kind": "in", "type": 2, "dims": []}]
  if use_list:
    k = 4
    signals.append({"name": "r", "kind": "wire", "type": t, "dims": [k]})
    reg = lambda i: A("r", ["i", i])
  else:
    for i in range(k):
      signals.append({"name": "r%d" % i, "kind": "wire", "type": t, "dims": []})
    reg = lambda i: A("r%d" % i)
  signals.append({"name": "o0", "kind": "out", "type": t, "dims": []})
  signals.append({"name": "o1", "kind": "out", "type": t, "dims": []})
  items = []
  R = lambda i: rd(reg(i), tb, t if use_struct else None)
  # register i takes register (i+1)%k, register k-1 takes the input (shift) or register 0 (ring)
  shape = c.choice(["ring", "chain", "swap"])
  srcs = {}
  for i in range(k):
    if shape == "ring":
      srcs[i] = R((i + 1) % k)
    elif shape == "chain":
      srcs[i] = R(i - 1) if i > 0 else rd(A("in0"), tb, t if use_struct else None)
    else:
      srcs[i] = R(i ^ 1) if (i ^ 1) < k else rd(A("in0"), tb, t if use_struct else None)
  order = list(range(k))
  # group registers into blocks
  c.shuffle(order)
  groups = []
  j = 0
  var_write = use_list and c.random() < 0.5
  if var_write:          # a variable-index write counts as writing every element: one block only
    groups = [order]
    j = k
  while j < k:
    n = c.randint(1, 3)
    groups.append(order[j:j + n])
    j += n
  for gi, g in enumerate(groups):
    # within a block write in reverse index order half of the time (chain written backwards)
    g = sorted(g, reverse=c.random() < 0.5)
    stmts = []
    for i in g:
      r = c.random()
      if shape == "ring" and i == k - 1:
        # inject the input so that the ring is not constant
        stmts.append(["if", rd(A("sel"), 1),
                      [["assign", reg(i), rd(A("in0"), tb, t if use_struct else None)]],
                      [["assign", reg(i), srcs[i]]]])
      elif r < 0.25:
        stmts.append(["if", rd(A("sel"), 1), [["assign", reg(i), srcs[i]]], []])          # hold
      elif r < 0.45 and not use_struct:
        stmts.append(["assign", reg(i), ["const", w, c.getrandbits(w)]])                  # overwritten
        stmts.append(["assign", reg(i), srcs[i]])
      else:
        stmts.append(["assign", reg(i), srcs[i]])
    if var_write:
      # variable-index write on top of the constant-index ones (last assignment wins)
      stmts.append(["assign", A("r", ["vi", rd(A("idx"), 2)]), rd(A("in0"), tb, t if use_struct else None)])
    if c.random() < 0.4 and not use_struct:
      stmts = [["if", rd(A("reset"), 1), [["assign", reg(i), ["int", 0]] for i in g], stmts]]
    items.append({"k": "ff", "name": "ff%d" % gi, "stmts": stmts})
  # outputs: one through a net, one through a combinational reader
  items.append({"k": "connect", "a": A("o0"), "b": reg(0), "flip": c.random() < 0.5, "op": "connect"})
  if use_struct:
    items.append({"k": "comb", "name": "upo", "stmts": [["assign", A("o1"), R(k - 1)]]})
  else:
    items.append({"k": "comb", "name": "upo", "stmts": [
      ["assign", A("o1"), ["bin", "xor", R(k - 1), R(0)]]]})
  c.shuffle(items)
  spec = {"uid": uid, "structs": structs, "top": "Top", "profile": "ff_ring",
          "comps": {"Top": {"signals": signals, "subs": [], "frees": [], "items": items}}}
  return spec
