"""Hand-shaped DesignSpec families that concentrate on one mechanism."""


def rd(path, w, t=None):
  return ["rd", path, w] if t is None else ["rd", path, w, t]


def A(name, *more):
  return [["a", name]] + list(more)


def ff_ring(c, uid):
  """k registers in k (or fewer) update_ff blocks with cross reads: swap rings,
  shift chains written in reverse, conditional hold, several assignments to one
  register, struct-typed and list registers, registers forwarded through nets."""
  k = c.randint(2, 8)
  w = c.choice([1, 3, 8, 16, 33])
  use_struct = c.random() < 0.3
  use_list = (not use_struct) and c.random() < 0.4
  structs = {}
  t = w
  if use_struct:
    structs["S0"] = [["f0", w], ["f1", c.choice([1, 4, 8])]]
    t = "S0"
  tb = w if not use_struct else w + structs["S0"][1][1]
  signals = [{"name": "in0", "kind": "in", "type": t, "dims": []},
             {"name": "sel", "kind": "in", "type": 1, "dims": []},
             {"name": "idx", "kind": "in", "type": 2, "dims": []}]
  if use_list:
    k = 4
    signals.append({"name": "r", "kind": "wire", "type": t, "dims": [k]})
    reg = lambda i: A("r", ["i", i])
  else:
    for i in range(k):
      signals.append({"name": "r%d" % i, "kind": "wire", "type": t, "dims": []})
    reg = lambda i: A("r%d" % i)
  signals.append({"name": "o0", "kind": "out", "type": t, "dims": []})
  signals.append({"name": "o1", "kind": "out", "type": t, "dims": []})
  items = []
  R = lambda i: rd(reg(i), tb, t if use_struct else None)
  # register i takes register (i+1)%k, register k-1 takes the input (shift) or register 0 (ring)
  shape = c.choice(["ring", "chain", "swap"])
  srcs = {}
  for i in range(k):
    if shape == "ring":
      srcs[i] = R((i + 1) % k)
    elif shape == "chain":
      srcs[i] = R(i - 1) if i > 0 else rd(A("in0"), tb, t if use_struct else None)
    else:
      srcs[i] = R(i ^ 1) if (i ^ 1) < k else rd(A("in0"), tb, t if use_struct else None)
  order = list(range(k))
  # group registers into blocks
  c.shuffle(order)
  groups = []
  j = 0
  var_write = use_list and c.random() < 0.5
  if var_write:          # a variable-index write counts as writing every element: one block only
    groups = [order]
    j = k
  while j < k:
    n = c.randint(1, 3)
    groups.append(order[j:j + n])
    j += n
  for gi, g in enumerate(groups):
    # within a block write in reverse index order half of the time (chain written backwards)
    g = sorted(g, reverse=c.random() < 0.5)
    stmts = []
    for i in g:
      r = c.random()
      if shape == "ring" and i == k - 1:
        # inject the input so that the ring is not constant
        stmts.append(["if", rd(A("sel"), 1),
                      [["assign", reg(i), rd(A("in0"), tb, t if use_struct else None)]],
                      [["assign", reg(i), srcs[i]]]])
      elif r < 0.15:
        # default, then hold-override by self-assignment (last executed assignment wins)
        stmts.append(["assign", reg(i), srcs[i]])
        stmts.append(["if", rd(A("sel"), 1), [["assign", reg(i), R(i)]], []])
      elif r < 0.30:
        stmts.append(["if", rd(A("sel"), 1), [["assign", reg(i), srcs[i]]], []])          # hold
      elif r < 0.45 and not use_struct:
        stmts.append(["assign", reg(i), ["const", w, c.getrandbits(w)]])                  # overwritten
        stmts.append(["assign", reg(i), srcs[i]])
      else:
        stmts.append(["assign", reg(i), srcs[i]])
    if var_write:
      # variable-index write on top of the constant-index ones (last assignment wins)
      stmts.append(["assign", A("r", ["vi", rd(A("idx"), 2)]), rd(A("in0"), tb, t if use_struct else None)])
    if c.random() < 0.4 and not use_struct:
      stmts = [["if", rd(A("reset"), 1), [["assign", reg(i), ["int", 0]] for i in g], stmts]]
    items.append({"k": "ff", "name": "ff%d" % gi, "stmts": stmts})
  # outputs: one through a net, one through a combinational reader
  items.append({"k": "connect", "a": A("o0"), "b": reg(0), "flip": c.random() < 0.5, "op": "connect"})
  if use_struct:
    items.append({"k": "comb", "name": "upo", "stmts": [["assign", A("o1"), R(k - 1)]]})
  else:
    items.append({"k": "comb", "name": "upo", "stmts": [
      ["assign", A("o1"), ["bin", "xor", R(k - 1), R(0)]]]})
  c.shuffle(items)
  spec = {"uid": uid, "structs": structs, "top": "Top", "profile": "ff_ring",
          "comps": {"Top": {"signals": signals, "subs": [], "frees": [], "items": items}}}
  return spec


def merge_blocks(spec, c, nmerges=2):
  """cyclic_false: merge pairs of combinational blocks of one component into one
  block (statements of the first, then of the second).  The dataflow equations
  are unchanged (bit-level acyclic), but the merged block may now both precede
  and follow a third block: a false loop at block granularity.  Returns the
  number of merges done."""
  done = 0
  for _ in range(nmerges):
    cands = []
    for cname, cd in spec["comps"].items():
      idx = [i for i, it in enumerate(cd["items"]) if it["k"] == "comb"]
      if len(idx) >= 3:
        cands.append((cname, idx))
    if not cands:
      break
    cname, idx = c.choice(cands)
    i, j = sorted(c.sample(idx, 2))
    items = spec["comps"][cname]["items"]
    a, b = items[i], items[j]
    # generator order == dependency order is not recoverable after the shuffle of
    # items; the name carries the creation index: lower index first
    def parts(it):
      # [(creation index, stmts)]: generator order == dependency order, the name carries the index
      if "parts" in it:
        return it["parts"]
      try:
        return [[int(it["name"][2:]), it["stmts"]]]
      except ValueError:
        return [[0, it["stmts"]]]
    ps = sorted(parts(a) + parts(b), key=lambda x: x[0])
    merged = {"k": "comb", "name": "up" + "_".join(str(x[0]) for x in ps),
              "stmts": [st for _, sts in ps for st in sts], "parts": ps}
    items[i] = merged
    del items[j]
    done += 1
  spec["profile"] = "cyclic_false"
  return done


def _true_loop_one(c, uid):
  """Block-level AND bit-level cyclic designs.
  kinds: or_ring / mux (must converge), inv_ring_odd (never converges),
  inv_ring_even (converges), plus_ring (converges iff in0 == 0)."""
  kind = c.choice(["or_ring", "or_ring", "mux", "inv_ring_odd", "inv_ring_even", "plus_ring", "and_ring", "sat_ring"])
  w = c.choice([1, 2, 4, 8])
  n = c.randint(2, 14)
  if kind == "sat_ring":
    # slow but certain convergence: the ring counts up by one per sweep until it reaches a limit taken
    # from the input (20..83): legal within the 100-sweep bound only if every sweep advances the whole ring
    w = 8
    n = c.randint(2, 4)
  if kind == "inv_ring_odd" and n % 2 == 0:
    n += 1
  if kind == "inv_ring_even" and n % 2 == 1:
    n += 1
  if kind == "mux":
    n = 2
  if kind == "plus_ring":
    n = c.randint(2, 4)
  via_net = c.random() < 0.4
  # the ring variables may be the fields of ONE struct wire (the SCC then watches fields, not signals);
  # field names are x0..x13 or a chain in which every name is a prefix of the next
  via_struct = (not via_net) and c.random() < 0.35
  chain = c.random() < 0.5
  fname = (lambda i: "v" + "ab"[i % 2] * (i % n)) if chain else (lambda i: "x%d" % (i % n))
  if via_struct and chain:
    fname = lambda i: "v" + "".join("ab"[j % 2] for j in range(i % n))
  signals = [{"name": "in0", "kind": "in", "type": w, "dims": []},
             {"name": "in1", "kind": "in", "type": w, "dims": []},
             {"name": "sel", "kind": "in", "type": 1, "dims": []},
             {"name": "o", "kind": "out", "type": w, "dims": []}]
  structs = {}
  if via_struct:
    order = list(range(n))
    c.shuffle(order)
    structs["R"] = [[fname(i), w] for i in order]
    signals.append({"name": "m", "kind": "wire", "type": "R", "dims": []})
  for i in range(n):
    if not via_struct:
      signals.append({"name": "x%d" % i, "kind": "wire", "type": w, "dims": []})
    if via_net:
      signals.append({"name": "y%d" % i, "kind": "wire", "type": w, "dims": []})
  items = []
  XP = (lambda i: A("m", ["a", fname(i)])) if via_struct else (lambda i: A("x%d" % (i % n)))
  X = lambda i: rd(A("y%d" % (i % n)) if via_net else XP(i), w)
  for i in range(n):
    prev = X(i - 1)
    if kind == "or_ring":
      e = ["bin", "or", prev, rd(A("in0"), w)] if i % 3 == 0 else ["bin", "or", prev, ["const", w, 0]] \
          if i % 3 == 1 else ["bin", "or", prev, rd(A("in1"), w)]
    elif kind == "and_ring":
      e = ["bin", "and", prev, rd(A("in0"), w)] if i == 0 else prev
    elif kind in ("inv_ring_odd", "inv_ring_even"):
      e = ["inv", prev]
    elif kind == "plus_ring":
      e = ["bin", "add", prev, rd(A("in0"), w)] if i == 0 else prev
    elif kind == "sat_ring":
      lim = ["bin", "add", ["bin", "and", rd(A("in0"), w), ["const", w, 63]], ["const", w, 20]]
      e = ["ife", ["cmp", "lt", prev, lim], ["bin", "add", prev, ["const", w, 1]], prev] if i == 0 else prev
    else:  # mux
      e = ["ife", rd(A("sel"), 1), rd(A("in0"), w), prev] if i == 0 else \
          ["ife", rd(A("sel"), 1), prev, rd(A("in1"), w)]
    items.append({"k": "comb", "name": "up%d" % i, "stmts": [["assign", XP(i), e]]})
    if via_net:
      items.append({"k": "connect", "a": A("y%d" % i), "b": A("x%d" % i), "flip": c.random() < 0.5,
                    "op": "connect"})
  items.append({"k": "connect", "a": A("o"), "b": XP(0), "flip": False, "op": "connect"})
  # a member that is tied INTO the cycle only by an explicit ordering constraint (U(up_k) < U(up_bias)) and
  # feeds a value back into it: it belongs to the cyclic group although no signal reaches it from the group
  bias = kind in ("or_ring", "and_ring") and c.random() < 0.35
  if bias:
    signals.append({"name": "bz", "kind": "wire", "type": w, "dims": []})
    j = c.randrange(n)
    k = c.choice([x for x in range(n) if x != j])     # k == j would INVERT the value pair (upbz, up_j)
    for it in items:
      if it["k"] == "comb" and it["name"] == "up%d" % j:
        st = it["stmts"][0]
        st[2] = ["bin", "or" if kind == "or_ring" else "and", st[2], rd(A("bz"), w)]
    items.append({"k": "comb", "name": "upbz", "stmts": [["assign", A("bz"),
                  ["bin", c.choice(["xor", "add", "or"]), rd(A("in1"), w), ["const", w, c.randrange(1 << w)]]]]})
    items.append({"k": "constraint", "src": "U(up%d) < U(upbz)" % k})
  c.shuffle(items)
  spec = {"uid": uid, "structs": structs, "top": "Top", "profile": "true_loop:" + kind + (":struct" if via_struct else "") + (":bias" if bias else ""),
          "comps": {"Top": {"signals": signals, "subs": [], "frees": [], "items": items}}}
  must_converge = kind in ("or_ring", "mux", "inv_ring_even", "and_ring", "sat_ring")
  never = kind == "inv_ring_odd"
  return spec, {"kind": kind, "n": n, "must_converge": must_converge, "never_converges": never}


def once_in_cycle_source(c, uid):
  n = c.randint(2, 4)
  k = c.randrange(n)
  L = ["from pymtl3 import *", ""]
  via = c.choice(["flat", "flat", "net", "child"])
  if via == "child":
    # one stage of the ring lives in a sub-component: the cycle runs through generated net blocks
    L += ["class St_%s(Component):" % uid, "  def construct(s):", "    s.a = InPort(Bits8)", "    s.b = InPort(Bits8)",
          "    s.o = OutPort(Bits8)", "    @update", "    def up_st():", "      s.o @= s.a | s.b", ""]
  L += ["class Top_%s(Component):" % uid, "  def construct(s):", "    s.in0 = InPort(Bits8)"]
  for i in range(n):
    L.append("    s.x%d = Wire(Bits8)" % i)
    if via == "net":
      L.append("    s.y%d = Wire(Bits8)" % i)
      L.append("    s.y%d //= s.x%d" % (i, i))
  if via == "child":
    j = c.choice([i for i in range(n) if i != k])
    L += ["    s.st = St_%s()" % uid, "    s.st.a //= s.x%d" % ((j - 1) % n), "    s.st.b //= s.in0", "    s.x%d //= s.st.o" % j]
  order = list(range(n))
  c.shuffle(order)
  for i in order:
    if via == "child" and i == j:
      continue
    L.append("    @update_once" if i == k else "    @update")
    L.append("    def up%d():" % i)
    L.append("      s.x%d @= s.%s%d | s.in0" % (i, "y" if via == "net" else "x", (i - 1) % n))
  return "\n".join(L) + "\n"


def _rename_spec(spec, suf):
  """suffix every signal / block / struct name of a single-class spec (in place)"""
  from .spec import walk_exprs, walk_stmts
  import re
  cd = spec["comps"]["Top"]

  def rn_path(p):
    if p and p[0][0] == "a":
      p[0][1] = p[0][1] + suf
    for st in p:
      if st[0] in ("vi", "vb"):
        rn_expr(st[1])

  def rn_expr(e):
    for x in walk_exprs(e):
      if x[0] == "rd" and not x[1][0][1].endswith(suf):
        rn_path(x[1])
  for sg in cd["signals"]:
    sg["name"] += suf
    if isinstance(sg["type"], str):
      sg["type"] += suf
  spec["structs"] = {k + suf: v for k, v in spec["structs"].items()}
  for it in cd["items"]:
    if it["k"] == "connect":
      rn_path(it["a"])
      if not isinstance(it["b"], dict):
        rn_path(it["b"])
    elif it["k"] in ("comb", "ff"):
      it["name"] += suf
      for st in walk_stmts(it["stmts"]):
        if st[0] == "assign":
          rn_path(st[1])
          rn_expr(st[2])
        elif st[0] == "if":
          rn_expr(st[1])
    elif it["k"] == "constraint":
      it["src"] = re.sub(r"\b(up\w+)\b", lambda m: m.group(1) + suf, it["src"])
  return spec


def true_loop(c, uid):
  """one cyclic group, or (30 %) two independent ones in the same component: every cyclic group gets its
  own fixed-point super-block, each of which must iterate ITS blocks"""
  spec, meta = _true_loop_one(c, uid)
  if c.random() >= 0.3:
    return spec, meta
  spec2, meta2 = _true_loop_one(c, uid)
  _rename_spec(spec2, "_q")
  a, b = spec["comps"]["Top"], spec2["comps"]["Top"]
  a["signals"] += b["signals"]
  a["items"] += b["items"]
  c.shuffle(a["items"])
  spec["structs"].update(spec2["structs"])
  spec["profile"] += "+" + spec2["profile"]
  meta = {"kind": meta["kind"] + "+" + meta2["kind"], "n": meta["n"] + meta2["n"],
          "must_converge": meta["must_converge"] and meta2["must_converge"],
          "never_converges": meta["never_converges"] or meta2["never_converges"]}
  return spec, meta


def struct_by_slices(c, uid):
  """C08 shape: a struct wire whose Bits fields are driven ONLY slice by slice through connections (from
  inputs / slices of inputs), while the whole struct, whole fields and other slices sit in further nets"""
  nf = c.randint(1, 3)
  fields = []
  for i in range(nf):
    fields.append(["g%d" % i if c.random() < 0.5 else "a%d" % (nf - i), c.choice([4, 8, 8, 12])])
  nested = c.random() < 0.3
  structs = {"R": fields}
  if nested:
    structs = {"Q": fields, "R": [["h", "Q"], ["t", c.choice([2, 4])]]}
  signals = [{"name": "w", "kind": "wire", "type": "R", "dims": []},
             {"name": "o", "kind": "out", "type": "R", "dims": []}]
  items = []
  base = [["a", "w"]] + ([["a", "h"]] if nested else [])
  nin = 0
  for fname, fw in fields:
    cuts = sorted(c.sample(range(1, fw), c.randint(1, min(3, fw - 1))))
    bounds = [0] + cuts + [fw]
    for lo, hi in zip(bounds, bounds[1:]):
      signals.append({"name": "i%d" % nin, "kind": "in", "type": hi - lo, "dims": []})
      items.append({"k": "connect", "a": base + [["a", fname], ["s", lo, hi]], "b": A("i%d" % nin),
                    "flip": c.random() < 0.5, "op": "connect"})
      nin += 1
  if nested:
    signals.append({"name": "i%d" % nin, "kind": "in", "type": structs["R"][1][1], "dims": []})
    # the plain field may be driven whole, or (to keep every driven part a slice) bit by bit
    tw = structs["R"][1][1]
    if c.random() < 0.5:
      items.append({"k": "connect", "a": A("w", ["a", "t"], ["s", 0, tw]), "b": A("i%d" % nin), "flip": False, "op": "connect"})
    else:
      items.append({"k": "connect", "a": A("w", ["a", "t"]), "b": A("i%d" % nin), "flip": False, "op": "connect"})
    nin += 1
  # consumers: the whole struct, a whole field, an overlapping slice of a field
  items.append({"k": "connect", "a": A("o"), "b": A("w"), "flip": c.random() < 0.5, "op": "connect"})
  fname, fw = c.choice(fields)
  if c.random() < 0.6:
    signals.append({"name": "of", "kind": "out", "type": fw, "dims": []})
    items.append({"k": "connect", "a": A("of"), "b": base + [["a", fname]], "flip": c.random() < 0.5, "op": "connect"})
  if c.random() < 0.6 and fw >= 4:
    lo = c.randint(0, fw - 3)
    hi = c.randint(lo + 2, fw)
    signals.append({"name": "os", "kind": "out", "type": hi - lo, "dims": []})
    items.append({"k": "connect", "a": A("os"), "b": base + [["a", fname], ["s", lo, hi]], "flip": c.random() < 0.5,
                  "op": "connect"})
  c.shuffle(items)
  return {"uid": uid, "structs": structs, "top": "Top", "profile": "struct_by_slices",
          "comps": {"Top": {"signals": signals, "subs": [], "frees": [], "items": items}}}
