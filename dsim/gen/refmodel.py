"""Reference evaluator for a DesignSpec over plain Python integers
(DESIGN.md 3.2).  No import of pymtl3.

State: {top-level signal full name -> int}.  One evaluation = chaotic iteration
of every combinational item (update blocks, lambdas, connection edges) until
nothing changes; for a bit-level acyclic design this is the unique solution of
the dataflow equations, independent of any order.  One tick = collect the
flip-flop next values from pre-edge values (statement order inside a block,
last write wins, unwritten registers hold), commit, evaluate again.
"""
from .spec import field_of, tbits, width


class RefError(Exception):
  pass


class NotConverged(RefError):
  pass


class Inst:
  def __init__(self, spec, cname, prefix, parent=None):
    self.spec = spec
    self.cname = cname
    self.cd = spec["comps"][cname]
    self.prefix = prefix
    self.parent = parent
    self.sig = {s["name"]: s for s in self.cd["signals"]}
    self.sig["reset"] = {"name": "reset", "kind": "in", "type": 1, "dims": [], "implicit": True}
    self.subs = {}
    self.frees = {f["name"]: f for f in self.cd.get("frees", [])}
    self.funcs = {f["name"]: f for f in self.cd.get("funcs", [])}
    for sb in self.cd["subs"]:
      if len(sb["dims"]) > 1:
        flat = list(sb.get("cls_list") or [])
        cnt = [0]

        def mk(pre, dims, sb=sb, flat=flat, cnt=cnt):
          if not dims:
            cn = flat[cnt[0]] if flat else sb["cls"]
            cnt[0] += 1
            return Inst(spec, cn, pre, self)
          return [mk("%s[%d]" % (pre, i), dims[1:]) for i in range(dims[0])]
        self.subs[sb["name"]] = mk("%s.%s" % (prefix, sb["name"]), sb["dims"])
      elif sb["dims"]:
        cl = sb.get("cls_list") or [sb["cls"]] * sb["dims"][0]
        self.subs[sb["name"]] = [Inst(spec, cl[i], "%s.%s[%d]" % (prefix, sb["name"], i), self)
                                 for i in range(sb["dims"][0])]
      else:
        self.subs[sb["name"]] = Inst(spec, sb["cls"], "%s.%s" % (prefix, sb["name"]), self)

  def all_insts(self):
    yield self
    def flat(v):
      if isinstance(v, list):
        for x in v:
          yield from flat(x)
      else:
        yield v
    for v in self.subs.values():
      for x in flat(v):
        yield from x.all_insts()


def mask(w):
  return (1 << w) - 1


class Ref:
  def __init__(self, spec):
    self.spec = spec
    self.top = Inst(spec, spec["top"], "s")
    self.insts = list(self.top.all_insts())
    self.state = {}
    self.widths = {}
    self.kinds = {}
    self.types = {}
    for inst in self.insts:
      for sg in list(inst.cd["signals"]) + [inst.sig["reset"]]:
        w = tbits(spec, sg["type"])
        names = (["%s.%s[%d]" % (inst.prefix, sg["name"], i) for i in range(sg["dims"][0])]
                 if sg["dims"] else ["%s.%s" % (inst.prefix, sg["name"])])
        for n in names:
          self.state[n] = 0
          self.widths[n] = w
          self.kinds[n] = sg["kind"]
          self.types[n] = sg["type"]
    self.inputs = [n for n, k in self.kinds.items()
                   if k == "in" and n.count(".") == 1 and n != "s.reset"]
    self.resets = [inst.prefix + ".reset" for inst in self.insts]
    # combinational items and ff items, (inst, item)
    self.comb = []
    self.ffs = []
    for inst in self.insts:
      for it in inst.cd["items"]:
        if it["k"] in ("comb", "lambda", "connect"):
          self.comb.append((inst, it))
        elif it["k"] == "ff":
          self.ffs.append((inst, it))
    self.passes = 0

  # ---- path resolution -------------------------------------------------
  def resolve(self, inst, path, env):
    """-> (key, lo, width, type).  Raises IndexError on out-of-range dynamic
    indices (mirrors PyMTL)."""
    spec = self.spec
    cur = inst
    i = 0
    n = len(path)
    # walk components
    while True:
      st = path[i]
      assert st[0] == "a", path
      name = st[1]
      i += 1
      if name in cur.subs:
        sub = cur.subs[name]
        while isinstance(sub, list):
          st = path[i]
          i += 1
          k = st[1] if st[0] == "i" else self.ev(inst, st[1], env)
          if not 0 <= k < len(sub):
            raise IndexError(path)
          sub = sub[k]
        cur = sub
        continue
      sg = cur.sig[name]
      key = "%s.%s" % (cur.prefix, name)
      if sg["dims"]:
        st = path[i]
        i += 1
        k = st[1] if st[0] == "i" else self.ev(inst, st[1], env)
        if not 0 <= k < sg["dims"][0]:
          raise IndexError(path)
        key = "%s[%d]" % (key, k)
      t = sg["type"]
      break
    lo = 0
    w = tbits(spec, t)
    while i < n:
      st = path[i]
      i += 1
      k = st[0]
      if k == "a":
        ft, flo, fw = field_of(spec, t, st[1])
        lo += flo
        w = fw
        t = ft
      elif k in ("i", "vi"):
        idx = st[1] if k == "i" else self.ev(inst, st[1], env)
        assert isinstance(t, list) and t[0] == "arr", (path, t)
        if not 0 <= idx < t[2]:
          raise IndexError(path)
        ew = tbits(spec, t[1])
        lo += idx * ew
        w = ew
        t = t[1]
      elif k in ("b", "vb"):
        idx = st[1] if k == "b" else self.ev(inst, st[1], env)
        if not 0 <= idx < w:
          raise IndexError(path)
        lo += idx
        w = 1
        t = 1
      elif k == "s":
        assert 0 <= st[1] < st[2] <= w, (path, w)
        lo += st[1]
        w = st[2] - st[1]
        t = w
      else:
        raise ValueError(st)
    return key, lo, w, t

  def read(self, inst, path, env):
    key, lo, w, _ = self.resolve(inst, path, env)
    return (self.state[key] >> lo) & mask(w)

  # ---- expressions -----------------------------------------------------
  def ev(self, inst, e, env):
    k = e[0]
    if k == "const":
      return e[2] & mask(e[1])
    if k == "int":
      return e[1]
    if k == "rd":
      return self.read(inst, e[1], env)
    if k in ("tmpv", "lv", "param"):
      return env[e[1]]
    if k == "vslice":
      b = self.ev(inst, e[2], env)
      key, lo, w, _ = self.resolve(inst, e[1], env)
      if not 0 <= b <= w - e[3]:
        raise IndexError(e)
      return (self.state[key] >> (lo + b)) & mask(e[3])
    if k == "fcall":
      fn = inst.funcs[e[1]]
      args = [self.ev(inst, a, env) for a in e[2]]
      return self.ev(inst, fn["ret"], {p[0]: (v & mask(p[1])) for p, v in zip(fn["params"], args)}) & mask(fn["w"])
    if k == "free":
      return inst.frees[e[1]]["v"]
    if k == "bin":
      a = self.ev(inst, e[2], env)
      b = self.ev(inst, e[3], env)
      w = width(e)
      op = e[1]
      if op == "add":
        r = a + b
      elif op == "sub":
        r = a - b
      elif op == "mul":
        r = a * b
      elif op == "and":
        r = a & b
      elif op == "or":
        r = a | b
      elif op == "xor":
        r = a ^ b
      else:
        raise ValueError(op)
      return r & mask(w) if w is not None else r
    if k == "shift":
      a = self.ev(inst, e[2], env)
      b = self.ev(inst, e[3], env)
      w = width(e)
      if b >= w:
        return 0
      return (a << b) & mask(w) if e[1] == "shl" else a >> b
    if k == "inv":
      return ~self.ev(inst, e[1], env) & mask(width(e))
    if k == "cmp":
      a = self.ev(inst, e[2], env)
      b = self.ev(inst, e[3], env)
      op = e[1]
      return int({"eq": a == b, "ne": a != b, "lt": a < b, "le": a <= b,
                  "gt": a > b, "ge": a >= b}[op])
    if k == "ife":
      return self.ev(inst, e[2], env) if self.ev(inst, e[1], env) else self.ev(inst, e[3], env)
    if k == "zext":
      return self.ev(inst, e[1], env)
    if k == "sext":
      a = self.ev(inst, e[1], env)
      wa = width(e[1])
      if (a >> (wa - 1)) & 1:
        a |= mask(e[2]) & ~mask(wa)
      return a
    if k == "trunc":
      return self.ev(inst, e[1], env) & mask(e[2])
    if k == "concat":
      r = 0
      for x in e[1]:
        r = (r << width(x)) | self.ev(inst, x, env)
      return r
    if k == "red":
      a = self.ev(inst, e[2], env)
      w = width(e[2])
      if e[1] == "and":
        return int(a == mask(w))
      if e[1] == "or":
        return int(a != 0)
      return bin(a).count("1") & 1
    if k == "cast":
      return self.ev(inst, e[2], env) & mask(e[1])
    if k == "mkstruct":
      r = 0
      for (fname, ft), x in zip(self.spec["structs"][e[1]], e[2]):
        r = (r << tbits(self.spec, ft)) | (self.ev(inst, x, env) & mask(tbits(self.spec, ft)))
      return r
    raise ValueError(e)

  # ---- statements ------------------------------------------------------
  def run_stmts(self, inst, stmts, env, write):
    for st in stmts:
      k = st[0]
      if k == "assign":
        v = self.ev(inst, st[2], env)
        key, lo, w, _ = self.resolve(inst, st[1], env)
        write(key, lo, w, v & mask(w))
      elif k == "tmp":
        env[st[1]] = self.ev(inst, st[2], env)
        for n2 in (st[3] if len(st) > 3 else []):
          env[n2] = env[st[1]]
      elif k == "tmpset":
        m = mask(st[3] - st[2]) << st[2]
        env[st[1]] = (env[st[1]] & ~m) | ((self.ev(inst, st[4], env) << st[2]) & m)
      elif k == "if":
        if self.ev(inst, st[1], env):
          self.run_stmts(inst, st[2], env, write)
        else:
          self.run_stmts(inst, st[3], env, write)
      elif k == "for":
        for i in range(st[2], st[3], st[4]):
          env[st[1]] = i
          self.run_stmts(inst, st[5], env, write)
      else:
        raise ValueError(st)

  def _write_now(self, key, lo, w, v):
    old = self.state[key]
    new = (old & ~(mask(w) << lo)) | (v << lo)
    if new != old:
      self.state[key] = new
      self._changed = True

  def run_item(self, inst, it):
    k = it["k"]
    if k == "comb":
      self.run_stmts(inst, it["stmts"], {}, self._write_now)
    elif k == "lambda":
      key, lo, w, _ = self.resolve(inst, it["t"], {})
      self._write_now(key, lo, w, self.ev(inst, it["e"], {}) & mask(w))
    elif k == "connect":
      key, lo, w, _ = self.resolve(inst, it["a"], {})
      b = it["b"]
      if isinstance(b, dict):
        v = b["const"] & mask(w)
      else:
        v = self.read(inst, b, {})
      self._write_now(key, lo, w, v)

  # ---- simulation ------------------------------------------------------
  def eval_comb(self, cap=200):
    r = self.state["s.reset"]
    for k in self.resets:
      self.state[k] = r
    for n in range(cap):
      before = dict(self.state)
      for inst, it in self.comb:
        self.run_item(inst, it)
      self.passes += 1
      if before == self.state:
        return n + 1
    raise NotConverged("reference evaluator did not converge")

  def tick(self):
    nxt = {}

    def write(key, lo, w, v):
      if lo != 0 or w != self.widths[key]:
        raise RefError("<<= to part of a signal: %s" % key)
      nxt[key] = v

    for inst, it in self.ffs:
      self.run_stmts(inst, it["stmts"], {}, write)
    self.state.update(nxt)
    self.eval_comb()

  def set_input(self, key, v):
    self.state[key] = v & mask(self.widths[key])

  def snapshot(self):
    return dict(self.state)


# ---------------------------------------------------------------------------
# static read / write bit sets per block (independent source for C02)
# ---------------------------------------------------------------------------

class _Static:
  """Over-approximates, for one item, the (key, bit) sets it may read and may
  write: both branches of every if, a variable index counts as the whole
  signal / every list element."""

  def __init__(self, ref):
    self.ref = ref

  def path_bits(self, inst, path, reads):
    """-> set of (key, bit).  Index expressions are added to `reads`."""
    ref = self.ref
    spec = ref.spec
    # enumerate all static instantiations of dynamic steps
    results = set()

    def rec(i, concrete):
      if i == len(path):
        key, lo, w, _ = ref.resolve(inst, concrete, {})
        results.update((key, b) for b in range(lo, lo + w))
        return
      st = path[i]
      if st[0] in ("vi", "vb"):
        self.expr_bits(inst, st[1], reads)
        # try all indices that resolve
        k = 0
        while True:
          cand = concrete + [["i" if st[0] == "vi" else "b", k]]
          try:
            # resolve the prefix as far as possible: full path with zeros after
            rest = []
            for s2 in path[i + 1:]:
              rest.append(["i", 0] if s2[0] == "vi" else ["b", 0] if s2[0] == "vb" else s2)
            ref.resolve(inst, cand + rest, {})
          except (IndexError, AssertionError):
            break
          rec(i + 1, cand)
          k += 1
          if k > 4096:
            break
      else:
        rec(i + 1, concrete + [st])

    rec(0, [])
    return results

  def expr_bits(self, inst, e, reads):
    from .spec import walk_exprs
    for x in walk_exprs(e):
      if x[0] == "rd":
        # walk_exprs also yields the index expressions themselves
        reads.update(self.path_bits(inst, x[1], set()))
      elif x[0] == "vslice":
        reads.update(self.path_bits(inst, x[1], set()))       # any window of x: the whole of x
      elif x[0] == "fcall":
        # the callee's reads are the caller's reads (transitively)
        self.expr_bits(inst, inst.funcs[x[1]]["ret"], reads)

  def stmts(self, inst, stmts, reads, writes):
    for st in stmts:
      k = st[0]
      if k == "assign":
        self.expr_bits(inst, st[2], reads)
        writes.update(self.path_bits(inst, st[1], reads))
      elif k == "tmp":
        self.expr_bits(inst, st[2], reads)
      elif k == "tmpset":
        self.expr_bits(inst, st[4], reads)
      elif k == "if":
        self.expr_bits(inst, st[1], reads)
        self.stmts(inst, st[2], reads, writes)
        self.stmts(inst, st[3], reads, writes)
      elif k == "for":
        # loop variables appear as ["lv"] inside index exprs: treat every
        # iteration by substitution
        for i in range(st[2], st[3], st[4]):
          self.stmts(inst, _subst(st[5], st[1], i), reads, writes)


def _subst(node, var, val):
  if isinstance(node, list):
    if len(node) == 2 and node[0] == "lv" and node[1] == var:
      return ["int", val]
    if len(node) == 2 and node[0] in ("vi", "vb") and isinstance(node[1], list):
      inner = _subst(node[1], var, val)
      if inner[0] == "int":
        return ["i" if node[0] == "vi" else "b", inner[1]]
      return [node[0], inner]
    return [_subst(x, var, val) for x in node]
  return node


def item_rw(ref):
  """-> list of (inst, item, reads, writes) for comb/lambda/ff/connect items."""
  S = _Static(ref)
  out = []
  for inst in ref.insts:
    for it in inst.cd["items"]:
      reads, writes = set(), set()
      k = it["k"]
      if k in ("comb", "ff"):
        S.stmts(inst, it["stmts"], reads, writes)
      elif k == "lambda":
        S.expr_bits(inst, it["e"], reads)
        writes.update(S.path_bits(inst, it["t"], reads))
      elif k == "connect":
        writes.update(S.path_bits(inst, it["a"], reads))
        if not isinstance(it["b"], dict):
          reads.update(S.path_bits(inst, it["b"], reads))
      else:
        continue
      out.append((inst, it, reads, writes))
  return out
