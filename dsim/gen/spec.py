"""DesignSpec: a JSON-able description of an RTL design (DESIGN.md 3.1).

spec = {
  "uid": str,                               unique suffix for class names
  "structs": { sname: [[fname, ftype], ...] },     first field most significant
  "comps":   { cname: compdef },             leaf classes first
  "top": cname,
}
ftype / signal type:  int N (BitsN) | sname | ["arr", elemtype, n]   (arr only as struct field)

compdef = {
  "signals": [ {"name", "kind": "in"|"out"|"wire", "type", "dims": [] | [n] } ],
  "subs":    [ {"name", "cls", "dims": [] | [n]} ],
  "frees":   [ {"name", "kind": "int"|"bits", "w", "v"} ],       closure constants
  "items":   [ item ],      connects / blocks / lambdas in source order
  "funcs":   [ {"name", "params": [[pname, w]], "ret": expr, "w": w} ]   optional; @s.func helpers that
                            return a value, emitted before the items; a later func may call an earlier one
}
item = {"k": "connect", "a": path, "b": path_or_const, "flip": bool, "op": "connect"|"//="}
           b may be {"const": v, "w": w_or_None}
       {"k": "comb"|"ff", "name": str, "stmts": [stmt]}
       {"k": "lambda", "t": path, "e": expr}
       {"k": "constraint", "src": "U(up1) < U(up2)" ...}  (rendered verbatim)

path  = [step]; step = ["a", name] | ["i", k] | ["b", k] | ["s", lo, hi]
                        | ["vi", expr] | ["vb", expr]
stmt  = ["assign", path, expr] | ["tmp", name, expr (, [more names])] | ["if", cond, [stmt], [stmt]]
        | ["for", var, start, stop, step, [stmt]] | ["call", fname (, [arg e...])]   (emit only: C09)
        | ["tmpset", name, lo, hi, expr]      name[lo:hi] = expr   (in-place update of a temporary)
expr  = ["const", w, v] | ["int", v] | ["rd", path, w] | ["tmpv", name, w] | ["lv", name]
        | ["free", name, w|None] | ["bin", op, a, b] | ["shift", op, a, b] | ["inv", a]
        | ["cmp", op, a, b] | ["ife", c, a, b] | ["zext"|"sext"|"trunc", a, w]
        | ["concat", [e...]] | ["red", "and"|"or"|"xor", a] | ["cast", w, a]
        | ["mkstruct", sname, [e...]] | ["fcall", fname, [arg e...], w] | ["param", pname, w]
        | ["vslice", path, base_expr, N]        s.x[b : b + N] with a run-time base (b + N <= width always)
"""


def tbits(spec, t):
  if isinstance(t, int):
    return t
  if isinstance(t, str):
    return sum(tbits(spec, ft) for _, ft in spec["structs"][t])
  if t[0] == "arr":
    return t[2] * tbits(spec, t[1])
  raise ValueError(t)


def field_layout(spec, sname):
  """[(fname, ftype, lo, width)] ; first field most significant."""
  fields = spec["structs"][sname]
  total = tbits(spec, sname)
  out = []
  hi = total
  for fname, ft in fields:
    w = tbits(spec, ft)
    out.append((fname, ft, hi - w, w))
    hi -= w
  return out


def field_of(spec, sname, fname):
  for f, ft, lo, w in field_layout(spec, sname):
    if f == fname:
      return ft, lo, w
  raise KeyError((sname, fname))


def width(e):
  """Self-described width of an expression node; None for Python-int-like."""
  k = e[0]
  if k == "const":
    return e[1]
  if k in ("int", "lv"):
    return None
  if k == "rd":
    return e[2]
  if k == "tmpv":
    return e[2]
  if k == "free":
    return e[2]
  if k == "bin":
    wa = width(e[2])
    return wa if wa is not None else width(e[3])
  if k == "shift":
    return width(e[2])
  if k == "inv":
    return width(e[1])
  if k in ("cmp", "red"):
    return 1
  if k == "ife":
    wa = width(e[2])
    return wa if wa is not None else width(e[3])
  if k in ("zext", "sext", "trunc"):
    return e[2]
  if k == "concat":
    return sum(width(x) for x in e[1])
  if k == "cast":
    return e[1]
  if k == "mkstruct":
    return e[3] if len(e) > 3 else None
  if k in ("fcall", "vslice"):
    return e[3]
  if k == "param":
    return e[2]
  raise ValueError(e)


def type_name(t, uid):
  if isinstance(t, int):
    return "Bits%d" % t
  if isinstance(t, str):
    return "%s_%s" % (t, uid)
  raise ValueError(t)


def walk_exprs(e):
  """All sub-expressions of e (pre-order), including inside paths."""
  yield e
  k = e[0]
  if k == "rd":
    for st in e[1]:
      if st[0] in ("vi", "vb"):
        yield from walk_exprs(st[1])
  elif k in ("bin", "shift", "cmp"):
    yield from walk_exprs(e[2])
    yield from walk_exprs(e[3])
  elif k in ("inv",):
    yield from walk_exprs(e[1])
  elif k == "ife":
    for x in e[1:4]:
      yield from walk_exprs(x)
  elif k in ("zext", "sext", "trunc"):
    yield from walk_exprs(e[1])
  elif k == "concat":
    for x in e[1]:
      yield from walk_exprs(x)
  elif k == "red":
    yield from walk_exprs(e[2])
  elif k == "cast":
    yield from walk_exprs(e[2])
  elif k in ("mkstruct", "fcall"):
    for x in e[2]:
      yield from walk_exprs(x)
  elif k == "vslice":
    yield from walk_exprs(e[2])


def walk_stmts(stmts):
  for st in stmts:
    yield st
    if st[0] == "if":
      yield from walk_stmts(st[2])
      yield from walk_stmts(st[3])
    elif st[0] == "for":
      yield from walk_stmts(st[5])
