"""Glue: build the PyMTL object for a DesignSpec, drive it next to the
reference evaluator, compare every signal of every component."""
from . import emit
from .refmodel import Ref


class Mismatch(Exception):
  def __init__(self, where, key, got, want):
    super().__init__("%s: %s got %#x want %#x" % (where, key, got, want))
    self.where, self.key, self.got, self.want = where, key, got, want


def to_int(v):
  try:
    return int(v)
  except TypeError:
    return int(v.to_bits())


class Accessors:
  """Compiled accessors for every top-level signal of every component."""

  def __init__(self, top, keys):
    self.top = top
    self.codes = {k: compile(k, "<acc>", "eval") for k in keys}
    self.env = {"s": top}

  def get(self, key):
    return to_int(eval(self.codes[key], self.env))

  def snapshot(self):
    env = self.env
    return {k: to_int(eval(c, env)) for k, c in self.codes.items()}


def build_top(spec):
  ns, cls, src = emit.build(spec)
  top = cls()
  top.elaborate()
  return top, ns, src


def write_input(top, ns, ref, key, value):
  """top-level in port write with @= (the documented way)."""
  w = ref.widths[key]
  t = ref.types[key]
  from pymtl3 import mk_bits
  name = key[2:]
  if "[" in name:
    base, idx = name[:-1].split("[")
    obj = getattr(top, base)
    cur = obj[int(idx)]
  else:
    cur = getattr(top, name)
  if isinstance(t, str):
    T = ns["%s_%s" % (t, ref.spec["uid"])]
    cur @= T.from_bits(mk_bits(w)(value))
  else:
    cur @= mk_bits(w)(value)


def compare(acc, ref, where, skip=()):
  snap = acc.snapshot()
  st = ref.state
  for k, v in snap.items():
    if v != st[k] and k not in skip:
      raise Mismatch(where, k, v, st[k])
  return snap
