"""Seeded generator of TRANSLATABLE designs built around interfaces (C03 / C12 family `ifcgen`): interface
classes with scalar ports, port lists and nested interfaces; components holding 0-2 dimensional lists of
interfaces; 0-2 dimensional lists of such components in the top; interface-level connects with a seeded
permutation (so that any transposition / re-ordering in the translated text changes the outputs).
Returns Python source whose top class is Top_<uid>."""
import itertools


def _wrap(expr, dims):
  for d in reversed(dims):
    expr = "[%s for _ in range(%d)]" % (expr, d)
  return expr


def _idx(t):
  return "".join("[%d]" % i for i in t)


def gen(c, uid):
  W = c.choice([1, 4, 8, 8])
  nmsg = c.choice([0, 0, 2, 3])              # 0: scalar msg port, else list of ports
  nested = c.random() < 0.4
  nleaf = c.choice([0, 0, 2]) if nested else 0   # nested interface scalar or list
  idims = c.choice([[], [2], [3], [2, 3], [3, 2], [2, 2]])
  cdims = c.choice([[], [2], [2], [2, 2], [1, 3], [3, 2]])
  has_rdy = c.random() < 0.7
  L = ["from pymtl3 import *", ""]
  if nested:
    L += ["class Leaf_%s(Interface):" % uid, "  def construct(s):", "    s.d = InPort(Bits%d)" % W,
          "    s.q = OutPort(Bits%d)" % W, ""]
  L += ["class If_%s(Interface):" % uid, "  def construct(s):"]
  L.append("    s.msg = %s" % _wrap("InPort(Bits%d)" % W, [nmsg] if nmsg else []))
  L.append("    s.val = InPort(Bits1)")
  if has_rdy:
    L.append("    s.rdy = OutPort(Bits1)")
  if nested:
    L.append("    s.leaf = %s" % _wrap("Leaf_%s()" % uid, [nleaf] if nleaf else []))
  L.append("")
  # cell
  ituples = list(itertools.product(*[range(d) for d in idims]))
  L += ["class Cell_%s(Component):" % uid, "  def construct(s):"]
  L.append("    s.ifc = %s" % _wrap("If_%s()" % uid, idims))
  L.append("    s.out = %s" % _wrap("OutPort(Bits%d)" % W, [len(ituples)]))
  L.append("    @update")
  L.append("    def up():")
  for n, t in enumerate(ituples):
    base = "s.ifc%s" % _idx(t)
    terms = ["%s.msg%s" % (base, "[%d]" % k if nmsg else "") for k in range(max(1, nmsg))]
    e = terms[0]
    for k, x in enumerate(terms[1:]):
      e = "(%s %s %s)" % (e, "^+"[k % 2], x)
    e = "(%s + %d)" % (e, (n * 3 + 1) % (1 << W))
    L.append("      s.out[%d] @= %s if %s.val else Bits%d(%d)" % (n, e, base, W, n % (1 << W)))
    if has_rdy:
      L.append("      %s.rdy @= ~%s.val" % (base, base))
    if nested:
      for k in range(max(1, nleaf)):
        lf = "%s.leaf%s" % (base, "[%d]" % k if nleaf else "")
        L.append("      %s.q @= %s.d + %d" % (lf, lf, (k + n) % (1 << W)))
  L.append("")
  # top
  ctuples = list(itertools.product(*[range(d) for d in cdims]))
  alltup = [(ct, it) for ct in ctuples for it in ituples]
  perm = list(range(len(alltup)))
  c.shuffle(perm)
  L += ["class Top_%s(Component):" % uid, "  def construct(s):"]
  L.append("    s.ifc = %s" % _wrap("If_%s()" % uid, cdims + idims if (cdims or idims) else []))
  L.append("    s.out = %s" % _wrap("OutPort(Bits%d)" % W, [len(alltup)]))
  L.append("    s.pe = %s" % _wrap("Cell_%s()" % uid, cdims))
  via_connect = c.random() < 0.5
  for n, (ct, it) in enumerate(alltup):
    sct, sit = alltup[perm[n]]
    src = "s.ifc%s%s" % (_idx(sct), _idx(sit))
    dst = "s.pe%s.ifc%s" % (_idx(ct), _idx(it))
    if via_connect:
      L.append("    connect(%s, %s)" % (dst, src))
    else:
      L.append("    %s //= %s" % (dst, src))
    L.append("    s.out[%d] //= s.pe%s.out[%d]" % (n, _idx(ct), ituples.index(it)))
  L.append("")
  stats = {"ifc_dims": len(idims), "cell_dims": len(cdims), "nested": int(nested), "msg_list": int(bool(nmsg)),
           "nested_list": int(bool(nleaf))}
  return "\n".join(L) + "\n", stats
