"""Template family `paramcls` (C01 / C07): ONE component class whose update-block bodies depend on constructor
parameters - the body of a connection lambda, a closure variable used as the second index of a 2-D register
list, a closure constant - instantiated several times with different parameters, and the same classes
elaborated a second time in the same process with other parameters at the same hierarchical positions.
pymtl3 caches per-class AST metadata; every instance must still get the read / write sets of ITS body.
The reference model is plain Python over the parameters."""

SRC = '''
from pymtl3 import *

def mk_msg_{uid}(n):
  # struct types that share the class name and the field names and differ only in the shape of a list field
  return mk_bitstruct("Msg_{uid}", {{"tag": Bits4, "l": [Bits8] * n}})

class Lane_{uid}(Component):
  def construct(s, mode, cap, inc, k):
    T = mk_msg_{uid}(cap + 1)
    s.snext = Wire(T)
    s.sreg = Wire(T)
    s.so = OutPort(Bits8)
    @update
    def up_snext():
      s.snext.tag @= s.a[0:4]
      for j in range(cap + 1):
        s.snext.l[j] @= s.a + j
    @update_ff
    def up_sreg():
      s.sreg <<= s.snext
    @update
    def up_so():
      s.so @= s.sreg.l[cap] + zext(s.sreg.tag, 8)
    s.a = InPort(Bits8)
    s.b = InPort(Bits8)
    s.sel = InPort(Bits1)
    s.o = OutPort(Bits8)
    s.q = OutPort(Bits8)
    s.w = Wire(Bits8)
    s.v = Wire(Bits8)
    s.bank = [[Wire(Bits8) for _ in range(4)] for _ in range(2)]
    @update
    def up_w():
      s.w @= s.a + k
    @update
    def up_v():
      s.v @= s.w ^ s.b
    # the body of the connection lambda is chosen by a constructor parameter
    if mode == 0:
      s.o //= lambda: s.a & s.b
    elif mode == 1:
      s.o //= lambda: s.w ^ s.b
    elif mode == 2:
      s.o //= lambda: s.v + s.bank[0][cap]
    else:
      s.o //= lambda: s.v | s.w
    @update_ff
    def up_bank():
      s.bank[s.sel][cap] <<= s.a
      for bb in range(2):
        s.bank[bb][inc] <<= s.bank[bb][cap] + 1
    @update
    def up_q():
      s.q @= s.bank[0][inc] ^ s.bank[1][cap]

class Top_{uid}(Component):
  def construct(s, params):
    n = len(params)
    s.a = [InPort(Bits8) for _ in range(n)]
    s.b = InPort(Bits8)
    s.sel = InPort(Bits1)
    s.o = [OutPort(Bits8) for _ in range(n)]
    s.q = [OutPort(Bits8) for _ in range(n)]
    s.so = [OutPort(Bits8) for _ in range(n)]
    s.lane = [Lane_{uid}(*p) for p in params]
    # a free-running tick counter: tells the harness how many edges sim_reset() applied
    s.cnt = OutPort(Bits8)
    @update_ff
    def up_cnt():
      s.cnt <<= s.cnt + 1
    for i in range(n):
      s.lane[i].a //= s.a[i]
      s.lane[i].b //= s.b
      s.lane[i].sel //= s.sel
      s.o[i] //= s.lane[i].o
      s.q[i] //= s.lane[i].q
      s.so[i] //= s.lane[i].so
'''


def gen(c, uid):
  n = c.randint(2, 4)

  def params():
    out = []
    for _ in range(n):
      cap = c.randrange(4)
      inc = c.choice([x for x in range(4) if x != cap])
      out.append([c.randrange(4), cap, inc, c.choice([1, 2, 3])])
    return out
  p1 = params()
  p2 = params()
  # make sure some position changes its lambda body between the two elaborations
  if all(a[0] == b[0] for a, b in zip(p1, p2)):
    p2[0][0] = (p1[0][0] + 1 + c.randrange(3)) % 4
  ncyc = c.randint(6, 14)
  inputs = [{"a": [c.getrandbits(8) for _ in range(n)], "b": c.getrandbits(8), "sel": c.getrandbits(1)} for _ in range(ncyc)]
  return {"uid": uid, "n": n, "params": [p1, p2], "inputs": inputs}


class Ref:
  def __init__(self, params):
    self.p = params
    self.bank = [[[0] * 4 for _ in range(2)] for _ in params]
    self.sreg = [(0, [0] * (p[1] + 1)) for p in params]

  def comb(self, inp):
    o, q = [], []
    for i, (mode, cap, inc, k) in enumerate(self.p):
      a, b = inp["a"][i], inp["b"]
      w = (a + k) & 0xff
      v = w ^ b
      bank = self.bank[i]
      o.append([a & b, w ^ b, (v + bank[0][cap]) & 0xff, v | w][mode])
      q.append(bank[0][inc] ^ bank[1][cap])
    return o, q

  def so(self):
    return [(self.sreg[i][1][cap] + self.sreg[i][0]) & 0xff for i, (mode, cap, inc, k) in enumerate(self.p)]

  def tick(self, inp):
    for i, (mode, cap, inc, k) in enumerate(self.p):
      old = self.bank[i]
      new = [row[:] for row in old]
      new[inp["sel"]][cap] = inp["a"][i]
      for bb in range(2):
        new[bb][inc] = (old[bb][cap] + 1) & 0xff
      self.bank[i] = new
      a = inp["a"][i]
      self.sreg[i] = (a & 15, [(a + j) & 0xff for j in range(cap + 1)])
