"""Seeded generator of TRANSLATABLE designs about the layout of struct-typed ports (C03 / C12 family
`structport`): a random tree of bitstructs (nested structs, list fields of Bits and of structs, field names in
non-alphabetical declaration order, prefix-related names), a struct input port whose packed value is assigned to
a Bits output (struct -> Bits), passed through to a struct output, and read leaf by leaf; optionally through a
sub-component.  Only shapes that the Yosys backend's known struct defects (F13 F14 F18) do not touch."""


def gen_const(c, uid):
  """a struct OutPort tied to a CONSTANT struct whose fields include 1-D and 2-D packed arrays (rows differ)
  and an array of structs: the literal the backend emits must put every element at its own offset"""
  r0, r1 = c.choice([2, 3]), c.choice([2, 3, 4])
  w = c.choice([3, 4, 5])
  L = ["from pymtl3 import *", "",
       "Pt_%s = mk_bitstruct('Pt_%s', {'x': Bits3, 'y': Bits5})" % (uid, uid),
       "Cfg_%s = mk_bitstruct('Cfg_%s', {'k': Bits4, 'vec': [Bits%d]*%d, 'tab': [[Bits%d]*%d]*%d, 'pts': [Pt_%s]*2, 'z': Bits2})"
       % (uid, uid, w, r1, w, r1, r0, uid)]
  vec = [c.randrange(1 << w) for _ in range(r1)]
  tab = [[c.randrange(1 << w) for _ in range(r1)] for _ in range(r0)]
  if len({tuple(r) for r in tab}) == 1:
    tab[0][0] ^= 1
  pts = [(c.randrange(8), c.randrange(32)) for _ in range(2)]
  lit = "Cfg_%s(%d, [%s], [%s], [%s], %d)" % (
    uid, c.randrange(16), ", ".join("Bits%d(%d)" % (w, v) for v in vec),
    ", ".join("[%s]" % ", ".join("Bits%d(%d)" % (w, v) for v in row) for row in tab),
    ", ".join("Pt_%s(%d, %d)" % (uid, x, y) for x, y in pts), c.randrange(4))
  if c.random() < 0.5:
    L += ["", "class Top_%s(Component):" % uid, "  def construct(s):", "    s.in_ = InPort(Bits8)", "    s.o8 = OutPort(Bits8)",
          "    s.out = OutPort(Cfg_%s)" % uid, "    s.o8 //= s.in_", "    s.out //= %s" % lit]
  else:
    # the constant goes to a WIRE that is observed whole (struct -> Bits)
    tw = 4 + w * r1 * (1 + r0) + 16 + 2
    L += ["", "class Top_%s(Component):" % uid, "  def construct(s):", "    s.in_ = InPort(Bits8)", "    s.o8 = OutPort(Bits8)",
          "    s.cw = Wire(Cfg_%s)" % uid, "    s.pk_all = OutPort(mk_bits(%d))" % tw,
          "    s.o8 //= s.in_", "    s.cw //= %s" % lit,
          "    @update", "    def up_obs():", "      s.pk_all @= s.cw"]
    # (reading s.cw.tab[i][j] in a block as well would run into known finding F14 in the Yosys backend)
  return "\n".join(L) + "\n", {"depth": 2, "width": 4 + w * r1 * (1 + r0) + 16 + 2, "leaves": 0, "const_struct": 1}


def gen(c, uid):
  if c.random() < 0.2:
    return gen_const(c, uid)
  L = ["from pymtl3 import *", ""]
  structs = []        # (name, width, leaves [(path string, width)])
  pool = ["src", "dst", "opq", "a", "zz", "m", "b0", "b", "f1", "f10", "hdr", "pay", "tl", "k"]

  def mk(depth):
    names = c.sample(pool, c.randint(2, 4))
    if c.random() < 0.3:
      names[1] = names[0] + "x"
    fields, width, leaves = [], 0, []
    for n in names:
      r = c.random()
      if r < 0.3 and structs and depth > 0:
        sn, sw, sl = c.choice(structs)
        if c.random() < 0.35:
          k = c.choice([2, 3])
          fields.append("'%s': [%s]*%d" % (n, sn, k))
          for i in range(k):
            leaves += [(".%s[%d]%s" % (n, i, p), w) for p, w in sl]
          width += sw * k
        else:
          fields.append("'%s': %s" % (n, sn))
          leaves += [(".%s%s" % (n, p), w) for p, w in sl]
          width += sw
      elif r < 0.45:
        # (lists of more than ten elements: element order must not follow the text order of the names)
        w, k = c.choice([1, 3, 4]), c.choice([2, 3, 3, 11, 12])
        fields.append("'%s': [Bits%d]*%d" % (n, w, k))
        leaves += [(".%s[%d]" % (n, i), w) for i in range(k)]
        width += w * k
      else:
        w = c.choice([1, 2, 3, 4, 5, 8, 12])
        fields.append("'%s': Bits%d" % (n, w))
        leaves.append((".%s" % n, w))
        width += w
    sn = "St%d_%s" % (len(structs), uid)
    L.append("%s = mk_bitstruct('%s', {%s})" % (sn, sn, ", ".join(fields)))
    structs.append((sn, width, leaves))
  for d in range(c.randint(2, 4)):
    mk(d)
  if c.random() < 0.25:
    return gen_same_name(c, uid, L)
  sn, sw, sl = [st for st in structs if st[1] <= 900][-1]      # Bits are limited to 1023 bits
  picks = c.sample(sl, min(len(sl), c.randint(1, 4)))
  # a struct OUTPUT with list fields is known finding F13 in the Yosys backend (flattened variables driven
  # twice): pass the struct through only when the tree has no list field
  has_list = any("[" in p for p, w in sl)
  body = ["    s.in_ = InPort(%s)" % sn, "    s.out_bits = OutPort(mk_bits(%d))" % sw] + \
         ([] if has_list else ["    s.out_st = OutPort(%s)" % sn])
  for j, (p, w) in enumerate(picks):
    body.append("    s.leaf%d = OutPort(Bits%d)" % (j, w))
  blk = ["    @update", "    def up():", "      s.out_bits @= s.in_"] + ([] if has_list else ["      s.out_st @= s.in_"])
  for j, (p, w) in enumerate(picks):
    blk.append("      s.leaf%d @= s.in_%s" % (j, p))
  L += ["", "class Core_%s(Component):" % uid, "  def construct(s):"] + body + blk + [""]
  if c.random() < 0.5 and not has_list:      # (a child's struct in-port with list fields: F13 again)
    L += ["class Top_%s(Component):" % uid, "  def construct(s):"] + body
    L.append("    s.core = %s" % ("Core_%s()" % uid))
    L.append("    s.core.in_ //= s.in_")
    L.append("    s.out_bits //= s.core.out_bits")
    if not has_list:
      L.append("    s.out_st //= s.core.out_st")
    for j in range(len(picks)):
      L.append("    s.leaf%d //= s.core.leaf%d" % (j, j))
  else:
    L += ["class Top_%s(Core_%s):" % (uid, uid), "  pass"]
  return "\n".join(L) + "\n", {"depth": len(structs), "width": sw, "leaves": len(sl)}


def gen_same_name(c, uid, L):
  """two DIFFERENT struct types that share the class name and the total width (a parametrised message
  factory called with two splits): req / resp ports of the two types, packed values and leaves observed"""
  total = c.choice([8, 12, 16])
  cut1 = c.randint(1, total - 1)
  cut2 = c.choice([x for x in range(1, total) if x != cut1])
  n1, n2 = c.sample(["opaque", "data", "k", "zz"], 2)
  L.append("def mk_msg_%s(a, b):" % uid)
  L.append("  return mk_bitstruct('Msg_%s', {'%s': mk_bits(a), '%s': mk_bits(b)})" % (uid, n1, n2))
  L.append("Req_%s = mk_msg_%s(%d, %d)" % (uid, uid, cut1, total - cut1))
  L.append("Resp_%s = mk_msg_%s(%d, %d)" % (uid, uid, cut2, total - cut2))
  L += ["", "class Top_%s(Component):" % uid, "  def construct(s):",
        "    s.req = InPort(Req_%s)" % uid, "    s.resp = InPort(Resp_%s)" % uid,
        "    s.req_bits = OutPort(mk_bits(%d))" % total, "    s.resp_bits = OutPort(mk_bits(%d))" % total,
        "    s.req_out = OutPort(Req_%s)" % uid, "    s.resp_out = OutPort(Resp_%s)" % uid,
        "    s.l0 = OutPort(mk_bits(%d))" % cut1, "    s.l1 = OutPort(mk_bits(%d))" % (total - cut2),
        "    @update", "    def up():", "      s.req_bits @= s.req", "      s.resp_bits @= s.resp",
        "      s.req_out @= s.req", "      s.resp_out @= s.resp",
        "      s.l0 @= s.req.%s" % n1, "      s.l1 @= s.resp.%s" % n2, ""]
  return "\n".join(L) + "\n", {"depth": 1, "width": total, "leaves": 2, "same_name_structs": 1}
