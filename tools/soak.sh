#!/bin/sh
# usage: tools/soak.sh <seed> <budget_s> [props...]   -- runs the thorough tier of each property with a wall budget
seed=$1; budget=$2; shift 2
props=${@:-C01 C02 C03 C07 C08 C09 C11 C12 C13 C14 C15 C16 C17 C18 C19 C20}
export VERIF_OUT_DIR=$(pwd)/.soak_out/$seed
mkdir -p $VERIF_OUT_DIR
for p in $props; do
  VERIF_SEED=$seed VERIF_BUDGET_S=$budget VERIF_NO_DETSAMPLE=1 bin/check $p --tier thorough 2>&1 | grep -v "^KNOWN-FINDING\|has no attribute" | tail -3 | cut -c1-600
done
