#!/usr/bin/env python3
"""Verify a seeded change produced by an independent sub-agent and record it.

usage: tools/seeded_verify.py <ID-dir under /tmp/seed> <name> <property> [more properties to try ...]

Steps (all in a fresh scratch worktree of /repo HEAD under $TMPDIR, removed afterwards):
  1. demo.py exits 0 on the unmodified tree;
  2. patch.diff applies; demo.py exits 1 on the patched tree;
  3. the repository's full test-suite passes exactly the baseline's stable set on the patched tree;
  4. our quick checks for the named properties run against the patched tree (VERIF_REPO);
  5. patch.diff, demo.py, meta.json (+ what we ran and which checks caught it) -> /verif/seeded/<name>/.
"""
import json
import os
import shutil
import subprocess
import sys
import tempfile
import xml.etree.ElementTree as ET

VERIF = os.path.dirname(os.path.dirname(os.path.abspath(__file__)))
REPO = "/repo"
PY = "/venv/bin/python"


def sh(cmd, cwd=None, env=None, timeout=3600):
  return subprocess.run(cmd, cwd=cwd, env=env, shell=isinstance(cmd, str), capture_output=True, text=True,
                        timeout=timeout)


def main():
  src, name, prop = sys.argv[1], sys.argv[2], sys.argv[3]
  more = sys.argv[4:]
  out = os.path.join(src, "OUT")
  tmp = tempfile.mkdtemp(prefix="verif-seed-")
  wt = os.path.join(tmp, "wt")
  rec = {"ran": []}
  try:
    sh(["git", "-C", REPO, "worktree", "add", "--detach", "-f", wt, "HEAD"])
    shutil.copytree(out, os.path.join(wt, "OUT"))
    env = dict(os.environ, PYTHONPATH=wt)
    r0 = sh([PY, "OUT/demo.py"], cwd=wt, env=env, timeout=900)
    rec["demo_unpatched_exit"] = r0.returncode
    rec["ran"].append("PYTHONPATH=<wt> python OUT/demo.py (unpatched) -> exit %d" % r0.returncode)
    ap = sh(["git", "apply", os.path.join(out, "patch.diff")], cwd=wt)
    rec["patch_applies"] = ap.returncode == 0
    if ap.returncode != 0:
      print("PATCH DOES NOT APPLY", ap.stderr[:500])
    r1 = sh([PY, "OUT/demo.py"], cwd=wt, env=env, timeout=900)
    rec["demo_patched_exit"] = r1.returncode
    rec["demo_patched_output"] = (r1.stdout + r1.stderr)[-1200:]
    rec["ran"].append("git apply patch.diff; python OUT/demo.py (patched) -> exit %d" % r1.returncode)
    # full test-suite on the patched tree
    xml = os.path.join(tmp, "junit.xml")
    t = sh([PY, "-m", "pytest", "-q", "-p", "no:cacheprovider", "--timeout=900", "--continue-on-collection-errors",
            "--junitxml=" + xml], cwd=wt, timeout=3000)
    stable = set(json.load(open("/root/.vp/BASELINE.json"))["stable_pass"])
    passed = set()
    for tc in ET.parse(xml).iter("testcase"):
      if not any(ch.tag in ("failure", "error", "skipped") for ch in tc):
        passed.add(tc.get("classname") + "::" + tc.get("name"))
    rec["suite_tail"] = t.stdout.strip().splitlines()[-1] if t.stdout.strip() else ""
    rec["stable_tests_broken"] = sorted(stable - passed)[:10]
    rec["ran"].append("full pytest suite on patched tree: %s; stable tests broken: %d"
                      % (rec["suite_tail"], len(stable - passed)))
    # our checks
    caught = {}
    for p in [prop] + more:
      e = dict(os.environ, VERIF_REPO=wt, VERIF_OUT_DIR=os.path.join(tmp, "out"), VERIF_NO_DETSAMPLE="1")
      r = sh([os.path.join(VERIF, "bin", "check"), p, "--tier", "quick"], env=e, timeout=3000)
      lines = [l for l in r.stdout.splitlines() if l.startswith(("VIOLATION", "HARNESS"))]
      caught[p] = {"exit": r.returncode, "first": lines[0][:400] if lines else r.stdout.strip()[-200:]}
      rec["ran"].append("VERIF_REPO=<patched wt> bin/check %s --tier quick -> exit %d" % (p, r.returncode))
    rec["checks"] = caught
    rec["caught_by"] = sorted(p for p, v in caught.items() if v["exit"] == 1 and v["first"].startswith("VIOLATION"))
  finally:
    sh(["git", "-C", REPO, "worktree", "remove", "--force", wt])
    shutil.rmtree(tmp, ignore_errors=True)
    sh(["git", "-C", REPO, "worktree", "prune"])
  ok = rec.get("demo_unpatched_exit") == 0 and rec.get("demo_patched_exit") == 1 and rec.get("patch_applies") \
      and not rec.get("stable_tests_broken")
  rec["confirmed"] = bool(ok)
  print(json.dumps({k: v for k, v in rec.items() if k != "demo_patched_output"}, indent=1))
  if ok:
    dst = os.path.join(VERIF, "seeded", name)
    os.makedirs(dst, exist_ok=True)
    shutil.copy(os.path.join(out, "patch.diff"), dst)
    shutil.copy(os.path.join(out, "demo.py"), dst)
    meta = {}
    try:
      meta = json.load(open(os.path.join(out, "meta.json")))
    except Exception:
      pass
    meta.update({"property": prop, "author": "independent sub-agent (saw only the property text)",
                 "verification": rec})
    json.dump(meta, open(os.path.join(dst, "meta.json"), "w"), indent=1)
    print("KEPT ->", dst, "caught_by", rec["caught_by"])
  else:
    print("NOT KEPT")


if __name__ == "__main__":
  main()
