#!/usr/bin/env python3
"""Regenerates /verif/MANIFEST.json from the table below (single source of
truth so the manifest stays valid while engines are added)."""
import json
import os

VERIF = os.path.dirname(os.path.dirname(os.path.abspath(__file__)))

NA = {
  "C04": "Bits arithmetic is a pure function of (width, a, b): no schedule, clock, fault, interleaving or "
         "history for a simulator to control; the fitting techniques are exhaustive small-width enumeration / SMT, "
         "which this task does not study (DESIGN.md section 5).",
  "C05": "slices/concat/ext/clog2 are pure functions of their arguments; nothing for deterministic simulation "
         "to schedule or fault (DESIGN.md section 5).",
  "C06": "bitstruct packing is a pure bijection on values; its only temporal clause (<<= visible after the flip, "
         "no aliasing) is exercised for struct registers inside C07 and only claimed there (DESIGN.md section 5).",
  "C10": "compares a static type analysis with one execution of one block: no order, time, fault or history "
         "dimension (DESIGN.md section 5).",
}

# id -> (engine, level category, level text, level note, technique, design ref)
CLAIMED = {}


def claim(pid, level, text, note, technique, ref):
  CLAIMED[pid] = (pid.lower(), level, text, note, technique, ref)


claim("C19", "exploration",
      "Seeded deterministic simulation of both arbiter classes for nreqs 2..9 under every scheduler (five real pass "
      "groups, their seeded-order variants, forced and adversarial linear extensions), with mid-run resets, input "
      "glitches and duplicate evaluations; every cycle is compared with a one-hot pointer model and the grant "
      "history is checked for the nreqs fairness window. Sampling, not proof.",
      "Trusts the 20-line pointer model written from the property statement; inputs change only between evaluations.",
      "deterministic simulation + seeded schedule/fault search, reference-model oracle", "DESIGN.md 4 C19")


claim("C01", "exploration",
      "Seeded generation of legal acyclic RTL designs (hierarchy incl. lists of lists of components, structs, lists, "
      "slices, nets, lambdas, loops, variable indices in any position, @s.func helpers, temporaries); each "
      "is simulated under 4 of 13 schedulers (the five real pass groups, the same passes fed their DAG metadata in a "
      "seeded order, and harness-chosen random / adversarial linear extensions of the pass-computed partial order, "
      "with permuted flip-flop blocks) with seeded inputs and faults (input glitches, duplicate evaluations, "
      "re-invocation of single blocks, mid-run resets, seeded object-hash order). After every evaluation and tick "
      "every signal of every component is compared with an independent integer reference evaluator that computes "
      "the unique solution of the dataflow equations by chaotic iteration. Sampling, not proof.",
      "Trusts the generator's legality rules (DESIGN.md Appendix C) and the ~350-line reference evaluator; forced "
      "extensions are linear extensions of the constraint set GenDAGPass produced (a missing constraint is exactly "
      "what they expose).",
      "deterministic simulation, seeded schedule/fault search, reference-model oracle", "DESIGN.md 4 C01")
claim("C02", "exploration",
      "A sys.setprofile recorder logs the exact order in which update blocks and net-propagation steps run inside "
      "an evaluation under every scheduler. Checked per evaluation: every block exactly once; for every pair (A,B) "
      "whose written/read bit sets (computed by an independent static analysis of the generated spec, followed "
      "through nets) overlap, A before B; the values a block saw at call time equal the values at the end of the "
      "pass; explicit U<U, RD(x)<U, WR(x)>U constraints incl. inversions are honoured on template designs; "
      "signal-free constraint cycles raise UpblkCyclicError in every scheduler.",
      "Read/write sets are over-approximated (both branches, variable index = whole signal). Direct method constraints "
      "(M(a)<M(b), U(x)<M(a), M(a)<U(x)) are checked on a CL template here; the open-loop scheduler (OpenLoopCLPass) is "
      "exercised by C17's open-loop queue workload.",
      "deterministic simulation with schedule recording, history check over block order", "DESIGN.md 4 C02")
claim("C07", "exploration",
      "ff_ring templates (swap rings, reversed shift chains, holds, overwritten assignments, struct and list "
      "registers, registers behind nets) and ff_heavy generated designs (incl. delay lines written through a constant "
      "and a loop-variable index, temporaries in sequential blocks, multi-register component hierarchies) under 3 of 13 schedulers with seeded "
      "permutations of the update_ff blocks, resets and glitches. Oracle: state after each tick equals the reference "
      "F(pre-edge state, inputs); a monitor firing on entry of the generated flip function sees every signal still at "
      "its pre-edge value.",
      "The flip monitor keys on the generated function name double_buffer/no_double_buffer.",
      "deterministic simulation, seeded ff-block permutation, reference-model oracle + pre-flip invariant", "DESIGN.md 4 C07")


claim("C11", "exploration",
      "Three design families with cyclic block graphs: false loops (generated acyclic designs whose blocks are merged "
      "so that the block graph is cyclic while the bit-level equations stay acyclic), true loops (or/and/mux/inverter/"
      "plus rings of 2..14 blocks, optionally through nets) and cycles containing an update_once block; run under the "
      "cyclic-capable schedulers (Dynamic, Mamba2020, both with seeded metadata order). Oracle: on return every block "
      "re-invoked alone changes nothing; false loops equal the reference evaluator; odd inverter rings raise "
      "UpblkCyclicError, convergent families never do; invocation count bounded; acyclic-only schedulers raise on a "
      "cyclic graph instead of scheduling it.",
      "dump_dag is stubbed (S9) so the acyclic-only passes' own UpblkCyclicError is observable on a headless machine; "
      "convergent templates are assumed to need far fewer than 100 passes.",
      "deterministic simulation, seeded schedule search, fixed-point invariant + reference model", "DESIGN.md 4 C11")
claim("C16", "exploration",
      "The real VcdGenerationPass / PrintTextWavePass write into an in-memory file; a profile hook samples every "
      "signal of every component at the instant the dump function is entered (the cycle's edge). An independent VCD "
      "reader must give value_at(100*t) == sample[t] for every signal and cycle (also for seeded prefixes of the file), "
      "the $var set and widths must match the design, initial values are type defaults, the clock toggles once per "
      "cycle, and the text-wave record holds the same per-cycle values.",
      "Timing model: cycle t = t-th dump call (sim_reset's cycles included), changes under '#100t' belong to time 100t.",
      "deterministic simulation with in-memory I/O seam, history check of the written artefact", "DESIGN.md 4 C16")


claim("C17", "exploration",
      "All 20 RTL queue classes (enq/deq, send/recv en-rdy, val-rdy, stream interfaces; normal/pipe/bypass; 1-entry "
      "and multi-entry forms, capacities 1..6 incl. non-powers of two, Bits and struct entries) and the 3 CL queues "
      "are driven for 40..200 cycles with seeded offers biased to the full/empty boundaries and to simultaneous "
      "enq+deq, under every scheduler, with mid-run resets where the class reads reset. Every cycle rdy/val/en, head "
      "message and count/num_free_entries are compared with a deque model per kind; the delivered sequence must equal "
      "the accepted sequence; after offers stop the queue drains within cap+1 cycles. CL queues run inside a generated "
      "top whose producer/consumer update_once blocks are ordered by the real scheduler from the queues' M() constraints, "
      "and additionally behind OpenLoopCLPass, where top-level enq/deq methods are called one at a time and rdy values, "
      "FIFO order and the cycle roll-over rule (a method positioned earlier called after a later one starts a new "
      "cycle) are checked against a sequential deque model.",
      "valrdy_queues.py is not importable as shipped (InValRdyIfc missing); the harness supplies val/rdy/msg interfaces "
      "to reach its logic. en is asserted only when the model says rdy. Known finding F11 (BypassQueue2RTL) is listed in "
      "known_findings.json.",
      "deterministic simulation of reactive components, seeded offer/stall/reset histories, FIFO refinement oracle",
      "DESIGN.md 4 C17")


claim("C18", "exploration",
      "MagicMemoryCL (1..4 ports, latency 0..8), stream.MagicMemoryRTL (1..3 ports, extra latency 0..6) and "
      "MagicMemoryFL behind its blocking interface are driven by our own sources (seeded gaps) and recording sinks "
      "(seeded back-pressure) with per-port streams of READ/WRITE (len 1..4, straddling, overlapping in a 64-byte "
      "window) and word AMOs; the stall randomness inside StallCL/RandomStall comes from the seeded stall stream and "
      "stops at a seeded cycle. Wrappers on the MagicMemoryFL instance record the order in which requests were "
      "processed (port and opaque read from the caller frame of up_mem). History checks: per-port processed order = "
      "request order; responses in order with type/opaque; every returned value equals a byte-dictionary model "
      "applied in processed order; an AMO is applied exactly once; final image equals the model; after faults stop "
      "all outstanding responses arrive within outstanding+latency+4 cycles; single-port histories re-run with other "
      "timing parameters return identical contents.",
      "Sub-word AMOs are excluded (implementation raises; AMOs are defined at the architecture width). A request that "
      "is re-processed while stalled is mirrored event by event by the model (sound for reads/writes); AMO double "
      "application is flagged only when no other port wrote the word in between.",
      "deterministic simulation of reactive components, seeded stall/latency/back-pressure faults, sequential-spec oracle "
      "over the recorded processing order", "DESIGN.md 4 C18")


claim("C20", "exploration",
      "TinyRV0 programs generated against tinyrv0-isa.md with our own bit-level encoder (all ten instructions, few "
      "registers to force hazards, forward branches, counted backward loops, loads/stores through base and computed "
      "address registers, csr traffic to manager and accelerator, shifts by >= 32, writes to x0, load-use-branch and "
      "manager-read-in-branch-shadow hazard patterns) run on ProcFL, ProcCL "
      "and ProcRTL inside the repository's harness wiring (MagicMemoryCL, NullXcelRTL, adapters inserted by connect) "
      "with our seeded-gap source, recording back-pressured sink, seeded memory stalls and latencies 1..6. Each level "
      "must deliver exactly the proc2mngr sequence, consume exactly the mngr2proc words and leave exactly the data "
      "window our ~60-line ISA interpreter computes, with the text section untouched, within a configuration-derived "
      "cycle bound. Checksum: random/boundary 8x16-bit inputs through ChecksumFL/CL/RTL against a four-line spec.",
      "Programs are terminating by construction and end by parking on csrr mngr2proc with an exhausted source; "
      "unaligned accesses (undefined in the ISA) are never generated.",
      "deterministic simulation of the composed system, seeded timing faults, ISA-interpreter oracle on the message "
      "history and final memory image", "DESIGN.md 4 C20")


claim("C08", "exploration",
      "Generated hierarchies biased to connections (whole signals, slices, slices of slices, bits, struct fields, "
      "constants, through ports over up to three levels, chains whose writer is a slice/field of an earlier net's "
      "reader) are elaborated under 5 orderings each (seeded permutation of all statements per component, swapped "
      "connect sides, duplicated signal-signal connects, seeded object-hash order). For every ordering "
      "get_all_value_nets() must equal, as name sets with writers, the connected components and unique roots computed "
      "by an independent union-find over the spec's connect statements; under two schedulers every signal equals the "
      "integer reference evaluator (every net member carries its writer's value).",
      "Duplicating a constant connect creates a second constant driver and is legitimately rejected, so only "
      "signal-signal connects are duplicated.",
      "seeded order/fault search over elaboration + deterministic simulation, union-find and reference-model oracles",
      "DESIGN.md 4 C08")
claim("C14", "exploration",
      "After every elaboration of generated hierarchies (nested component lists, port/wire lists, struct signals with "
      "nested struct and list fields, slices, bits; and a hierarchy-only family with interfaces, nested interfaces, "
      "1-3 dimensional lists of interfaces and components, method ports and pass-through interface connects) under 4 orderings incl. a seeded order in which slice/field "
      "signals are first touched: every object (incl. lazily created field and slice signals) has a unique repr, "
      "eval(repr(o), {'s': top}) is o, parent/host/level/top-level-signal metadata agree with the name, a slice of a "
      "slice is the very object naming the composed bit range, and the name set is the same for all orderings.",
      "The program dimension is plain generation; the part this technique adds is the order dimension (statement "
      "order, hash order, lazy-creation order).",
      "seeded order search over elaboration, step invariant on the name space", "DESIGN.md 4 C14")


claim("C03", "translation_validation",
      "Every design (generated 'translatable' DesignSpecs covering the constructs the translation documentation lists; "
      "a corpus of real RTL from pymtl3.stdlib and the examples incl. ProcRTL; the repository's ~250 translator "
      "test-case DUTs; generated interface-centred designs with N-dimensional interface / component lists and permuted "
      "interface-level connects; multi-instance parametrised designs; struct-port layout designs (random struct trees, "
      "struct -> Bits, pass-through, leaf reads); tiny probes of known findings) is translated by the real VerilogTranslationPass with its file "
      "I/O bound to an in-memory directory; the emitted text must parse and elaborate, have exactly one driver per "
      "variable bit, no blocking assignment in always_ff, and a port list equal to the one derived from the PyMTL port "
      "types; it is then executed by svsim next to the PyMTL simulation of a second instance for 8..60 cycles of seeded "
      "inputs with glitches and mid-run resets under two seeded orders of svsim's active processes, comparing every "
      "output port after every settle and every clock edge.",
      "The SystemVerilog side is executed by /verif/dsim/svsim, our ~4000-line model of IEEE 1800 two-state semantics "
      "(context-determined sizing, NBA region, seeded process order), NOT by Verilator: a stub whose faithfulness is "
      "argued by 177 unit tests and by cycle-exact agreement with PyMTL on the corpus. Designs the translator rejects "
      "with its own error type are outside the property and only counted. Known findings F5 F7 F17 F19 are listed in "
      "known_findings.json.",
      "translation validation by deterministic co-simulation with a seeded SV process scheduler", "DESIGN.md 4 C03, 3.4")
claim("C12", "translation_validation",
      "As C03 with the real YosysTranslationPass: the flat port list (struct field p__f, array element p__i, "
      "interface member ifc__m, first field most significant) is derived from the type shape of each PyMTL port without "
      "calling translator code, must equal the emitted module's port list in names, widths and directions, each flat "
      "input is driven with the corresponding slice of the PyMTL port's packed value and each flat output compared with "
      "the corresponding slice, every cycle.",
      "Same svsim stub as C03; svsim reads a signed index expression N'(integer) as unsigned here (strict IEEE 1800 "
      "6.24.1 would make Encoder-style loops index out of range; recorded in DESIGN.md as unconfirmable offline). The "
      "Yosys backend has several genuine defects with struct-typed signals (F13 F14 F15 F16 F18 in known_findings.json); "
      "they are recognised from the shape of the emitted text, everything else is still reported.",
      "translation validation by deterministic co-simulation with a seeded SV process scheduler", "DESIGN.md 4 C12")
claim("C13", "exploration",
      "Batches of designs (generated DesignSpecs, parameterised template classes at colliding int/Bits/type/list/string "
      "parameter values incl. lists long enough to trigger name hashing and pairs that differ only in their last element, "
      "defaults passed positionally / by keyword / skipped / overridden through set_param, the same class+parameters at several "
      "positions, stdlib corpus, repository test-case DUTs, probes) are translated by both backends in three fresh "
      "interpreters with different PYTHONHASHSEED values, different seeded object-hash streams and ASLR on. The texts "
      "must be byte-identical; every module must be defined once and every instantiated module defined, identifiers "
      "legal and unique (svsim parser); and for every component instance a fresh copy translated alone must yield, "
      "under its module name, the body the combined translation emitted under that name (block labels and "
      "lambda-derived identifiers normalised), otherwise two instances alias different hardware; and inside the parent's "
      "module every instance must instantiate the module its (class, arguments) gets when translated alone.",
      "Interpreter-level nondeterminism (hash seed, ASLR) is the explored fault; all interpreters share one working "
      "directory because emitted comments contain source paths. Known findings F7 F22 F23.",
      "seeded multi-process search over hash-seed/ASLR nondeterminism + history check over the emitted artefacts",
      "DESIGN.md 4 C13")


claim("C15", "exploration",
      "Generated hierarchies (depth <= 3, component lists) whose child classes come in families with one external "
      "interface and different insides (update blocks, flip-flops, constants connected inside, explicit U / RD / WR "
      "constraints, nested children, lists), plus hand-written interface and CL families (interfaces, update_once "
      "blocks, non-blocking methods, M constraints), are mutated by histories of 1..6 replace_component / "
      "replace_component_with_obj operations on fields and elements of 1-2 dimensional lists at depth 1..2 incl. re-replacement. After "
      "EVERY operation the mutated design is compared with a twin built from scratch from a rewritten spec: component, "
      "signal and named-object name sets with kinds, nets with writers, adjacency, update blocks with read / write / "
      "call sets, all four explicit-constraint tables, update_ff / update_once sets (all keyed by names); the C14 name "
      "invariant holds; a walker over everything reachable from top finds no <deleted> object; finally both designs "
      "are simulated to identical traces.",
      "Dead slice/field objects that take part in no connection and no block's read/write set (by-products of "
      "evaluating s.x[3:19][1:7]) are left out of the signal-set comparison. Eight genuine defects found by this "
      "check were repaired by fix: commits (known_findings.json, 'fixed').",
      "deterministic simulation of an operation history, refinement against a from-scratch reference build",
      "DESIGN.md 4 C15")


claim("C09", "exploration",
      "A legal generated design (which must elaborate under every ordering: the converse direction) receives one "
      "injected structural defect drawn from 15 kinds (incl. a constant tied from a forbidden hierarchical position): second driver (block+block on the same signal / an overlapping "
      "slice / a struct field and its parent, block+net, net+net via an extra connect), removed driver of a net, extra "
      "connect closing a loop, read of a child's wire, write of an own InPort / a child's OutPort / a child's Wire, "
      "wrong assignment operator in update / update_ff, <<= to a slice. For each of 4 orderings (statement "
      "permutation, swapped connect sides, object-hash stream) elaborate() must raise an error whose class belongs to "
      "the defect kinds present in the mutated spec; accepting the design or raising an unrelated class is a "
      "violation. Probes re-check legal shapes that pymtl3 rejected (known findings F10, F31; fixed F21).",
      "The accepted error classes per injected defect are derived from the port-direction table and error texts "
      "transcribed in DESIGN.md Appendix B; where an injection necessarily creates two defect kinds (e.g. writing a "
      "child's OutPort that the child also drives) both classes are accepted. Don't-care shapes are never generated.",
      "seeded defect injection + seeded order search over elaboration, error-class oracle from an independent analysis",
      "DESIGN.md 4 C09")


def main():
  props = [json.loads(l)["id"] for l in open(os.path.join(VERIF, "properties.jsonl"))]
  checks = []
  for pid in props:
    if pid not in CLAIMED:
      continue
    eng, level, text, note, tech, ref = CLAIMED[pid]
    checks.append({
      "property_id": pid,
      "quick_cmd": "bin/check %s --tier quick" % pid,
      "thorough_cmd": "bin/check %s --tier thorough" % pid,
      "evidence_file": "/verif/evidence/%s.json" % pid,
      "replay_cmd_template": "bin/check %s --replay {path}" % pid,
      "engine": "dsim.engines." + eng,
      "level_claimed": {"category": level, "text": text, "design_ref": ref},
      "level_note": note,
      "technique": tech,
    })
  na = []
  for pid in props:
    if pid in CLAIMED:
      continue
    reason = NA.get(pid, "check not built yet in this session (planned, see DESIGN.md section 10); not claimed until it exists")
    na.append({"property_id": pid, "reason": reason})
  man = {
    "version": 1,
    "setup_cmd": "bin/setup",
    "hooks": {
      "guard": "PYMTL3_VERIF",
      "enable": "none needed: all seams are harness-side monkeypatches installed by bin/check (DESIGN.md 2.2); "
                "bin/check sets PYMTL3_VERIF=1 but no source in /repo reads it",
      "baseline_off_cmd": "cd /repo && /venv/bin/python -m pytest -ra -q -p no:cacheprovider --timeout=900 "
                          "--continue-on-collection-errors",
      "source_commits": [],
      "add_only": True,
    },
    "engines": [
      {"name": "dsim", "path": "/verif/dsim", "serves_properties": sorted(CLAIMED),
       "kind_free_text": "in-process deterministic simulator for pymtl3: seeded scheduler over update blocks, "
                         "seeded fault injection, reference models, ddmin shrinker, replay files"}],
    "checks": checks,
    "not_applicable": na,
    "notes": "One entry point bin/check <id>; exit 0 ok, 1 VIOLATION (with replay file), 2 HARNESS-ERROR. "
             "VERIF_SEED / VERIF_TIER / VERIF_BUDGET_S honoured. known_findings.json lists genuine unrepaired defects.",
  }
  with open(os.path.join(VERIF, "MANIFEST.json"), "w") as f:
    json.dump(man, f, indent=1)
  print("claimed:", sorted(CLAIMED), "n/a:", [x["property_id"] for x in na])


if __name__ == "__main__":
  main()
