#!/usr/bin/env python3
"""Run the repository's full test-suite on /repo's working tree (or a given tree) and compare with the
pinned baseline's stable-pass set.  usage: tools/baseline_check.py [tree]   exit 0 iff no stable test broke"""
import json
import os
import subprocess
import sys
import tempfile
import xml.etree.ElementTree as ET

tree = sys.argv[1] if len(sys.argv) > 1 else "/repo"
tmp = tempfile.mkdtemp(prefix="verif-base-")
xml = os.path.join(tmp, "junit.xml")
t = subprocess.run(["/venv/bin/python", "-m", "pytest", "-q", "-p", "no:cacheprovider", "--timeout=900",
                    "--continue-on-collection-errors", "--junitxml=" + xml], cwd=tree, capture_output=True, text=True)
stable = set(json.load(open("/root/.vp/BASELINE.json"))["stable_pass"])
passed = set()
for tc in ET.parse(xml).iter("testcase"):
  if not any(ch.tag in ("failure", "error", "skipped") for ch in tc):
    passed.add(tc.get("classname") + "::" + tc.get("name"))
broken = sorted(stable - passed)
print(t.stdout.strip().splitlines()[-1])
print("stable tests: %d, broken: %d %s" % (len(stable), len(broken), broken[:10]))
subprocess.run(["rm", "-rf", tmp])
subprocess.run(["git", "-C", tree, "clean", "-fdq"])
sys.exit(1 if broken else 0)
