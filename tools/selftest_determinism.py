#!/usr/bin/env python3
"""Determinism self-test (DESIGN.md 2.5): for every engine, N run indices are executed in
fresh interpreters under two PYTHONHASHSEED values (ASLR on), split over different numbers of
processes, and the run digests are compared.
usage: tools/selftest_determinism.py [N] [props...]"""
import os
import subprocess
import sys
from concurrent.futures import ThreadPoolExecutor

VERIF = os.path.dirname(os.path.dirname(os.path.abspath(__file__)))
ALL = "C01 C02 C03 C07 C08 C09 C11 C12 C13 C14 C15 C16 C17 C18 C19 C20".split()


def digests(prop, idx, hashseed, nproc):
  chunks = [idx[i::nproc] for i in range(nproc)]
  out = {}

  def one(ch):
    if not ch:
      return ""
    p = subprocess.run([os.path.join(VERIF, "bin", "check"), prop, "--digest-of", ",".join(map(str, ch))],
                       capture_output=True, text=True, timeout=3000,
                       env=dict(os.environ, PYTHONHASHSEED=str(hashseed), VERIF_NO_REEXEC="1"))
    return p.stdout
  with ThreadPoolExecutor(nproc) as ex:
    for text in ex.map(one, chunks):
      for line in text.splitlines():
        if line.startswith("DIGEST "):
          _, i, d = line.split()
          out[int(i)] = d
  return out


def main():
  args = sys.argv[1:]
  n = int(args[0]) if args and args[0].isdigit() else 200
  props = [a for a in args if not a.isdigit()] or ALL
  bad = 0
  for prop in props:
    k = n if prop != "C13" else max(6, n // 20)
    idx = list(range(0, k))
    a = digests(prop, idx, 0, 3)
    b = digests(prop, idx, 7, 5)
    miss = [i for i in idx if i not in a or i not in b]
    diff = [i for i in idx if i in a and i in b and a[i] != b[i]]
    print("%s: %d indices, %d missing, %d digest mismatches %s" % (prop, len(idx), len(miss), len(diff), diff[:5]))
    sys.stdout.flush()
    bad += len(miss) + len(diff)
  print("DETERMINISM", "OK" if not bad else "FAILED")
  return 1 if bad else 0


if __name__ == "__main__":
  sys.exit(main())
