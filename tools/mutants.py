#!/usr/bin/env python3
"""Sensitivity self-test: hand-written mutants of the anchored mechanisms
(DESIGN.md 9a).  For each mutant: git worktree of /repo under $TMPDIR (outside
/repo and /verif), textual replacement, run the named quick checks against it
through VERIF_REPO, report killed / survived, remove the worktree.

usage: tools/mutants.py [-j N] [--runs N] [name ...]
"""
import json
import os
import shutil
import subprocess
import sys
import tempfile
from concurrent.futures import ThreadPoolExecutor

VERIF = os.path.dirname(os.path.dirname(os.path.abspath(__file__)))
REPO = "/repo"

# name: (file, old, new, [properties expected to kill it])
M = {}


def mut(name, file, old, new, props):
  M[name] = (file, old, new, props)


# -- scheduling / DAG ---------------------------------------------------------
mut("gendag_no_sibling_slices", "pymtl3/passes/sim/GenDAGPass.py",
    "          if x.slice_overlap( obj ) and x in write_upblks:",
    "          if False and x.slice_overlap( obj ) and x in write_upblks:", ["C02", "C01"])
mut("gendag_parent_walk_one_level", "pymtl3/passes/sim/GenDAGPass.py",
    """      x = obj
      while x.is_signal():
        if x in write_upblks:
          writers.append( x )
        x = x.get_parent_object()
""",
    """      x = obj
      for _i in range(2):
        if not x.is_signal(): break
        if x in write_upblks:
          writers.append( x )
        x = x.get_parent_object()
""", ["C02", "C01"])
mut("gendag_netblk_writes_drop_top", "pymtl3/passes/sim/GenDAGPass.py",
    "      top._dag.genblk_writes[ blk ] = all_readers\n\n    # Get the final",
    "      top._dag.genblk_writes[ blk ] = readers\n\n    # Get the final", ["C02", "C01"])
mut("simple_sched_release_early", "pymtl3/passes/sim/SimpleSchedulePass.py",
    "        InD[v] -= 1\n        if not InD[v]:\n          Q.append( v )\n\n    check_schedule",
    "        InD[v] -= 1\n        if InD[v] <= 1 and v not in Q and v not in update_schedule:\n          Q.append( v )\n\n    check_schedule",
    ["C02", "C01"])
mut("preparesim_no_comb_after_flip", "pymtl3/passes/sim/PrepareSimPass.py",
    "    final_schedule += self.collect_ff_funcs( top )\n    final_schedule += top._sched.update_schedule\n    final_schedule.append( top._sim.check_top_level_inports )\n    top.sim_tick = SimpleTickPass",
    "    final_schedule += self.collect_ff_funcs( top )\n    final_schedule.append( top._sim.check_top_level_inports )\n    top.sim_tick = SimpleTickPass",
    ["C01"])
mut("mamba_ff_lose_trailing_meta", "pymtl3/passes/mamba/Mamba2020Pass.py",
    "    if cur_meta:\n      schedule.append( self.compile_meta_block( cur_meta ) )\n\n  #-----------------------------------------------------------------------\n  # schedule_intra_cycle",
    "    if cur_meta and len(schedule) == 0:\n      schedule.append( self.compile_meta_block( cur_meta ) )\n\n  #-----------------------------------------------------------------------\n  # schedule_intra_cycle",
    ["C07", "C01"])
mut("dynamic_iter_bound_1", "pymtl3/passes/sim/DynamicSchedulePass.py",
    "    if N > 100:", "    if N > 1:", ["C11"])
mut("dynamic_no_struct_field_watch", "pymtl3/passes/sim/DynamicSchedulePass.py",
    "          elif is_bitstruct_class( w._dsl.Type ):\n            if w not in final_variables:\n              final_variables.add( x )",
    "          elif is_bitstruct_class( w._dsl.Type ):\n            pass", ["C11"])
mut("bits_ilshift_leaks_small", "pymtl3/datatypes/PythonBits.py",
    "      self._next = v.to_bits()._uint\n    except AttributeError:",
    "      self._next = v.to_bits()._uint\n      if nbits == 33: self._uint = self._next\n    except AttributeError:",
    ["C07"])
mut("flip_skips_last_top_signal", "pymtl3/passes/sim/SimpleSchedulePass.py",
    "        for z in sorted(y, key=repr):\n          strs.append(f\"    {repr(z)}._flip()\")",
    "        for z in sorted(y, key=repr)[:max(1,len(y)-1)] if len(y) > 3 else sorted(y, key=repr):\n          strs.append(f\"    {repr(z)}._flip()\")",
    ["C07", "C01"])
mut("lock_no_prime_next", "pymtl3/passes/sim/PrepareSimPass.py",
    "              setattr( current_obj, i, value )\n              signal_object_mapping[obj] = (current_obj, i, False, value)",
    "              value._next = 1\n              setattr( current_obj, i, value )\n              signal_object_mapping[obj] = (current_obj, i, False, value)",
    ["C07", "C01"])
mut("struct_ilshift_alias", "pymtl3/datatypes/bitstructs.py",
    "      return [ f\"self.{prefix} <<= other.{prefix}\" ], [f\"self.{prefix}._flip()\"]",
    "      return [ f\"self.{prefix} = other.{prefix}\" ], [f\"self.{prefix}._flip()\"]",
    ["C07"])
mut("mamba_ff_meta_drop_when_full", "pymtl3/passes/mamba/Mamba2020Pass.py",
    "        if cur_br >= branchiness_factor or cur_count >= branchy_block_factor:\n          schedule.append( self.compile_meta_block( cur_meta ) )\n          cur_br = cur_count = 0\n          cur_meta = []\n\n    if cur_meta:",
    "        if cur_br >= branchiness_factor or cur_count >= branchy_block_factor:\n          schedule.append( self.compile_meta_block( cur_meta[1:] ) )\n          cur_br = cur_count = 0\n          cur_meta = []\n\n    if cur_meta:",
    ["C07", "C01"])


mut("mamba_scc_drop_meta", "pymtl3/passes/mamba/Mamba2020Pass.py",
    "          for i, meta in enumerate( scc_schedule ):\n            b = self.compile_meta_block( meta )",
    "          for i, meta in enumerate( scc_schedule[:-1] if len(scc_schedule) > 2 else scc_schedule ):\n            b = self.compile_meta_block( meta )",
    ["C11"])
mut("mamba_scc_iter_no_recheck", "pymtl3/passes/mamba/Mamba2020Pass.py",
    "        check_srcs.append( f\"if { ' or '.join(sub_check_srcs)}: continue\" )\n\n      # Divide all blks",
    "        check_srcs.append( f\"if N < 2 and ({ ' or '.join(sub_check_srcs)}): continue\" )\n\n      # Divide all blks",
    ["C11"])


mut("vcd_no_last_value_update", "pymtl3/passes/tracing/VcdGenerationPass.py",
    "        if last_values[i] != net_bits_bin_str:\n          last_values[i] = net_bits_bin_str\n",
    "        if last_values[i] != net_bits_bin_str:\n          if i % 5 != 4: last_values[i] = net_bits_bin_str\n", ["C16"])
mut("vcd_wrong_neg_edge", "pymtl3/passes/tracing/VcdGenerationPass.py",
    "      next_neg_edge = 100 * vcd_sim_ncycles + 50", "      next_neg_edge = 100 * vcd_sim_ncycles + (50 if vcd_sim_ncycles < 7 else 100)", ["C16"])
mut("vcd_str_padding", "pymtl3/datatypes/PythonBits.py",
    '      str = f"b{int(self._uint):0{self._nbits}b} "', '      str = f"b{int(self._uint):b}0 " if self._nbits == 5 else f"b{int(self._uint):0{self._nbits}b} "', ["C16"])
mut("vcd_compare_wrong_net", "pymtl3/passes/tracing/VcdGenerationPass.py",
    "        if last_values[i] != net_bits_bin_str:\n", "        if last_values[i-1 if i > 6 else i] != net_bits_bin_str:\n", ["C16"])
mut("textwave_skip_level2", "pymtl3/passes/tracing/PrintTextWavePass.py",
    "      if x.is_top_level_signal() and x.get_field_name() != \"clk\" and x.get_field_name() != \"reset\":",
    "      if x.is_top_level_signal() and x.get_field_name() != \"clk\" and x.get_field_name() != \"reset\" and x._dsl.level < 3:", ["C16"])


mut("queue_ptr_wrap_le", "pymtl3/stdlib/queues/queues.py",
    "          s.head <<= s.head + PtrType(1) if s.head < s.last_idx else PtrType(0)\n\n        if s.enq_xfer:\n          s.tail <<= s.tail + PtrType(1) if s.tail < s.last_idx else PtrType(0)\n\n        if s.enq_xfer & ~s.deq_xfer:\n          s.count <<= s.count + CountType(1)\n        if ~s.enq_xfer & s.deq_xfer:\n          s.count <<= s.count - CountType(1)\n\n#-------------------------------------------------------------------------\n# NormalQueueRTL",
    "          s.head <<= s.head + PtrType(1) if s.head <= s.last_idx else PtrType(0)\n\n        if s.enq_xfer:\n          s.tail <<= s.tail + PtrType(1) if s.tail < s.last_idx else PtrType(0)\n\n        if s.enq_xfer & ~s.deq_xfer:\n          s.count <<= s.count + CountType(1)\n        if ~s.enq_xfer & s.deq_xfer:\n          s.count <<= s.count - CountType(1)\n\n#-------------------------------------------------------------------------\n# NormalQueueRTL",
    ["C17"])
mut("pipe1_enq_rdy_no_deq", "pymtl3/stdlib/queues/queues.py",
    "    s.enq.rdy //= lambda: ~s.reset & ( ~s.full | s.deq.en )", "    s.enq.rdy //= lambda: ~s.reset & ( ~s.full )", ["C17"])
mut("bypass_deq_rdy_no_enq", "pymtl3/stdlib/queues/queues.py",
    "    s.deq_rdy //= lambda: ~s.reset & ( (s.count > CountType(0) ) | s.enq_en )",
    "    s.deq_rdy //= lambda: ~s.reset & ( (s.count > CountType(0) ) )", ["C17"])
mut("clq_swap_constraints", "pymtl3/stdlib/queues/cl_queues.py",
    "      M( s.peek   ) < M( s.enq  ),\n      M( s.deq    ) < M( s.enq  )",
    "      M( s.peek   ) < M( s.enq  ),\n      M( s.enq    ) < M( s.deq  )", ["C17"])
mut("streamq_count_simul", "pymtl3/stdlib/stream/queues.py",
    "        if s.recv_xfer & ~s.send_xfer:\n          s.count <<= s.count + 1\n        elif ~s.recv_xfer & s.send_xfer:\n          s.count <<= s.count - 1\n\n#-------------------------------------------------------------------------\n# NormalQueueRTL",
    "        if s.recv_xfer:\n          s.count <<= s.count + 1\n        elif ~s.recv_xfer & s.send_xfer:\n          s.count <<= s.count - 1\n\n#-------------------------------------------------------------------------\n# NormalQueueRTL",
    ["C17"])


mut("magicmem_rtl_reprocess_revert_fix", "pymtl3/stdlib/stream/magic_memory.py",
    "        if s.req_stalls[i].send.val & s.req_stalls[i].send.rdy:\n", "        if s.req_stalls[i].send.val:\n", ["C18"])
mut("bytearray_read_off_by_one", "pymtl3/extra/pypy/fast_bytearray_funcs.py",
    "    addr  = begin + nbytes - 1\n", "    addr  = begin + nbytes - 1 - (1 if nbytes == 3 else 0)\n", ["C18"])
mut("amo_min_unsigned", "pymtl3/stdlib/mem/MagicMemoryFL.py",
    "             MemMsgType.AMO_MIN  : lambda m,a : m if m.int() < a.int() else a,",
    "             MemMsgType.AMO_MIN  : lambda m,a : m if m < a else a,", ["C18"])
mut("delaypipe_rotate_occupied", "pymtl3/stdlib/delays/DelayPipeCL.py",
    "        if s.pipeline[-1] is None:\n          s.pipeline.rotate()\n\n      # Model decoupled",
    "        if s.pipeline[-1] is None or s.delay == 1:\n          s.pipeline.rotate()\n\n      # Model decoupled", ["C18", "C20"])
mut("magicmem_cl_port_priority_skip", "pymtl3/stdlib/mem/MagicMemoryCL.py",
    "            s.mem.write( req.addr, len_, req.data[0:len_<<3] )\n            # FIXME do we really set len=0 in response when doing subword wr?\n            # resp = resp_classes[i]( req.type_, req.opaque, 0, req.len, 0 )\n            resp = resp_classes[i]( req.type_, req.opaque, 0, 0, 0 )\n\n          #\n          # AMOs",
    "            s.mem.write( req.addr, len_, req.data[0:len_<<3] if i < 3 else req.data[0:8] )\n            # FIXME do we really set len=0 in response when doing subword wr?\n            # resp = resp_classes[i]( req.type_, req.opaque, 0, req.len, 0 )\n            resp = resp_classes[i]( req.type_, req.opaque, 0, 0, 0 )\n\n          #\n          # AMOs", ["C18"])

mut("procrtl_no_byp_m_rs2", "examples/ex03_proc/ProcCtrlRTL.py",
    "        elif s.val_M & ( s.inst_D[ RS2 ] == s.rf_waddr_M ) & ( s.rf_waddr_M != 0 ) \\\n                     & s.rf_wen_pending_M:    s.op2_byp_sel_D @= byp_m",
    "        elif s.val_M & ( s.inst_D[ RS2 ] == s.rf_waddr_M ) & ( s.rf_waddr_M != 0 ) \\\n                     & s.rf_wen_pending_M & False:    s.op2_byp_sel_D @= byp_m", ["C20"])
mut("procrtl_no_ld_use_stall_rs2", "examples/ex03_proc/ProcCtrlRTL.py",
    "      s.ostall_hazard_D  @= s.ostall_ld_X_rs1_D   | s.ostall_ld_X_rs2_D | \\",
    "      s.ostall_hazard_D  @= s.ostall_ld_X_rs1_D   | \\", ["C20"])
mut("procrtl_squash_ignores_stall", "examples/ex03_proc/ProcCtrlRTL.py",
    "      s.osquash_X @= s.val_X & ~s.stall_X & s.pc_redirect_X", "      s.osquash_X @= s.val_X & s.pc_redirect_X", ["C20"])
mut("procrtl_x0_bypass", "examples/ex03_proc/ProcCtrlRTL.py",
    "        if   s.val_X & ( s.inst_D[ RS1 ] == s.rf_waddr_X ) & ( s.rf_waddr_X != 0 ) \\",
    "        if   s.val_X & ( s.inst_D[ RS1 ] == s.rf_waddr_X ) \\", ["C20"])
mut("procfl_srl_mask", "examples/ex03_proc/ProcFL.py",
    "          s.R[inst.rd] = s.R[inst.rs1] >> (s.R[inst.rs2].uint() & 0x1F)",
    "          s.R[inst.rd] = s.R[inst.rs1] >> (s.R[inst.rs2].uint() & 0x3F)", ["C20"])
mut("proccl_bne_target", "examples/ex03_proc/ProcCL.py",
    "              s.redirected_pc_DXM = pc + sext(inst.b_imm, 32)",
    "              s.redirected_pc_DXM = pc + zext(inst.b_imm, 32)", ["C20"])


mut("resolve_parents_propagatable", "pymtl3/dsl/ComponentLevel3.py",
    "        obj = obj.get_parent_object()\n        while obj.is_signal():\n          writer_prop[ obj ] = False\n          obj = obj.get_parent_object()",
    "        obj = obj.get_parent_object()\n        while obj.is_signal():\n          writer_prop[ obj ] = True\n          obj = obj.get_parent_object()",
    ["C08", "C09"])
mut("field_name_omits_list_index", "pymtl3/dsl/Connectable.py",
    "            xd.full_name   = f\"{sd.full_name}.{name}\"+\"\".join([ f\"[{y}]\" for y in indices ])",
    "            xd.full_name   = f\"{sd.full_name}.{name}\"", ["C14", "C08"])
mut("slice_of_slice_no_offset", "pymtl3/dsl/Connectable.py",
    "      start += outer_start\n      stop  += outer_start\n", "      start += 0\n      stop  += 0\n", ["C14", "C08", "C01"])
mut("net_sibling_overlap_ignored", "pymtl3/dsl/ComponentLevel3.py",
    "                if obj.slice_overlap( v ):\n                  if obj in writer_prop and writer_prop[ obj ]:",
    "                if obj.slice_overlap( v ) and False:\n                  if obj in writer_prop and writer_prop[ obj ]:", ["C08"])
mut("net_writer_first_member", "pymtl3/dsl/ComponentLevel3.py",
    "            if v in writer_prop or isinstance( v, Const ):\n              assert not has_writer",
    "            if v in writer_prop or isinstance( v, Const ):\n              if has_writer: continue", ["C08", "C09"])


V1 = "pymtl3/passes/backends/verilog/translation/behavioral/VBehavioralTranslatorL1.py"
mut("tr_signext_lastbit_off", V1, "    last_bit = current_nbits - 1\n", "    last_bit = current_nbits - 1 if current_nbits != 3 else 1\n", ["C03", "C12"])
mut("tr_slice_upper_off", V1, "        upper = str( int( node.upper._value - 1 ) )", "        upper = str( int( node.upper._value - 1 ) if node.upper._value != 5 else 5 )", ["C03", "C12"])
mut("tr_truncate_drop_cast", V1, "    if isinstance(dtype, rdt.Vector) and dtype.get_length() > nbits:\n      return f\"{nbits}'({value})\"",
    "    if isinstance(dtype, rdt.Vector) and dtype.get_length() > nbits and nbits != 4:\n      return f\"{nbits}'({value})\"", ["C03", "C12"])
mut("tr_assign_blocking_in_ff", V1, "    assignment_op = '<=' if not node.blocking else '='", "    assignment_op = '='", ["C03", "C12"])
mut("tr_zeroext_pad_one_less", V1, "    padded_nbits = target_nbits - current_nbits\n    if padded_nbits == 0:\n      return value\n    else:",
    "    padded_nbits = target_nbits - current_nbits\n    if padded_nbits == 7: padded_nbits = 6\n    if padded_nbits == 0:\n      return value\n    else:", ["C03", "C12"])
mut("tr_struct_field_order_reversed", "pymtl3/passes/backends/verilog/translation/structural/VStructuralTranslatorL2.py",
    "    for id_, _dtype in dtype.get_all_properties().items():\n\n      if isinstance( _dtype, rdt.Vector ):",
    "    for id_, _dtype in reversed(list(dtype.get_all_properties().items())):\n\n      if isinstance( _dtype, rdt.Vector ):", ["C03"])
mut("tr_revert_reduce_fix", V1, "      value = f\"( {value} )\"\n    op = reduce_ops[ op_t ]", "      pass\n    op = reduce_ops[ op_t ]", ["C03", "C12"])
mut("name_hash_first_param_only", "pymtl3/passes/rtlir/util/utility.py",
    "  for arg_name, arg_value in comp_params:\n    assert arg_name != ''\n    comp_name += '__' + arg_name + '_' + get_string(arg_value)",
    "  for arg_name, arg_value in comp_params[:1]:\n    assert arg_name != ''\n    comp_name += '__' + arg_name + '_' + get_string(arg_value)", ["C13", "C03"])
mut("upblk_order_from_set", "pymtl3/passes/rtlir/util/utility.py",
    "  return [ x for x in m.get_update_block_order() if x in upblks ]", "  return list( upblks )", ["C13"])


mut("c15_revert_late_signals", "pymtl3/dsl/Component.py",
    "    top._dsl.all_signals       |= late_signals\n    top._dsl.all_named_objects |= late_signals\n", "    pass\n", ["C15"])
mut("c15_revert_double_buffer", "pymtl3/dsl/Component.py",
    "      if blk in parent._dsl.update_ff:\n        written._dsl.needs_double_buffer = True\n", "", ["C15"])
mut("c15_revert_wr_u", "pymtl3/dsl/ComponentLevel2.py",
    "        s._dsl.all_WR_U_constraints[k] -= m._dsl.WR_U_constraints[k]", "        s._dsl.all_WR_U_constraints[k] -= m._dsl.RD_U_constraints[k]", ["C15"])
mut("c15_revert_const_adjacency", "pymtl3/dsl/Component.py",
    "      for y in removed_consts:\n        top._dsl.all_adjacency.pop( y, None )\n", "", ["C15"])
mut("c15_keep_removed_signals", "pymtl3/dsl/Component.py",
    "      top._dsl.all_signals       -= removed_signals\n", "      pass\n", ["C15"])
mut("c15_lose_saved_reads", "pymtl3/dsl/Component.py",
    "    for blk, obj_name in provided_upblk_reads:\n      parent._dsl.upblk_reads[blk].add( eval(obj_name) )\n",
    "    for blk, obj_name in provided_upblk_reads[1:]:\n      parent._dsl.upblk_reads[blk].add( eval(obj_name) )\n", ["C15"])
mut("c15_update_ff_not_uncollected", "pymtl3/dsl/ComponentLevel2.py",
    "      s._dsl.all_update_ff -= m._dsl.update_ff\n", "      pass\n", ["C15"])


mut("gendag_method_succ_dropped", "pymtl3/passes/sim/GenDAGPass.py",
    "                          top._dag.all_constraints.add( (blk, vb) )", "                          pass", ["C02", "C17"])
mut("gendag_u_before_method_dropped", "pymtl3/passes/sim/GenDAGPass.py",
    "                    top._dag.all_constraints.add( (v, blk) )", "                    pass", ["C02", "C17", "C18"])


mut("openloop_rollover_ge", "pymtl3/passes/autotick/OpenLoopCLPass.py",
    "        if j > my_idx_orig:", "        if j > my_idx_orig + 1:", ["C17"])
mut("openloop_skip_blocks_before_method", "pymtl3/passes/autotick/OpenLoopCLPass.py",
    "        while i < my_idx_new:\n          schedule_no_method[i]()\n          i += 1\n        j = my_idx_orig + 1",
    "        while i < my_idx_new - 1:\n          schedule_no_method[i]()\n          i += 1\n        i = my_idx_new\n        j = my_idx_orig + 1", ["C17"])

# -- reverse patches of the round-2 fixes (F28 F29 F30) and the C01b seed on top of F28 ----------------
mut("asthelper_revert_nonfinal_index_visit", "pymtl3/dsl/AstHelper.py",
    "                           f\"update block {self.upblk.__name__} in class {self.obj.__class__}.\" )\n        else: # s.sel[0], s.sel[0:2], s.sel + 1 ... still reads signals\n          self.visit( v )\n",
    "                           f\"update block {self.upblk.__name__} in class {self.obj.__class__}.\" )\n",
    ["C01", "C02"])
mut("asthelper_nonfinal_index_never_visited", "pymtl3/dsl/AstHelper.py",
    "        v = node.slice\n        n = \"*\"\n\n        if isinstance( v, ast.Attribute ): # s.sel, may be constant\n          self.visit( v )\n        elif isinstance( v, ast.Num ):",
    "        v = node.slice\n        n = \"*\"\n\n        if isinstance( v, ast.Attribute ): # s.sel, may be constant\n          pass\n        elif isinstance( v, ast.Num ):",
    ["C01", "C02"])
mut("yosys_revert_subcomp_index_order", "pymtl3/passes/backends/yosys/translation/structural/YosysStructuralTranslatorL4.py",
    "        idx = pre + idx\n        return [ template.format( **locals() ) ]",
    "        idx = ''.join(reversed(['[' + x for x in pre.split('[') if x])) + idx\n        return [ template.format( **locals() ) ]",
    ["C12"])
mut("net_revert_via_ancestor_skip", "pymtl3/dsl/ComponentLevel3.py",
    "for obj in ( () if via_ancestor else v.get_sibling_slices() ):",
    "for obj in v.get_sibling_slices():", ["C08", "C01"])

# -- C14: naming of nested lists / interfaces ----------------------------------------------------------
mut("namedobj_nested_list_index_order", "pymtl3/dsl/NamedObject.py",
    "            Q.extend( (v, indices+(i,)) for i, v in enumerate(u) )",
    "            Q.extend( (v, (i,)+indices) for i, v in enumerate(u) )", ["C14"])
mut("namedobj_list_level_counts_dims", "pymtl3/dsl/NamedObject.py",
    "            ud.parent_obj = s\n            ud.level      = sd.level + 1\n\n            ud._my_name  = name\n",
    "            ud.parent_obj = s\n            ud.level      = sd.level + len(indices)\n\n            ud._my_name  = name\n", ["C14"])
mut("connectable_host_is_parent", "pymtl3/dsl/Connectable.py",
    "        host = s\n        while not host.is_component():\n          host = host.get_parent_object() # go to the component\n",
    "        host = s.get_parent_object()\n        while not host.is_component() and not host.is_interface():\n          host = host.get_parent_object() # go to the component\n        if host.is_interface(): host = host.get_parent_object()\n",
    ["C14"])

# -- interface arrays / reserved words (ifcgen family, F29 remaining sites, F33) --------------------------
mut("yosys_revert_top_ifc_index_order", "pymtl3/passes/backends/yosys/translation/structural/YosysStructuralTranslatorL3.py",
    "      idx = pre + idx\n      return [ template.format( **locals() ) ]",
    "      idx = ''.join(reversed(['[' + x for x in pre.split('[') if x])) + idx\n      return [ template.format( **locals() ) ]",
    ["C12"])
mut("yosys_revert_subcomp_ifc_index_order", "pymtl3/passes/backends/yosys/translation/structural/YosysStructuralTranslatorL4.py",
    "        return [ { \"direction\" : d, \"pid\" : pid, \"wid\" : wid, \"idx\" : pre + idx } ]",
    "        return [ { \"direction\" : d, \"pid\" : pid, \"wid\" : wid, \"idx\" : ''.join(reversed(['[' + x for x in pre.split('[') if x])) + idx } ]",
    ["C12"])
mut("tr_revert_reserved_subcomp_check", "pymtl3/passes/backends/verilog/translation/structural/VStructuralTranslatorL4.py",
    "    s.check_decl( c_id, f\"sub-component {c_id} of {m}\" )\n", "    pass\n", ["C03"])

mut("c15_revert_paramtreenode_import", "pymtl3/dsl/Component.py",
    "from .NamedObject import NamedObject, ParamTreeNode", "from .NamedObject import NamedObject", ["C15"])

mut("dynsched_revert_once_cycle_message", "pymtl3/passes/sim/DynamicSchedulePass.py",
    "f\"in 'top.{repr(hosts[y])[2:]}')\" if y in hosts else",
    "f\"in 'top.{repr(top.get_update_block_host_component(y))[2:]}')\" if True else", ["C11"])

mut("tr_revert_same_width_ext_grouping", V1,
    "      # Nothing to extend, but the operand must stay one operand\n      return s.visit_expr_wrap( node.value )\n    value = s.visit( node.value )\n    return f\"{{ {{ {padded_nbits} {{ 1'b0 }} }}, {value} }}\"",
    "      return s.visit( node.value )\n    value = s.visit( node.value )\n    return f\"{{ {{ {padded_nbits} {{ 1'b0 }} }}, {value} }}\"", ["C03"])

mut("textwave_revert_own_namespace", "pymtl3/passes/tracing/PrintTextWavePass.py",
    "    exec(compile( src, filename=\"temp\", mode=\"exec\"), g_dict, l_dict)",
    "    s = top\n    exec(compile( src, filename=\"temp\", mode=\"exec\"), globals().update(locals()), l_dict)", ["C16"])


def load_extra():
  p = os.path.join(VERIF, "tools", "mutants_extra.json")
  if os.path.exists(p):
    for name, (f, old, new, props) in json.load(open(p)).items():
      M[name] = (f, old, new, props)


def run_mutant(name, runs, tmp):
  f, old, new, props = M[name]
  if old is None:
    return name, "skipped", {}
  wt = os.path.join(tmp, name)
  subprocess.run(["git", "-C", REPO, "worktree", "add", "--detach", "-f", wt, "HEAD"],
                 capture_output=True, check=True)
  res = {}
  try:
    p = os.path.join(wt, f)
    s = open(p).read()
    if s.count(old) != 1:
      return name, "pattern matched %d times" % s.count(old), {}
    open(p, "w").write(s.replace(old, new))
    for prop in props:
      env = dict(os.environ, VERIF_REPO=wt, VERIF_NO_DETSAMPLE="1", VERIF_OUT_DIR=wt + "-out")
      cmd = [os.path.join(VERIF, "bin", "check"), prop, "--tier", "quick"]
      if runs:
        cmd += ["--runs", str(runs)]
      r = subprocess.run(cmd, capture_output=True, text=True, env=env, timeout=1800)
      first = [l for l in r.stdout.splitlines() if l.startswith(("VIOLATION", "HARNESS"))][:1]
      res[prop] = (r.returncode, first[0][:200] if first else r.stdout[-200:])
  finally:
    subprocess.run(["git", "-C", REPO, "worktree", "remove", "--force", wt], capture_output=True)
    shutil.rmtree(wt, ignore_errors=True)
    shutil.rmtree(wt + "-out", ignore_errors=True)
  killed = [p for p, (rc, line) in res.items() if rc == 1 and line.startswith("VIOLATION")]
  return name, ("KILLED by " + ",".join(killed)) if killed else "SURVIVED", res


def main():
  load_extra()
  args = sys.argv[1:]
  j = 4
  runs = None
  names = []
  i = 0
  while i < len(args):
    if args[i] == "-j":
      j = int(args[i + 1]); i += 2
    elif args[i] == "--runs":
      runs = int(args[i + 1]); i += 2
    else:
      names.append(args[i]); i += 1
  names = names or sorted(M)
  tmp = tempfile.mkdtemp(prefix="verif-mut-")
  try:
    with ThreadPoolExecutor(max_workers=j) as ex:
      for name, verdict, res in ex.map(lambda n: run_mutant(n, runs, tmp), names):
        print("%-34s %s" % (name, verdict))
        for p, (rc, line) in res.items():
          print("    %s rc=%d %s" % (p, rc, line))
        sys.stdout.flush()
  finally:
    shutil.rmtree(tmp, ignore_errors=True)
    subprocess.run(["git", "-C", REPO, "worktree", "prune"], capture_output=True)
  # replays written while testing mutants are not evidence about /repo
  for fn in os.listdir(os.path.join(VERIF, "replays")):
    pass


if __name__ == "__main__":
  main()
