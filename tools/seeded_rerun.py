#!/usr/bin/env python3
"""Re-run our quick checks against every kept seeded change (scratch worktree + git apply +
VERIF_REPO), update seeded/<id>/meta.json ("caught_by_current") and print the table that
DESIGN.md 11.6 quotes.  usage: tools/seeded_rerun.py [-j N] [id ...]"""
import json
import os
import shutil
import subprocess
import sys
import tempfile
from concurrent.futures import ThreadPoolExecutor

VERIF = os.path.dirname(os.path.dirname(os.path.abspath(__file__)))
REPO = "/repo"
EXTRA = {"C01": ["C02"], "C02": ["C01"], "C03": ["C12", "C13"], "C07": ["C01"], "C08": ["C14"], "C12": [], "C13": [],
         "C14": ["C08", "C15"], "C09": [], "C17": []}


def one(name):
  d = os.path.join(VERIF, "seeded", name)
  meta = json.load(open(os.path.join(d, "meta.json")))
  prop = meta["property"]
  tmp = tempfile.mkdtemp(prefix="verif-seedr-")
  wt = os.path.join(tmp, "wt")
  res = {}
  try:
    subprocess.run(["git", "-C", REPO, "worktree", "add", "--detach", "-f", wt, "HEAD"], capture_output=True)
    ap = subprocess.run(["git", "apply", os.path.join(d, "patch.diff")], cwd=wt, capture_output=True, text=True)
    if ap.returncode != 0:
      return name, prop, {"error": "patch does not apply: " + ap.stderr[:200]}
    for p in [prop] + EXTRA.get(prop, []):
      e = dict(os.environ, VERIF_REPO=wt, VERIF_OUT_DIR=os.path.join(tmp, "out"), VERIF_NO_DETSAMPLE="1")
      r = subprocess.run([os.path.join(VERIF, "bin", "check"), p, "--tier", "quick"], env=e, capture_output=True,
                         text=True, timeout=3000)
      v = [l for l in r.stdout.splitlines() if l.startswith("VIOLATION")]
      res[p] = {"exit": r.returncode, "check": (v[0].split("check=")[1].split()[0] if v else None)}
  finally:
    subprocess.run(["git", "-C", REPO, "worktree", "remove", "--force", wt], capture_output=True)
    shutil.rmtree(tmp, ignore_errors=True)
  meta["caught_by_current"] = {p: v["check"] for p, v in res.items() if v["exit"] == 1 and v["check"]}
  json.dump(meta, open(os.path.join(d, "meta.json"), "w"), indent=1)
  return name, prop, res


def main():
  args = sys.argv[1:]
  j = 3
  if args[:1] == ["-j"]:
    j = int(args[1])
    args = args[2:]
  names = args or sorted(os.listdir(os.path.join(VERIF, "seeded")))
  with ThreadPoolExecutor(j) as ex:
    for name, prop, res in ex.map(one, names):
      caught = [p + ":" + str(v.get("check")) for p, v in res.items() if isinstance(v, dict) and v.get("exit") == 1]
      obs = json.load(open(os.path.join(VERIF, "seeded", name, "meta.json"))).get("obsolete_after_fix")
      print("%-44s %-4s %s" % (name, prop, ", ".join(caught) if caught else
                               ("NEUTRALISED by fix %s" % obs["commit"] if obs else "MISSED " + json.dumps(res)[:120])))
      sys.stdout.flush()
  subprocess.run(["git", "-C", REPO, "worktree", "prune"], capture_output=True)


if __name__ == "__main__":
  main()
